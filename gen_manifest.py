#!/usr/bin/env python3
"""Generates MANIFEST.json from the table below (the single source for what is claimed)."""
import json, subprocess, os
ROOT = os.path.dirname(os.path.abspath(__file__))

# property -> (world, design section, technique, level text, level note)
CLAIMED = {}
def claim(pid, world, technique, text, note):
    CLAIMED[pid] = dict(world=world, technique=technique, text=text, note=note)

NA = {}
def na(pid, reason):
    NA[pid] = reason

exec(open(os.path.join(ROOT, "manifest_table.py")).read())

props = [json.loads(l)["id"] for l in open(os.path.join(ROOT, "properties.jsonl"))]
checks = []
for pid in props:
    if pid in CLAIMED and os.path.isdir(os.path.join(ROOT, "sim", "worlds", CLAIMED[pid]["world"])):
        c = CLAIMED[pid]
        checks.append({
            "property_id": pid,
            "quick_cmd": f"./check {pid} quick",
            "thorough_cmd": f"./check {pid} thorough",
            "evidence_file": f"/verif/evidence/{pid}.json",
            "replay_cmd_template": f"./check {pid} --replay {{path}}",
            "engine": c["world"],
            "level_claimed": {"category": "exploration", "text": c["text"], "design_ref": "DESIGN.md §5 " + pid},
            "level_note": c["note"],
            "technique": c["technique"],
        })
not_app = []
for pid in props:
    if pid in NA:
        not_app.append({"property_id": pid, "reason": NA[pid]})
    elif not any(c["property_id"] == pid for c in checks):
        not_app.append({"property_id": pid, "reason": "not claimed yet: the simulated world for this property is not built/committed at this commit (see DESIGN.md §5)"})

def hook_commits():
    try:
        out = subprocess.check_output(["git", "-C", "/repo", "log", "--format=%h %s"], text=True)
        return [l.split()[0] for l in out.splitlines() if l.split(" ", 1)[1].startswith("verif hook")]
    except Exception:
        return []

worlds = sorted({c["engine"] for c in checks})
manifest = {
    "version": 1,
    "setup_cmd": "./check build",
    "hooks": {
        "guard": "verif",
        "enable": "go build tag: checks build /repo through the replace directive of /verif/sim/go.mod with `go1.26.8 test -c -tags verif`",
        "baseline_off_cmd": "cd /repo && go test -json -vet=off -count=1 -timeout 25m ./...",
        "source_commits": hook_commits(),
        "add_only": True,
    },
    "engines": [{"name": w, "path": f"/verif/sim/worlds/{w}", "serves_properties": [c["property_id"] for c in checks if c["engine"] == w],
                 "kind_free_text": "deterministic simulation world: seeded plan generator + executor over real repository components with simulator-owned disk/clock/network/scheduler, oracles, shrinking, replay (kernel: /verif/sim/simkit)"} for w in worlds],
    "checks": checks,
    "not_applicable": not_app,
    "notes": "Deterministic simulation with fault injection. One seed (VERIF_SEED) decides every plan; ./check <id> quick|thorough|selftest|--replay <file>. Exit 0 held / 1 VIOLATION / 2 harness trouble. Known findings: /verif/known_findings.txt. See DESIGN.md.",
}
json.dump(manifest, open(os.path.join(ROOT, "MANIFEST.json"), "w"), indent=1)
print(f"claimed={len(checks)} not_applicable={len(not_app)}")
