# Table read by gen_manifest.py. claim(id, world, technique, level text, level note); na(id, reason)
SIM = "deterministic simulation: seeded search over operation/fault/schedule plans against real components, "
claim("C27", "cachesim", SIM + "invariant oracle after every step, configs swept over everything Verify accepts",
      "Seeded exploration of put/immunize/remove/clear histories over randomly drawn accepted configurations; immune-never-evicted, per-chunk limits and keeps-admitting are checked after every step. Sampling, not proof.",
      "Trusts the verif-tagged chunk accessor and the harness model of which keys were accepted as immune (taken from ImmunizeKeys' return values).")
claim("C28", "cachesim", SIM + "step-by-step refinement against a reference LRU",
      "Every operation of a seeded history is applied to the real capacityLRU and a 40-line reference LRU; key order, length and byte size must agree after each step. Sampling, not proof.",
      "Trusts the reference LRU (item+byte limit, keeps the newest item).")
claim("C29", "cachesim", SIM + "public-API index invariants (synctest clock) + Go race detector under a serialised, race-detector-invisible scheduler",
      "Sequential arm: by-hash / by-nonce / counter agreement after every step of seeded histories with evictions. Race arm: 2-4 logical threads serialised in seed order with a hand-off that adds no happens-before edge, so the race detector reports every unsynchronised conflicting pair executed. Sampling, not proof.",
      "Race verdict = Go race detector (only races between operations executed in a run).")
claim("C31", "cachesim", SIM + "no-false-negative oracle + Go race detector under a serialised, race-detector-invisible scheduler",
      "Sequential arm: every key added since the last Clear must be reported, for sizes from the minimum accepted and 1-3 hashers. Race arm: Add||MayContain on 2-4 logical threads. Sampling, not proof.",
      "Race verdict = Go race detector; Clear is not issued concurrently (the property does not promise it).")

PURE = "pure function of its arguments: no history, schedule, clock, storage or fault influences the result, so there is nothing for a simulator to control (DESIGN.md §6); deciding it would be property-based testing, a different technique. "
na("C11", PURE + "ComputeId/SameShard/CommunicationIdentifier are stateless arithmetic on (address bytes, shard count).")
na("C17", PURE + "VerifySignature is a function of (header bitmap, signature, consensus group).")
na("C18", PURE + "Relation between byte strings, their decoding and their hash; no state or schedule.")
na("C19", PURE + "checkHeaderBodyCorrelation(header miniblock list, body) is a stateless predicate.")
na("C21", PURE + "Fee formulas are arithmetic over (tx fields, epoch flags).")
na("C22", PURE + "ComputeGasLimitBasedOnBalance vs ComputeTxFee is arithmetic.")
na("C24", PURE + "GetDataForSigning is an encoding of the transaction fields.")
na("C32", PURE + "Packers/splitter are stateless list->chunks functions.")
na("C33", PURE + "Linear size estimate vs marshalled size is arithmetic over counts and ids.")
na("C35", "CreateRewardsMiniBlocks is one end-of-epoch computation from (validator infos, economics); producing those inputs from a simulated history would need the whole metachain block processor, which cannot be put under one scheduler here; the call itself is a pure function of its arguments.")
na("C36", PURE + "GetIntTrimmedPercentageOfValue is arithmetic.")
na("C37", PURE + "Rating computations are functions of (config, rating, streak).")
na("C44", PURE + "ComputeEvictionList(peers) is one stateless call over a classified peer list.")
na("C45", PURE + "Generated codecs: encode/decode with no map fields, so not even iteration order enters.")
na("C47", PURE + "Genesis parser: validation of one file.")
na("C48", PURE + "Bech32/hex converters: encode/decode.")

TRIE_NOTE = "Trusts: the harness reference map, SimDisk (no write faults, clean restarts only), the Go map-free determinism of the world (selftest). Injected read errors: the failing step is only checked for 'no wrong data'; a trie whose mutation failed with an I/O error is abandoned and rebuilt from its last committed root, as a caller would."
claim("C01", "triesim", SIM + "step-by-step refinement against a map; leaf enumeration against commit snapshots; read-error injection",
      "Seeded histories of update/delete/get/commit/recreate/leaves/restart over a structured key pool on the real trie + storage manager + LRU + SimDisk; every Get and every leaf enumeration is compared with the reference map. Sampling, not proof.", TRIE_NOTE)
claim("C02", "triesim", SIM + "differential twins: same map through different histories/configurations must give the same root hash",
      "After commits and at the end the root is compared with a canonical fresh trie of the same map, and twin steps rebuild the map through permuted inserts, detours, overwrites, intermediate commits/recreates, other maxTrieLevelInMemory and a rebuild from disk. Sampling, not proof.", TRIE_NOTE)
claim("C03", "triesim", SIM + "recreate from any earlier committed root (warm, cold cache, after restart) then continue and compare with the canonical twin",
      "Every committed (root, map) is remembered; recreate/restart/cold-check steps must give that root and contents and further mutations must keep matching the canonical root. Sampling, not proof.", TRIE_NOTE)
claim("C04", "triesim", SIM + "prover/verifier over a faulty proof channel: completeness, soundness and no-panic oracles",
      "Proofs generated from tries recreated from (faulty) disk for present and absent keys are verified for the same key, for related keys (misdelivery) and after drop/dup/swap/truncate/corrupt/foreign-root faults; accepted => key present; panics are violations. Sampling, not proof.", TRIE_NOTE)

STATE_NOTE = "Trusts: the harness account model, SimDisk (no write faults, clean restarts only). Read errors are injected as 'all disk reads of the step fail' (AccountsDB iterates Go maps, so the n-th read would not replay); after a failed step only 'RevertToSnapshot(0) gives the last committed state' is asserted. An operation that returns an error without a fault is followed by a revert to the step's start, which must restore everything."
claim("C06", "statesim", SIM + "refinement against an account model deep-copied at every journal snapshot; full comparison after nested/repeated reverts",
      "Seeded histories of save/remove/snapshot/revert/revert(0)/commit/restart over a few addresses, shared code blobs and storage keys on the real AccountsDB stack over SimDisk; after each revert the root hash and every account field, code and storage value are compared with the copy taken at that journal length. Sampling, not proof.", STATE_NOTE)
claim("C07", "statesim", SIM + "invariant oracle after every step: code entry exists iff referenced, NumReferences equals the number of referring accounts",
      "Code-heavy histories (deploy shared, change, clear, remove, revert, commit, restart); the entry under every code hash is read from the current main trie after each step. Sampling, not proof.", STATE_NOTE)
claim("C08", "statesim", SIM + "read-back oracle at four points (before save, after save, after commit, after restart) with caller buffer-sharing patterns in the plan",
      "Storage-heavy histories where the driver passes sub-slices of a reused arena (spare capacity, key and value adjacent) and scribbles over it after the call; every value must read back byte-for-byte, deleted keys read empty. Sampling, not proof.", STATE_NOTE)

claim("C46", "historysim", SIM + "history oracle over record/notify/restart sequences with competing blocks",
      "Seeded sequences of RecordBlock (same miniblock in competing blocks of one epoch and across epochs), OnNotarizedBlocks in any order, unrelated notifications, restarts and storer put errors on the real historyRepository over SimDisk storers; each lookup must name the most recently recorded block and carry notarization data once record and notification were both seen (bounded-progress reading). Sampling, not proof.",
      "Trusts the harness model of 'most recently recorded block'; notarization asserted only after one further notification call and with no restart while the notification was pending; a failed record may be missing, never wrong.")
claim("C42", "floodsim", SIM + "per-peer accounting oracle between resets over all accepted constructor arguments",
      "Seeded IncreaseLoad/Reset/ApplyConsensusSize sequences from several peers on the real quotaFloodPreventer + LRU cacher; accepted messages <= max(1, message quota) and accepted bytes <= byte quota + first message. Sampling, not proof.",
      "Cacher is large enough for the peers of a run; message sizes capped at 2^40; the quota in force after ApplyConsensusSize is bounded from above with exact integer arithmetic where possible.")
claim("C43", "floodsim", SIM + "seeded interleavings of real goroutines parked at throttler/processor seams inside a synctest bubble",
      "2-6 tasks deliver messages to the real SingleDataInterceptor / MultiDataInterceptor / TrieNodeResolver whose throttler is the real NumGoRoutinesThrottler behind a parking wrapper; the plan releases one seam call at a time; running admitted tasks must never exceed the maximum. The check-then-act window is a recorded known finding; every other kind still fails the check. Sampling, not proof.",
      "Interleavings are decided at seam-call granularity (CanProcess, StartProcessing, EndProcessing, processor work); goroutine identity via runtime.Stack.")

POOL_NOTE = "Trusts the verif-tagged accessor VerifSenders; txcache orders senders of one score bucket by Go map iteration, so plans avoid states where a tie and a binding count coincide (stated in the evidence assumptions); the sweeper goroutine is quiesced with synctest.Wait after each selection."
claim("C25", "poolsim", SIM + "index-consistency invariants after every step of add/remove/select/notify/clear histories with eviction and per-sender limits",
      "Seeded histories on the real TxCache with tiny eviction thresholds and per-sender limits; after every step the hash index, the per-sender lists, the counters, ordering and (after each AddTx) the sender's limits are compared. The byte-limit clause is a recorded known finding; every other kind still fails the check. Sampling, not proof.", POOL_NOTE)
claim("C26", "poolsim", SIM + "selection oracle: prefix per sender, no skipped nonce, initial gap and grace period tracked from the selection history",
      "Every SelectTransactions result of the same histories is checked: size, distinctness, membership, per-sender prefix, no nonce skipped, senders with an initial gap contribute nothing (one transaction inside the grace window). Sampling, not proof.", POOL_NOTE)

claim("C09", "prunesim", SIM + "liveness-of-roots invariant after every step, checked by an independent trie walker over the raw disk; finalize/rollback protocol of the block processor mirrored by the driver; read/remove-error injection",
      "Seeded block histories (commit/abort/finalize through the real slice queue/rollback/block-unblock pruning/restart) over accounts with data tries on the real AccountsDB + storagePruningManager + evictionWaitingList over SimDisk; after every step every live root must be fully retrievable; at the end of decidable runs no node of a pruned root may remain. Two defects are recorded known findings (recurring root values; rollback while pruning is blocked leaves garbage); any other violation fails the check. Sampling, not proof.",
      "Trusts the walker and the liveness definition stated in the evidence assumptions (linear history, restart on a final block); the ten-line finalize/rollback protocol is mirrored, the block processor is not instantiated.")
claim("C10", "prunesim", SIM + "seeded interleavings of the real snapshot/checkpoint goroutines (parked at every main-DB access inside a synctest bubble) with commits, prunes and rollbacks; completeness oracle over the snapshot DB alone",
      "C09 histories plus SnapshotState/SetStateCheckpoint of final roots; background workers advance one DB access at a time as the plan dictates while the driver keeps committing, finalizing (pruning) and rolling back; when a snapshot/checkpoint completed the walker must rebuild the whole state from the snapshot DB alone. Sampling, not proof.",
      "One snapshot or checkpoint at a time, for final roots in chain order, checkpoint only after a completed snapshot, no restart (in-memory snapshot DBs); interleavings at DB-access granularity; goroutine identity via runtime.Stack.")
claim("C20", "forksim", SIM + "twin detectors fed the same batches in different internal orders over a simulated arrival schedule (delay, duplicate, reorder); fork-above-final invariant at every CheckFork",
      "Seeded block trees and event streams (received/processed/notarized/proposed headers, removals, resets, rollback requests, round ticks) delivered to two real fork detectors; every detected fork must lie above the final nonce unless a rollback was requested or consensus is stuck, and both twins must agree. Sampling, not proof.",
      "Only received/proposed headers of one nonce are permuted inside a batch (notarization callbacks are delivered in the same order to both twins); RoundHandler and BlockTracker are stubs driven by the plan.")
claim("C23", "txsim", SIM + "conservation and nonce oracle against a balance model, driver plays the block processor (journal length, revert on error), read-error injection on account loading",
      "Seeded transaction sequences (values, gas settings, nonces equal/lower/higher, sender==receiver, missing accounts, epoch flags) through the real txProcessor + economicsData + fee accumulator + AccountsDB over SimDisk; per transaction and globally: value conserved, fee accounted, only the fee charged on insufficient funds, nothing on other rejections, nonce +1 exactly when something is charged. Sampling, not proof.",
      "Fee amounts are taken from the real economicsData (the property is about conservation, not the fee formula); sc processor and forwarders are recording stubs never reached by move-balance transactions; one shard.")

claim("C30", "storersim", SIM + "refinement against per-epoch maps with active/retained windows; epoch changes through the real notifier callbacks; put/get-error injection and restarts over per-path SimDisks",
      "Seeded histories of put/put-in-epoch/get/get-from-epoch/has/search-first/remove/clear-cache/change-epoch (with stuck-shard extension)/restart on the real PruningStorer and FullHistoryPruningStorer; values must be readable while promised and never readable from an active epoch after Remove. Sampling, not proof.",
      "Active window = the numOfActivePersisters newest epochs (extension epochs are allowed extras); bloom filter is memory-only, so Get/Has after a restart with bloom on are probes; disk handles fail after Close like leveldb.")
claim("C34", "triggersim", SIM + "history oracle over a logical round clock: epoch +1 per start, minimum distance, normal start at the first round after roundsPerEpoch",
      "Seeded monotone round streams with skips, forced starts (ahead, equal, behind, far ahead), SetProcessed, Revert and Restart(LoadState over SimDisk) on the real metachain trigger. Sampling, not proof.",
      "Start round and pending-force flag are taken from the driver's own history, not from the trigger's getters; with a force pending only the +1 and minimum-distance clauses are asserted.")
EPOCH_NOTE = "2-4 simulated nodes, each with its own real coordinator, shuffler, boot storer (SimDisk) and group cache; validator info is always built from the previous epoch's result (the precondition of the statements). Go map iteration cannot be seeded: verdicts do not depend on it on correct code; a C13 replay is re-executed up to 30 times."
claim("C12", "epochsim", SIM + "multiset conservation oracle on every recorded UpdateNodeLists call of every simulated node over several epochs",
      "Seeded registries evolve over 3-10 epochs (register, unstake incl. duplicates and unknown keys, jail, inactive, rating drift); old eligible+waiting+new must equal new eligible+waiting+leaving as multisets, leaving must come from the lists, not-honoured requests stay listed. The never-listed-leaving case is a recorded known finding; every other kind still fails the check. Sampling, not proof.", EPOCH_NOTE)
claim("C13", "epochsim", SIM + "multi-node agreement oracle: all nodes, a double computation and restarted nodes must hold identical lists, order included; inputs rebuilt in different insertion orders",
      "Same runs; after each epoch every node's eligible/waiting/leaving lists are compared, and the real shuffler is called repeatedly with identically-valued maps built in different orders. Sampling, not proof.", EPOCH_NOTE)
claim("C14", "epochsim", SIM + "minimum-size invariant after each epoch under heavy leaving, conditional on the stated precondition",
      "Same runs biased to many leaving validators; when the waiting-list fix is active and every shard started with its minimum, every shard keeps its minimum of eligible validators. Sampling, not proof.", EPOCH_NOTE)
claim("C15", "epochsim", SIM + "consensus-group well-formedness and cross-node/cache-hit/cache-miss agreement on sampled (randomness, round, shard, epoch)",
      "Same runs; sampled groups must have the configured size, distinct members from the shard's eligible list of that epoch, the same leader-first order on all nodes, on a second call and on a node whose cache holds one entry, with rater weights. Sampling, not proof.", EPOCH_NOTE)
claim("C16", "epochsim", SIM + "one-place invariant after every EpochStartPrepare on every node",
      "Same runs; every public key is in at most one shard and one of eligible/waiting, and GetValidatorWithPublicKey reports that shard. Sampling, not proof.", EPOCH_NOTE)

claim("C05", "syncsim", SIM + "real trie syncers fed through a simulated network (drop, duplicate, delay/reorder, partition/heal, forged answers, slow peers, disk errors, cancellation) under a synctest clock; completeness/content-addressing oracle by an independent walker over the destination disk; bounded-liveness probe in the fault-free arm",
      "Seeded source tries (up to 400 leaves, optional data tries through the real userAccountsSyncer), 1-4 peers (honest/partial/Byzantine) answering through the real TrieNodeResolver, both syncer implementations, responses through NewInterceptedTrieNode/CheckValidity/TrieNodeInterceptorProcessor into the real cacher; when StartSyncing returns nil every node reachable from the root must be on the destination disk under the hash of its own bytes and the recreated trie must hold the source contents; a panic on a forged node is a violation. Sampling, not proof.",
      "Go map iteration inside the syncers decides request contents and round counts, so the event log holds plan-derived lines only and replays are re-executed up to 20 times; request handler, topic senders, antiflood/throttler and the multi-data interceptor loop are simulator stubs; after an injected read error in the accounts arm only the main trie is judged (GetAllLeavesOnChannel swallows read errors).")
SC_NOTE = "Real vmContext (eei), system SC container from vm/factory and systemVM; the blockchain hook (accounts, storage, logical nonce/epoch/round, random seed) and the applier of VMOutput (stand-in for scProcessor: applies on Ok, discards otherwise; does not reject overdrafts) are simulator-owned; signature/key checks accept."
claim("C38", "scsim", SIM + "bookkeeping invariants after every successful transaction, by view functions and by decoding the stored records",
      "Seeded delegate/unDelegate/withdraw/claim/reDelegate/updateRewards/node-management sequences over 2-4 delegators with epoch ticks and amounts around the minimum; totals equal sums, referenced funds exist, withdrawals <= undelegated, rewards paid <= rewards received. Sampling, not proof.", SC_NOTE)
claim("C39", "scsim", SIM + "queue well-formedness and counter invariants after every successful call, decoded from the staking contract's storage",
      "Seeded stake/unStake/unBond/jail/unJail/queue operations over 3-8 BLS keys with small min/max node counts and flags on/off; the waiting list must be a well-formed doubly linked list matching its markers and the Waiting keys; StakedNodes equals the number of Staked keys and respects the maximum unless it was lowered. Sampling, not proof.", SC_NOTE)
claim("C40", "scsim", SIM + "nested-call failure injection (synthetic callee failing at a planned point, depth 1-3, and real contract pairs driven into failure); a forwarding spy between contracts and the real eei records writes per frame",
      "After every failed ExecuteOnDestContext the keys the callee touched must read their pre-call values and the final VMOutput of a continuing caller must hold none of the callee's writes or transfers. Sampling, not proof.", SC_NOTE)
claim("C41", "scsim", SIM + "history oracle over issue calls with a simulator-owned random seed (seeds searched so that candidates collide, exhaust the retry budget and cross ffffff)",
      "Every successful issue must return TICKER-[0-9a-f]{6} not returned or stored before. Sampling, not proof.", SC_NOTE)
