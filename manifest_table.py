# Table read by gen_manifest.py. claim(id, world, technique, level text, level note); na(id, reason)
SIM = "deterministic simulation: seeded search over operation/fault/schedule plans against real components, "
claim("C27", "cachesim", SIM + "invariant oracle after every step, configs swept over everything Verify accepts",
      "Seeded exploration of put/immunize/remove/clear histories over randomly drawn accepted configurations; immune-never-evicted, per-chunk limits and keeps-admitting are checked after every step. Sampling, not proof.",
      "Trusts the verif-tagged chunk accessor and the harness model of which keys were accepted as immune (taken from ImmunizeKeys' return values).")
claim("C28", "cachesim", SIM + "step-by-step refinement against a reference LRU",
      "Every operation of a seeded history is applied to the real capacityLRU and a 40-line reference LRU; key order, length and byte size must agree after each step. Sampling, not proof.",
      "Trusts the reference LRU (item+byte limit, keeps the newest item).")
claim("C29", "cachesim", SIM + "public-API index invariants (synctest clock) + Go race detector under a serialised, race-detector-invisible scheduler",
      "Sequential arm: by-hash / by-nonce / counter agreement after every step of seeded histories with evictions. Race arm: 2-4 logical threads serialised in seed order with a hand-off that adds no happens-before edge, so the race detector reports every unsynchronised conflicting pair executed. Sampling, not proof.",
      "Race verdict = Go race detector (only races between operations executed in a run).")
claim("C31", "cachesim", SIM + "no-false-negative oracle + Go race detector under a serialised, race-detector-invisible scheduler",
      "Sequential arm: every key added since the last Clear must be reported, for sizes from the minimum accepted and 1-3 hashers. Race arm: Add||MayContain on 2-4 logical threads. Sampling, not proof.",
      "Race verdict = Go race detector; Clear is not issued concurrently (the property does not promise it).")

PURE = "pure function of its arguments: no history, schedule, clock, storage or fault influences the result, so there is nothing for a simulator to control (DESIGN.md §6); deciding it would be property-based testing, a different technique. "
na("C11", PURE + "ComputeId/SameShard/CommunicationIdentifier are stateless arithmetic on (address bytes, shard count).")
na("C17", PURE + "VerifySignature is a function of (header bitmap, signature, consensus group).")
na("C18", PURE + "Relation between byte strings, their decoding and their hash; no state or schedule.")
na("C19", PURE + "checkHeaderBodyCorrelation(header miniblock list, body) is a stateless predicate.")
na("C21", PURE + "Fee formulas are arithmetic over (tx fields, epoch flags).")
na("C22", PURE + "ComputeGasLimitBasedOnBalance vs ComputeTxFee is arithmetic.")
na("C24", PURE + "GetDataForSigning is an encoding of the transaction fields.")
na("C32", PURE + "Packers/splitter are stateless list->chunks functions.")
na("C33", PURE + "Linear size estimate vs marshalled size is arithmetic over counts and ids.")
na("C35", "CreateRewardsMiniBlocks is one end-of-epoch computation from (validator infos, economics); producing those inputs from a simulated history would need the whole metachain block processor, which cannot be put under one scheduler here; the call itself is a pure function of its arguments.")
na("C36", PURE + "GetIntTrimmedPercentageOfValue is arithmetic.")
na("C37", PURE + "Rating computations are functions of (config, rating, streak).")
na("C44", PURE + "ComputeEvictionList(peers) is one stateless call over a classified peer list.")
na("C45", PURE + "Generated codecs: encode/decode with no map fields, so not even iteration order enters.")
na("C47", PURE + "Genesis parser: validation of one file.")
na("C48", PURE + "Bech32/hex converters: encode/decode.")

TRIE_NOTE = "Trusts: the harness reference map, SimDisk (no write faults, clean restarts only), the Go map-free determinism of the world (selftest). Injected read errors: the failing step is only checked for 'no wrong data'; a trie whose mutation failed with an I/O error is abandoned and rebuilt from its last committed root, as a caller would."
claim("C01", "triesim", SIM + "step-by-step refinement against a map; leaf enumeration against commit snapshots; read-error injection",
      "Seeded histories of update/delete/get/commit/recreate/leaves/restart over a structured key pool on the real trie + storage manager + LRU + SimDisk; every Get and every leaf enumeration is compared with the reference map. Sampling, not proof.", TRIE_NOTE)
claim("C02", "triesim", SIM + "differential twins: same map through different histories/configurations must give the same root hash",
      "After commits and at the end the root is compared with a canonical fresh trie of the same map, and twin steps rebuild the map through permuted inserts, detours, overwrites, intermediate commits/recreates, other maxTrieLevelInMemory and a rebuild from disk. Sampling, not proof.", TRIE_NOTE)
claim("C03", "triesim", SIM + "recreate from any earlier committed root (warm, cold cache, after restart) then continue and compare with the canonical twin",
      "Every committed (root, map) is remembered; recreate/restart/cold-check steps must give that root and contents and further mutations must keep matching the canonical root. Sampling, not proof.", TRIE_NOTE)
claim("C04", "triesim", SIM + "prover/verifier over a faulty proof channel: completeness, soundness and no-panic oracles",
      "Proofs generated from tries recreated from (faulty) disk for present and absent keys are verified for the same key, for related keys (misdelivery) and after drop/dup/swap/truncate/corrupt/foreign-root faults; accepted => key present; panics are violations. Sampling, not proof.", TRIE_NOTE)

STATE_NOTE = "Trusts: the harness account model, SimDisk (no write faults, clean restarts only). Read errors are injected as 'all disk reads of the step fail' (AccountsDB iterates Go maps, so the n-th read would not replay); after a failed step only 'RevertToSnapshot(0) gives the last committed state' is asserted. An operation that returns an error without a fault is followed by a revert to the step's start, which must restore everything."
claim("C06", "statesim", SIM + "refinement against an account model deep-copied at every journal snapshot; full comparison after nested/repeated reverts",
      "Seeded histories of save/remove/snapshot/revert/revert(0)/commit/restart over a few addresses, shared code blobs and storage keys on the real AccountsDB stack over SimDisk; after each revert the root hash and every account field, code and storage value are compared with the copy taken at that journal length. Sampling, not proof.", STATE_NOTE)
claim("C07", "statesim", SIM + "invariant oracle after every step: code entry exists iff referenced, NumReferences equals the number of referring accounts",
      "Code-heavy histories (deploy shared, change, clear, remove, revert, commit, restart); the entry under every code hash is read from the current main trie after each step. Sampling, not proof.", STATE_NOTE)
claim("C08", "statesim", SIM + "read-back oracle at four points (before save, after save, after commit, after restart) with caller buffer-sharing patterns in the plan",
      "Storage-heavy histories where the driver passes sub-slices of a reused arena (spare capacity, key and value adjacent) and scribbles over it after the call; every value must read back byte-for-byte, deleted keys read empty. Sampling, not proof.", STATE_NOTE)

claim("C46", "historysim", SIM + "history oracle over record/notify/restart sequences with competing blocks",
      "Seeded sequences of RecordBlock (same miniblock in competing blocks of one epoch and across epochs), OnNotarizedBlocks in any order, unrelated notifications, restarts and storer put errors on the real historyRepository over SimDisk storers; each lookup must name the most recently recorded block and carry notarization data once record and notification were both seen (bounded-progress reading). Sampling, not proof.",
      "Trusts the harness model of 'most recently recorded block'; notarization asserted only after one further notification call and with no restart while the notification was pending; a failed record may be missing, never wrong.")
claim("C42", "floodsim", SIM + "per-peer accounting oracle between resets over all accepted constructor arguments",
      "Seeded IncreaseLoad/Reset/ApplyConsensusSize sequences from several peers on the real quotaFloodPreventer + LRU cacher; accepted messages <= max(1, message quota) and accepted bytes <= byte quota + first message. Sampling, not proof.",
      "Cacher is large enough for the peers of a run; message sizes capped at 2^40; the quota in force after ApplyConsensusSize is bounded from above with exact integer arithmetic where possible.")
claim("C43", "floodsim", SIM + "seeded interleavings of real goroutines parked at throttler/processor seams inside a synctest bubble",
      "2-6 tasks deliver messages to the real SingleDataInterceptor / MultiDataInterceptor / TrieNodeResolver whose throttler is the real NumGoRoutinesThrottler behind a parking wrapper; the plan releases one seam call at a time; running admitted tasks must never exceed the maximum. The check-then-act window is a recorded known finding; every other kind still fails the check. Sampling, not proof.",
      "Interleavings are decided at seam-call granularity (CanProcess, StartProcessing, EndProcessing, processor work); goroutine identity via runtime.Stack.")
