package simkit

import (
	"errors"
	"sort"
	"sync"

	"github.com/ElrondNetwork/elrond-go/storage"
)

// ErrInjected is returned by every injected disk fault.
var ErrInjected = errors.New("simdisk: injected I/O error")

// SimDisk is the simulator-owned persister (storage.Persister): a map plus counters. It copies what it
// stores and what it returns, as a real database does. Faults are armed by the driver for the duration
// of one step and fire at the n-th matching call; each fired fault is counted on the Ctx.
type SimDisk struct {
	mu     sync.Mutex
	Name   string
	data   map[string][]byte
	closed bool

	armKind  string
	armAt    int
	armCount int
	armOnce  bool
	ctx      *Ctx

	// Gate, when set, is called (without the disk lock) before every operation; parking lives there.
	Gate func(op string, key []byte)

	Gets, Puts, Removes, Hass int
	PutLog                      [][]byte // keys in write order (bounded)
}

var _ storage.Persister = (*SimDisk)(nil)

// NewSimDisk creates an empty disk.
func NewSimDisk(name string, c *Ctx) *SimDisk {
	return &SimDisk{Name: name, data: map[string][]byte{}, ctx: c}
}

// Arm makes the at-th (0-based) next call of kind ("get_error", "put_error", "remove_error", "has_error") fail.
func (d *SimDisk) Arm(kind string, at int) {
	d.mu.Lock()
	d.armKind, d.armAt, d.armCount, d.armOnce = kind, at, 0, false
	d.mu.Unlock()
}

// ArmFrom makes every call of kind fail from the at-th (0-based) one on, until Disarm.
func (d *SimDisk) ArmFrom(kind string, at int) {
	d.mu.Lock()
	d.armKind, d.armAt, d.armCount, d.armOnce = kind, at, 0, true
	d.mu.Unlock()
}

// ArmAll makes every call of kind fail until Disarm.
func (d *SimDisk) ArmAll(kind string) {
	d.mu.Lock()
	d.armKind, d.armAt, d.armCount, d.armOnce = kind, -1, 0, false
	d.mu.Unlock()
}

// Disarm removes any armed fault.
func (d *SimDisk) Disarm() {
	d.mu.Lock()
	d.armKind = ""
	d.mu.Unlock()
}

// fire must be called with the lock held.
func (d *SimDisk) fire(kind string) bool {
	if d.armKind != kind {
		return false
	}
	n := d.armCount
	d.armCount++
	if d.armOnce { // "from the n-th call on": a full disk stays full
		if n < d.armAt {
			return false
		}
	} else if d.armAt >= 0 && n != d.armAt {
		return false
	}
	if d.ctx != nil {
		d.ctx.Faults[kind]++
	}
	return true
}

func (d *SimDisk) gate(op string, key []byte) {
	if d.Gate != nil {
		d.Gate(op, key)
	}
}

// Put stores a copy of val.
func (d *SimDisk) Put(key, val []byte) error {
	d.gate("put", key)
	d.mu.Lock()
	defer d.mu.Unlock()
	d.Puts++
	if d.fire("put_error") {
		return ErrInjected
	}
	d.data[string(key)] = append([]byte(nil), val...)
	if len(d.PutLog) < 4096 {
		d.PutLog = append(d.PutLog, append([]byte(nil), key...))
	}
	return nil
}

// Get returns a copy of the stored value.
func (d *SimDisk) Get(key []byte) ([]byte, error) {
	d.gate("get", key)
	d.mu.Lock()
	defer d.mu.Unlock()
	d.Gets++
	if d.fire("get_error") {
		return nil, ErrInjected
	}
	v, ok := d.data[string(key)]
	if !ok {
		return nil, storage.ErrKeyNotFound
	}
	return append([]byte(nil), v...), nil
}

// Has returns nil when the key exists.
func (d *SimDisk) Has(key []byte) error {
	d.gate("has", key)
	d.mu.Lock()
	defer d.mu.Unlock()
	d.Hass++
	if d.fire("has_error") {
		return ErrInjected
	}
	if _, ok := d.data[string(key)]; !ok {
		return storage.ErrKeyNotFound
	}
	return nil
}

// Init does nothing.
func (d *SimDisk) Init() error { return nil }

// Close marks the disk closed (data stays: it is the durable state).
func (d *SimDisk) Close() error {
	d.mu.Lock()
	d.closed = true
	d.mu.Unlock()
	return nil
}

// Reopen clears the closed flag.
func (d *SimDisk) Reopen() {
	d.mu.Lock()
	d.closed = false
	d.mu.Unlock()
}

// Remove deletes the key.
func (d *SimDisk) Remove(key []byte) error {
	d.gate("remove", key)
	d.mu.Lock()
	defer d.mu.Unlock()
	d.Removes++
	if d.fire("remove_error") {
		return ErrInjected
	}
	delete(d.data, string(key))
	return nil
}

// Destroy wipes the disk.
func (d *SimDisk) Destroy() error {
	d.mu.Lock()
	d.data = map[string][]byte{}
	d.mu.Unlock()
	return nil
}

// DestroyClosed wipes the disk.
func (d *SimDisk) DestroyClosed() error { return d.Destroy() }

// RangeKeys iterates in sorted key order (deterministic).
func (d *SimDisk) RangeKeys(handler func(key []byte, val []byte) bool) {
	if handler == nil {
		return
	}
	for _, k := range d.Keys() {
		v, ok := d.RawGet([]byte(k))
		if !ok {
			continue
		}
		if !handler([]byte(k), v) {
			return
		}
	}
}

// IsInterfaceNil implements the repository's nil check.
func (d *SimDisk) IsInterfaceNil() bool { return d == nil }

// RawGet reads without faults, gates or counters (oracle access).
func (d *SimDisk) RawGet(key []byte) ([]byte, bool) {
	d.mu.Lock()
	defer d.mu.Unlock()
	v, ok := d.data[string(key)]
	if !ok {
		return nil, false
	}
	return append([]byte(nil), v...), true
}

// RawPut writes without faults, gates or counters.
func (d *SimDisk) RawPut(key, val []byte) {
	d.mu.Lock()
	d.data[string(key)] = append([]byte(nil), val...)
	d.mu.Unlock()
}

// RawRemove deletes without faults.
func (d *SimDisk) RawRemove(key []byte) {
	d.mu.Lock()
	delete(d.data, string(key))
	d.mu.Unlock()
}

// Keys returns all keys sorted.
func (d *SimDisk) Keys() []string {
	d.mu.Lock()
	ks := make([]string, 0, len(d.data))
	for k := range d.data {
		ks = append(ks, k)
	}
	d.mu.Unlock()
	sort.Strings(ks)
	return ks
}

// Len returns the number of keys.
func (d *SimDisk) Len() int {
	d.mu.Lock()
	defer d.mu.Unlock()
	return len(d.data)
}

// Closed reports whether Close was called after the last Reopen.
func (d *SimDisk) Closed() bool {
	d.mu.Lock()
	defer d.mu.Unlock()
	return d.closed
}
