package simkit

import (
	"bufio"
	"encoding/binary"
	"encoding/json"
	"fmt"
	"os"
	"os/exec"
	"path/filepath"
	"runtime"
	"runtime/debug"
	"sort"
	"strconv"
	"strings"
	"testing"
	"time"
)

// Exit codes of a check.
const (
	ExitOK        = 0
	ExitViolation = 1
	ExitHarness   = 2
)

func envStr(k, def string) string {
	if v := os.Getenv(k); v != "" {
		return v
	}
	return def
}

func envInt(k string, def int64) int64 {
	if v := os.Getenv(k); v != "" {
		if n, err := strconv.ParseInt(v, 10, 64); err == nil {
			return n
		}
	}
	return def
}

func envSeed() uint64 {
	if v := os.Getenv("VERIF_SEED"); v != "" {
		if n, err := strconv.ParseUint(v, 10, 64); err == nil {
			return n
		}
		if n, err := strconv.ParseInt(v, 10, 64); err == nil {
			return uint64(n)
		}
	}
	return 1
}

func verifRoot() string { return envStr("VERIF_ROOT", "/verif") }

// ReplayFile is the on-disk replay format.
type ReplayFile struct {
	Property      string     `json:"property"`
	World         string     `json:"world"`
	Seed          uint64     `json:"seed"`
	BatchSeed     uint64     `json:"batch_seed"`
	RunIndex      uint64     `json:"run_index"`
	Race          bool       `json:"race_binary,omitempty"`
	ViolationKind string     `json:"violation_kind"`
	Violation     *Violation `json:"violation"`
	Plan          *Plan      `json:"plan"`
	ShrunkFrom    int        `json:"shrunk_from_steps"`
	ShrinkExecs   int        `json:"shrink_executions"`
	Events        []string   `json:"events"`
}

type foundViolation struct {
	V      Violation `json:"v"`
	Replay string    `json:"replay"`
	Known  bool      `json:"known"`
	Seed   uint64    `json:"seed"`
}

type workerOut struct {
	Shard       int              `json:"shard"`
	Race        bool             `json:"race"`
	Runs        int              `json:"runs"`
	Nontrivial  int              `json:"nontrivial"`
	Steps       int64            `json:"steps"`
	SimNanos    int64            `json:"sim_nanos"`
	Faults      map[string]int   `json:"faults"`
	Probes      map[string]int   `json:"probes"`
	Arms        map[string]int   `json:"arms"`
	Found       []foundViolation `json:"found"`
	KnownCounts map[string]int   `json:"known_counts"`
	OtherProps  map[string]int   `json:"other_props"`
	Samples     []*Plan          `json:"samples"`
	Harness     []string         `json:"harness"`
	WallS       float64          `json:"wall_s"`
	HitCap      bool             `json:"hit_cap"`
	Trace       []string         `json:"trace,omitempty"`
}

// knownFinding is one "known:" line of known_findings.txt.
type knownFinding struct {
	Property, Kind, Site, Text string
}

func loadKnown() []knownFinding {
	f, err := os.Open(filepath.Join(verifRoot(), "known_findings.txt"))
	if err != nil {
		return nil
	}
	defer f.Close()
	var out []knownFinding
	sc := bufio.NewScanner(f)
	for sc.Scan() {
		line := strings.TrimSpace(sc.Text())
		if !strings.HasPrefix(line, "known:") {
			continue
		}
		kf := knownFinding{Text: strings.TrimSpace(strings.TrimPrefix(line, "known:"))}
		for _, tok := range strings.Fields(kf.Text) {
			switch {
			case strings.HasPrefix(tok, "property="):
				kf.Property = strings.TrimPrefix(tok, "property=")
			case strings.HasPrefix(tok, "kind="):
				kf.Kind = strings.TrimPrefix(tok, "kind=")
			case strings.HasPrefix(tok, "site="):
				kf.Site = strings.TrimPrefix(tok, "site=")
			}
		}
		if kf.Property != "" && kf.Kind != "" {
			out = append(out, kf)
		}
	}
	return out
}

func matchKnown(known []knownFinding, v *Violation) *knownFinding {
	for i := range known {
		k := &known[i]
		if k.Property == v.Property && k.Kind == v.Kind && (k.Site == "" || k.Site == v.Site) {
			return k
		}
	}
	return nil
}

// ExecutePlan runs one plan with panic capture. A panic with a repository frame is a violation of
// the property under check (kind "panic"); any other panic is a harness error.
func ExecutePlan(t *testing.T, w World, p *Plan) (c *Ctx, nontrivial bool) {
	c = NewCtx(t, p)
	func() {
		defer func() {
			if r := recover(); r != nil {
				ClassifyPanic(c, r, debug.Stack())
			}
		}()
		nontrivial = w.Execute(c)
	}()
	return c, nontrivial
}

// ClassifyPanic turns a recovered panic into a violation (repo frame on the stack) or a harness error.
func ClassifyPanic(c *Ctx, r interface{}, stack []byte) {
	site := ""
	lines := strings.Split(string(stack), "\n")
	for _, l := range lines {
		l = strings.TrimSpace(l)
		if strings.HasPrefix(l, "github.com/ElrondNetwork/elrond-go/") {
			f := strings.TrimPrefix(l, "github.com/ElrondNetwork/elrond-go/")
			if i := strings.LastIndex(f, "("); i > 0 {
				f = f[:i]
			}
			site = f
			break
		}
	}
	msg := fmt.Sprint(r)
	if site == "" || strings.Contains(msg, "deadlock: all goroutines in bubble") {
		c.HarnessErr("panic outside repository code: %v\n%s", r, stack)
		return
	}
	c.Violate(c.Plan.Property, "panic", site, "panic in repository code: %v", r)
}

func firstViolation(c *Ctx, prop string) *Violation {
	for i := range c.Violations {
		if c.Violations[i].Property == prop {
			return &c.Violations[i]
		}
	}
	return nil
}

// Main is called from each world's TestCheck. It never returns.
func Main(t *testing.T, w World) {
	prop := os.Getenv("VERIF_PROP")
	if prop == "" {
		t.Skip("VERIF_PROP not set; run through /verif/check")
		return
	}
	ok := false
	for _, p := range w.Properties() {
		if p == prop {
			ok = true
		}
	}
	if !ok {
		fmt.Printf("HARNESS world %s does not serve %s\n", w.Name(), prop)
		os.Exit(ExitHarness)
	}
	switch envStr("VERIF_MODE", "coord") {
	case "worker":
		os.Exit(workerMain(t, w, prop))
	case "replay":
		os.Exit(replayMain(t, w, prop, os.Getenv("VERIF_REPLAY"), true))
	case "replay-json":
		os.Exit(replayJSONMain(t, w, os.Getenv("VERIF_REPLAY")))
	case "selftest":
		os.Exit(selftestMain(t, w, prop))
	default:
		os.Exit(coordMain(w, prop))
	}
}

func tier() string {
	tr := envStr("VERIF_TIER", "quick")
	if tr != "thorough" {
		tr = "quick"
	}
	return tr
}

func wallCap() time.Duration {
	def := int64(30)
	if tier() == "thorough" {
		def = 600
	}
	return time.Duration(envInt("VERIF_WALL_S", def)) * time.Second
}

func outDir() string {
	d := filepath.Join(verifRoot(), "out")
	_ = os.MkdirAll(filepath.Join(d, "replay"), 0o755)
	_ = os.MkdirAll(filepath.Join(d, "tmp"), 0o755)
	return d
}

func writeJSON(path string, v interface{}) error {
	b, err := json.MarshalIndent(v, "", " ")
	if err != nil {
		return err
	}
	tmp := path + ".tmp"
	if err := os.WriteFile(tmp, b, 0o644); err != nil {
		return err
	}
	return os.Rename(tmp, path)
}

// raceLogGrew reports whether the race detector wrote a report since the last call (race binaries only).
type raceWatch struct {
	path string
	size int64
}

func newRaceWatch() *raceWatch {
	if !RaceEnabled {
		return nil
	}
	base := os.Getenv("VERIF_RACE_LOG")
	if base == "" {
		return nil
	}
	return &raceWatch{path: fmt.Sprintf("%s.%d", base, os.Getpid())}
}

// Grew returns the new report text, if any.
func (rw *raceWatch) Grew() string {
	if rw == nil {
		return ""
	}
	st, err := os.Stat(rw.path)
	if err != nil || st.Size() <= rw.size {
		return ""
	}
	f, err := os.Open(rw.path)
	if err != nil {
		return ""
	}
	defer f.Close()
	buf := make([]byte, st.Size()-rw.size)
	_, _ = f.ReadAt(buf, rw.size)
	rw.size = st.Size()
	return string(buf)
}

// raceSite extracts the first repository function named in a race report.
func raceSite(rep string) string {
	for _, l := range strings.Split(rep, "\n") {
		l = strings.TrimSpace(l)
		if strings.HasPrefix(l, "github.com/ElrondNetwork/elrond-go/") {
			f := strings.TrimPrefix(l, "github.com/ElrondNetwork/elrond-go/")
			if i := strings.LastIndex(f, "("); i > 0 {
				f = f[:i]
			}
			return f
		}
	}
	return ""
}

var theRaceWatch *raceWatch

// execWithRace executes a plan and converts new race reports into violations.
func execWithRace(t *testing.T, w World, p *Plan) (*Ctx, bool) {
	c, nt := ExecutePlan(t, w, p)
	if theRaceWatch != nil {
		if rep := theRaceWatch.Grew(); rep != "" {
			site := raceSite(rep)
			if site == "" {
				c.HarnessErr("data race without repository frame:\n%s", rep)
			} else {
				first := rep
				if len(first) > 1500 {
					first = first[:1500]
				}
				c.Violate(p.Property, "data-race", site, "race detector report:\n%s", first)
			}
		}
	}
	return c, nt
}

func workerMain(t *testing.T, w World, prop string) int {
	start := time.Now()
	shard := int(envInt("VERIF_SHARD", 0))
	nshards := int(envInt("VERIF_NSHARDS", 1))
	seed := envSeed()
	tr := tier()
	budget := w.Budget(prop, tr)
	if b := envInt("VERIF_RUNS", 0); b > 0 {
		budget = int(b)
	}
	deadline := start.Add(wallCap())
	known := loadKnown()
	theRaceWatch = newRaceWatch()
	trace := os.Getenv("VERIF_TRACE") != ""
	out := &workerOut{Shard: shard, Race: RaceEnabled, Faults: map[string]int{}, Probes: map[string]int{}, Arms: map[string]int{},
		KnownCounts: map[string]int{}, OtherProps: map[string]int{}}
	od := outDir()
	base := filepath.Join(od, "tmp", fmt.Sprintf("%s-%d-%s", prop, shard, map[bool]string{false: "n", true: "r"}[RaceEnabled]))
	sigF, _ := os.Create(base + ".sigs")
	fpF, _ := os.Create(base + ".fps")
	sigW, fpW := bufio.NewWriter(sigF), bufio.NewWriter(fpF)
	var b8 [8]byte
	unknownKinds := map[string]bool{}
	knownShrunk := map[string]bool{}
	maxUnknown := 3
	for i := shard; i < budget; i += nshards {
		if time.Now().After(deadline) {
			out.HitCap = true
			break
		}
		rs := Mix(seed, uint64(i))
		p := w.Generate(NewRand(rs), prop, tr, RaceEnabled)
		if p == nil {
			continue
		}
		p.Property, p.World, p.Seed = prop, w.Name(), rs
		c, nt := execWithRace(t, w, p)
		out.Runs++
		out.Steps += int64(c.StepsDone)
		out.SimNanos += c.SimNanos
		out.Arms[p.Arm]++
		for k, v := range c.Faults {
			out.Faults[k] += v
		}
		for k, v := range c.Probes {
			out.Probes[k] += v
		}
		if nt {
			out.Nontrivial++
			binary.LittleEndian.PutUint64(b8[:], p.FullSignature())
			sigW.Write(b8[:])
		}
		for fp := range c.FPs {
			binary.LittleEndian.PutUint64(b8[:], fp)
			fpW.Write(b8[:])
		}
		if len(out.Samples) < 2 && nt {
			out.Samples = append(out.Samples, p)
		}
		if trace {
			kinds := []string{}
			for _, v := range c.Violations {
				kinds = append(kinds, v.Property+"/"+v.Kind)
			}
			out.Trace = append(out.Trace, fmt.Sprintf("%d %d %016x %s", i, rs, c.EventHash(), strings.Join(kinds, ",")))
		}
		if c.Harness != "" {
			out.Harness = append(out.Harness, fmt.Sprintf("run %d seed %d: %s", i, rs, c.Harness))
			_ = writeJSON(filepath.Join(od, "replay", fmt.Sprintf("%s-harness-%d.json", prop, rs)),
				&ReplayFile{Property: prop, World: w.Name(), Seed: rs, BatchSeed: seed, RunIndex: uint64(i), Race: RaceEnabled, Plan: p, Events: c.Events})
			if len(out.Harness) >= 3 {
				break
			}
			continue
		}
		for _, v := range c.Violations {
			if v.Property != prop {
				out.OtherProps[v.Property+"/"+v.Kind]++
			}
		}
		v := firstViolation(c, prop)
		if v == nil {
			continue
		}
		// prefer a violation that is not a known finding, if the run recorded several
		for k := range c.Violations {
			if c.Violations[k].Property == prop && matchKnown(known, &c.Violations[k]) == nil {
				v = &c.Violations[k]
				break
			}
		}
		key := v.Kind + "@" + v.Site
		if kf := matchKnown(known, v); kf != nil {
			out.KnownCounts[kf.Text]++
			if knownShrunk[kf.Text] {
				continue
			}
			knownShrunk[kf.Text] = true
			path := filepath.Join(od, "replay", fmt.Sprintf("%s-known-%d-%d.json", prop, rs, shard))
			rf := shrinkAndPackage(t, w, p, v, seed, uint64(i), 150)
			_ = writeJSON(path, rf)
			out.Found = append(out.Found, foundViolation{V: *rf.Violation, Replay: path, Known: true, Seed: rs})
			continue
		}
		if unknownKinds[key] {
			continue
		}
		unknownKinds[key] = true
		path := filepath.Join(od, "replay", fmt.Sprintf("%s-%d-%d.json", prop, rs, shard))
		rf := shrinkAndPackage(t, w, p, v, seed, uint64(i), 600)
		_ = writeJSON(path, rf)
		out.Found = append(out.Found, foundViolation{V: *rf.Violation, Replay: path, Seed: rs})
		if len(unknownKinds) >= maxUnknown {
			break
		}
	}
	sigW.Flush()
	fpW.Flush()
	sigF.Close()
	fpF.Close()
	out.WallS = time.Since(start).Seconds()
	if err := writeJSON(base+".json", out); err != nil {
		fmt.Println("HARNESS cannot write worker output:", err)
		return ExitHarness
	}
	return ExitOK
}

func shrinkAndPackage(t *testing.T, w World, p *Plan, v *Violation, batchSeed, idx uint64, maxExecs int) *ReplayFile {
	orig := len(p.Steps)
	q, qv, execs, events := p, v, 0, []string(nil)
	if !RaceEnabled { // the race detector reports each race once per process: race plans are shrunk by the coordinator
		q, qv, execs = Shrink(t, w, p, v, maxExecs)
	}
	c, _ := ExecutePlan(t, w, q)
	events = c.Events
	if fv := firstViolation(c, v.Property); fv != nil && fv.Kind == qv.Kind {
		qv = fv
	}
	return &ReplayFile{Property: v.Property, World: w.Name(), Seed: p.Seed, BatchSeed: batchSeed, RunIndex: idx, Race: RaceEnabled,
		ViolationKind: qv.Kind, Violation: qv, Plan: q, ShrunkFrom: orig, ShrinkExecs: execs, Events: events}
}

func readSet(glob string) map[uint64]struct{} {
	set := map[uint64]struct{}{}
	files, _ := filepath.Glob(glob)
	for _, f := range files {
		b, err := os.ReadFile(f)
		if err != nil {
			continue
		}
		for i := 0; i+8 <= len(b); i += 8 {
			set[binary.LittleEndian.Uint64(b[i:])] = struct{}{}
		}
	}
	return set
}

func selfCmd(bin string, env ...string) *exec.Cmd {
	cmd := exec.Command(bin, "-test.run", "^TestCheck$", "-test.timeout", "0")
	cmd.Env = append(os.Environ(), env...)
	return cmd
}

func coordMain(w World, prop string) int {
	start := time.Now()
	seed := envSeed()
	tr := tier()
	fmt.Printf("VERIF_SEED=%d property=%s world=%s tier=%s\n", seed, prop, w.Name(), tr)
	od := outDir()
	old, _ := filepath.Glob(filepath.Join(od, "tmp", prop+"-*"))
	for _, f := range old {
		_ = os.Remove(f)
	}
	nw := int(envInt("VERIF_WORKERS", int64(runtime.NumCPU())))
	if nw < 1 {
		nw = 1
	}
	raceBin := os.Getenv("VERIF_RACE_BIN")
	needRace := false
	if rw, ok := w.(RaceWorld); ok && rw.NeedsRace(prop) {
		needRace = true
		if raceBin == "" {
			fmt.Println("HARNESS race arm needs VERIF_RACE_BIN")
			return ExitHarness
		}
	}
	type proc struct {
		cmd   *exec.Cmd
		race  bool
		shard int
		out   strings.Builder
	}
	var procs []*proc
	nNormal, nRace := nw, 0
	if needRace {
		nRace = nw / 2
		if nRace < 1 {
			nRace = 1
		}
		nNormal = nw - nRace
		if nNormal < 1 {
			nNormal = 1
		}
	}
	raceLog := filepath.Join(od, "tmp", prop+"-racelog")
	for i := 0; i < nNormal; i++ {
		pr := &proc{shard: i}
		pr.cmd = selfCmd(os.Args[0], "VERIF_MODE=worker", fmt.Sprintf("VERIF_SHARD=%d", i), fmt.Sprintf("VERIF_NSHARDS=%d", nNormal))
		procs = append(procs, pr)
	}
	for i := 0; i < nRace; i++ {
		pr := &proc{shard: i, race: true}
		pr.cmd = selfCmd(raceBin, "VERIF_MODE=worker", fmt.Sprintf("VERIF_SHARD=%d", i), fmt.Sprintf("VERIF_NSHARDS=%d", nRace),
			"VERIF_RACE_LOG="+raceLog, "GORACE=halt_on_error=0 log_path="+raceLog)
		procs = append(procs, pr)
	}
	for _, pr := range procs {
		pr.cmd.Stdout = &pr.out
		pr.cmd.Stderr = &pr.out
		if err := pr.cmd.Start(); err != nil {
			fmt.Println("HARNESS cannot start worker:", err)
			return ExitHarness
		}
	}
	harness := []string{}
	watchdog := time.AfterFunc(wallCap()*4+10*time.Minute, func() {
		for _, pr := range procs {
			_ = pr.cmd.Process.Kill()
		}
	})
	for _, pr := range procs {
		if err := pr.cmd.Wait(); err != nil {
			o := pr.out.String()
			if len(o) > 6000 {
				o = o[:3000] + "\n...\n" + o[len(o)-3000:]
			}
			harness = append(harness, fmt.Sprintf("worker shard=%d race=%v died: %v\n%s", pr.shard, pr.race, err, o))
		}
	}
	watchdog.Stop()
	agg := &workerOut{Faults: map[string]int{}, Probes: map[string]int{}, Arms: map[string]int{}, KnownCounts: map[string]int{}, OtherProps: map[string]int{}}
	hitCap := false
	outs, _ := filepath.Glob(filepath.Join(od, "tmp", prop+"-*.json"))
	sort.Strings(outs)
	for _, f := range outs {
		b, err := os.ReadFile(f)
		if err != nil {
			continue
		}
		wo := &workerOut{}
		if json.Unmarshal(b, wo) != nil {
			continue
		}
		agg.Runs += wo.Runs
		agg.Nontrivial += wo.Nontrivial
		agg.Steps += wo.Steps
		agg.SimNanos += wo.SimNanos
		for k, v := range wo.Faults {
			agg.Faults[k] += v
		}
		for k, v := range wo.Probes {
			agg.Probes[k] += v
		}
		for k, v := range wo.Arms {
			agg.Arms[k] += v
		}
		for k, v := range wo.KnownCounts {
			agg.KnownCounts[k] += v
		}
		for k, v := range wo.OtherProps {
			agg.OtherProps[k] += v
		}
		agg.Found = append(agg.Found, wo.Found...)
		if len(agg.Samples) < 3 {
			agg.Samples = append(agg.Samples, wo.Samples...)
		}
		agg.Harness = append(agg.Harness, wo.Harness...)
		hitCap = hitCap || wo.HitCap
		agg.Trace = append(agg.Trace, wo.Trace...)
	}
	harness = append(harness, agg.Harness...)
	sigs := readSet(filepath.Join(od, "tmp", prop+"-*.sigs"))
	fps := readSet(filepath.Join(od, "tmp", prop+"-*.fps"))
	if os.Getenv("VERIF_TRACE") != "" {
		sort.Strings(agg.Trace)
		_ = os.WriteFile(os.Getenv("VERIF_TRACE"), []byte(strings.Join(agg.Trace, "\n")+"\n"), 0o644)
	}

	// confirm every unknown violation in a fresh process; distinct kinds reported once
	exit := ExitOK
	reported := map[string]bool{}
	knownPrinted := map[string]bool{}
	nViol := 0
	sort.Slice(agg.Found, func(i, j int) bool { return agg.Found[i].Replay < agg.Found[j].Replay })
	known := loadKnown()
	for _, fv := range agg.Found {
		if fv.Known {
			continue
		}
		key := fv.V.Kind + "@" + fv.V.Site
		if reported[key] {
			continue
		}
		reported[key] = true
		bin := os.Args[0]
		env := []string{"VERIF_MODE=replay", "VERIF_REPLAY=" + fv.Replay}
		if fv.V.Kind == "data-race" && raceBin != "" {
			bin = raceBin
			shrinkRaceReplay(raceBin, fv.Replay, raceLog)
			env = append(env, "VERIF_RACE_LOG="+raceLog+"-confirm", "GORACE=halt_on_error=0 log_path="+raceLog+"-confirm")
		}
		cmd := selfCmd(bin, env...)
		o, err := cmd.CombinedOutput()
		code := 0
		if ee, ok := err.(*exec.ExitError); ok {
			code = ee.ExitCode()
		} else if err != nil {
			code = ExitHarness
		}
		if code != ExitViolation {
			harness = append(harness, fmt.Sprintf("replay of %s in a fresh process did not reproduce (exit %d):\n%s", fv.Replay, code, o))
			continue
		}
		nViol++
		exit = ExitViolation
		fmt.Printf("VIOLATION property=%s replay=%s\n", prop, fv.Replay)
		fmt.Printf("  kind=%s site=%s step=%d: %s\n", fv.V.Kind, fv.V.Site, fv.V.Step, firstLine(fv.V.Msg))
	}
	for _, k := range known {
		if k.Property != prop {
			continue
		}
		if n := agg.KnownCounts[k.Text]; n > 0 && !knownPrinted[k.Text] {
			knownPrinted[k.Text] = true
			rp := ""
			for _, fv := range agg.Found {
				if fv.Known && matchKnown([]knownFinding{k}, &fv.V) != nil {
					rp = fv.Replay
				}
			}
			fmt.Printf("KNOWN-FINDING: %s (seen in %d runs; replay=%s)\n", k.Text, n, rp)
		}
	}
	wall := time.Since(start).Seconds()
	ev := map[string]interface{}{
		"property_id": prop, "tier": tr, "seed": int64(seed & 0x7fffffffffffffff), "level": "exploration", "wall_s": wall, "violations": nViol,
		"assumptions": w.Assumptions(prop),
	}
	samples := []interface{}{}
	for _, s := range agg.Samples {
		samples = append(samples, s)
	}
	knownCounts := map[string]int{}
	for k, v := range agg.KnownCounts {
		knownCounts[k] = v
	}
	ev["coverage"] = map[string]interface{}{
		"evaluations": agg.Runs, "distinct_nontrivial": len(sigs), "rule": w.Rule(prop), "samples": samples,
		"nontrivial_runs": agg.Nontrivial, "steps_executed": agg.Steps,
		"runs_per_hour": float64(agg.Runs) / (wall / 3600.0), "simulated_seconds": float64(agg.SimNanos) / 1e9,
		"faults_fired": agg.Faults, "probes": agg.Probes, "arms": agg.Arms,
		"distinct_states": len(fps), "distinct_states_measure": "fingerprints recorded by the world after steps (see rule)",
		"real_components": w.Real(prop), "stub_components": w.Stub(prop),
		"known_finding_hits": knownCounts, "violations_of_other_properties_seen": agg.OtherProps,
		"stopped_by_wall_cap": hitCap, "workers": len(procs), "world": w.Name(),
	}
	if len(harness) == 0 || exit == ExitViolation {
		if agg.Runs > 0 && os.Getenv("VERIF_TRACE") == "" { // selftest trace batches never overwrite evidence
			evDir := envStr("VERIF_EVIDENCE_DIR", filepath.Join(verifRoot(), "evidence"))
			_ = os.MkdirAll(evDir, 0o755)
			if err := writeJSON(filepath.Join(evDir, prop+".json"), ev); err != nil {
				harness = append(harness, "cannot write evidence: "+err.Error())
			}
		}
	}
	fmt.Printf("runs=%d nontrivial=%d distinct=%d states=%d steps=%d sim_s=%.1f wall_s=%.1f faults=%v known=%d\n",
		agg.Runs, agg.Nontrivial, len(sigs), len(fps), agg.Steps, float64(agg.SimNanos)/1e9, wall, agg.Faults, len(knownPrinted))
	if exit == ExitViolation {
		return exit
	}
	if len(harness) > 0 {
		for _, h := range harness {
			fmt.Println("HARNESS", h)
		}
		return ExitHarness
	}
	if agg.Runs == 0 {
		fmt.Println("HARNESS no runs executed")
		return ExitHarness
	}
	fmt.Printf("OK property=%s\n", prop)
	return ExitOK
}

func firstLine(s string) string {
	if i := strings.IndexByte(s, '\n'); i >= 0 {
		return s[:i]
	}
	return s
}

// shrinkRaceReplay minimises a race-arm replay file by re-executing candidates in fresh race processes.
func shrinkRaceReplay(raceBin, path, raceLog string) {
	b, err := os.ReadFile(path)
	if err != nil {
		return
	}
	rf := &ReplayFile{}
	if json.Unmarshal(b, rf) != nil || rf.Plan == nil {
		return
	}
	tmp := path + ".cand"
	n := 0
	test := func(steps []Step) bool {
		n++
		cand := *rf
		pl := rf.Plan.Clone()
		pl.Steps = steps
		cand.Plan = pl
		if writeJSON(tmp, &cand) != nil {
			return false
		}
		lg := fmt.Sprintf("%s-shrink-%d", raceLog, n)
		cmd := selfCmd(raceBin, "VERIF_MODE=replay", "VERIF_REPLAY="+tmp, "VERIF_RACE_LOG="+lg, "GORACE=halt_on_error=0 log_path="+lg)
		err := cmd.Run()
		ee, ok := err.(*exec.ExitError)
		return ok && ee.ExitCode() == ExitViolation
	}
	steps := ddmin(rf.Plan.Steps, test, 120)
	_ = os.Remove(tmp)
	rf.ShrinkExecs = n
	rf.Plan.Steps = steps
	_ = writeJSON(path, rf)
}

func replayMain(t *testing.T, w World, prop, path string, print bool) int {
	b, err := os.ReadFile(path)
	if err != nil {
		fmt.Println("HARNESS cannot read replay file:", err)
		return ExitHarness
	}
	rf := &ReplayFile{}
	if err := json.Unmarshal(b, rf); err != nil || rf.Plan == nil {
		fmt.Println("HARNESS bad replay file:", err)
		return ExitHarness
	}
	theRaceWatch = newRaceWatch()
	attempts := 1
	if ra, ok := w.(interface{ ReplayAttempts(string) int }); ok {
		attempts = ra.ReplayAttempts(prop)
	}
	var c *Ctx
	for a := 0; a < attempts; a++ {
		c, _ = execWithRace(t, w, rf.Plan)
		if c.Harness != "" {
			fmt.Println("HARNESS", c.Harness)
			return ExitHarness
		}
		for i := range c.Violations {
			v := &c.Violations[i]
			if v.Property == prop && v.Kind == rf.ViolationKind {
				if print {
					fmt.Printf("VIOLATION property=%s replay=%s\n  kind=%s site=%s step=%d: %s\n", prop, path, v.Kind, v.Site, v.Step, v.Msg)
					if kf := matchKnown(loadKnown(), v); kf != nil {
						fmt.Printf("  (matches KNOWN-FINDING: %s)\n", kf.Text)
					}
				}
				return ExitViolation
			}
		}
	}
	if print {
		fmt.Printf("replay of %s: violation kind %q did not occur; violations seen: %v\n", path, rf.ViolationKind, c.Violations)
	}
	if rf.ViolationKind == "" {
		return ExitOK
	}
	return ExitHarness
}

// replayJSONMain executes a bare plan file and prints the result as JSON (tooling).
func replayJSONMain(t *testing.T, w World, path string) int {
	b, err := os.ReadFile(path)
	if err != nil {
		return ExitHarness
	}
	p := &Plan{}
	if json.Unmarshal(b, p) != nil {
		return ExitHarness
	}
	c, nt := ExecutePlan(t, w, p)
	o, _ := json.MarshalIndent(map[string]interface{}{"violations": c.Violations, "events": c.Events, "nontrivial": nt, "harness": c.Harness,
		"faults": c.Faults, "probes": c.Probes}, "", " ")
	fmt.Println(string(o))
	return ExitOK
}

// selftestMain checks determinism in-process: every plan is generated and executed twice; plans, event
// hashes and verdicts must agree. The cross-process / GOMAXPROCS part is done by `check selftest`.
func selftestMain(t *testing.T, w World, prop string) int {
	seed := envSeed()
	n := int(envInt("VERIF_RUNS", 40))
	bad := 0
	for i := 0; i < n; i++ {
		rs := Mix(seed, uint64(i))
		p1 := w.Generate(NewRand(rs), prop, tier(), RaceEnabled)
		p2 := w.Generate(NewRand(rs), prop, tier(), RaceEnabled)
		p1.Property, p1.World, p1.Seed = prop, w.Name(), rs
		p2.Property, p2.World, p2.Seed = prop, w.Name(), rs
		j1, _ := json.Marshal(p1)
		j2, _ := json.Marshal(p2)
		if string(j1) != string(j2) {
			fmt.Printf("SELFTEST generation differs for seed %d\n", rs)
			bad++
			continue
		}
		c1, _ := ExecutePlan(t, w, p1)
		c2, _ := ExecutePlan(t, w, p2)
		if c1.EventHash() != c2.EventHash() || len(c1.Violations) != len(c2.Violations) {
			fmt.Printf("SELFTEST execution differs for seed %d: %016x vs %016x\n", rs, c1.EventHash(), c2.EventHash())
			for k := 0; k < len(c1.Events) && k < len(c2.Events); k++ {
				if c1.Events[k] != c2.Events[k] {
					fmt.Printf("  first difference at event %d:\n   %s\n   %s\n", k, c1.Events[k], c2.Events[k])
					break
				}
			}
			bad++
		}
		fmt.Printf("%d %016x %d\n", rs, c1.EventHash(), len(c1.Violations))
	}
	if bad > 0 {
		return ExitHarness
	}
	return ExitOK
}
