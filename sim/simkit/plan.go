package simkit

import (
	"encoding/hex"
	"encoding/json"
	"fmt"
	"hash/fnv"
	"sort"
	"testing"
)

// HexBytes is a byte string that prints as hex in replay files.
type HexBytes []byte

// MarshalJSON implements json.Marshaler.
func (h HexBytes) MarshalJSON() ([]byte, error) { return json.Marshal(hex.EncodeToString(h)) }

// UnmarshalJSON implements json.Unmarshaler.
func (h *HexBytes) UnmarshalJSON(b []byte) error {
	var s string
	if err := json.Unmarshal(b, &s); err != nil {
		return err
	}
	d, err := hex.DecodeString(s)
	if err != nil {
		return err
	}
	*h = d
	return nil
}

// Step is one operation, fault or scheduling decision of a plan. Worlds give the fields meaning.
type Step struct {
	Op    string     `json:"op"`
	I     []int64    `json:"i,omitempty"`
	B     []HexBytes `json:"b,omitempty"`
	S     []string   `json:"s,omitempty"`
	T     int        `json:"t,omitempty"`     // logical thread / node / peer
	Fault string     `json:"fault,omitempty"` // fault armed for the duration of this step
	FaultAt int      `json:"fault_at,omitempty"` // the fault fires at the n-th (0-based) matching seam call inside the step
}

// Int returns I[i] or def.
func (s *Step) Int(i int, def int64) int64 {
	if i < len(s.I) {
		return s.I[i]
	}
	return def
}

// Bytes returns B[i] or nil.
func (s *Step) Bytes(i int) []byte {
	if i < len(s.B) {
		return s.B[i]
	}
	return nil
}

// Str returns S[i] or "".
func (s *Step) Str(i int) string {
	if i < len(s.S) {
		return s.S[i]
	}
	return ""
}

// Plan is everything one run does: a pure function Execute(plan) -> result.
type Plan struct {
	Property string           `json:"property"`
	World    string           `json:"world"`
	Seed     uint64           `json:"seed"`
	Arm      string           `json:"arm"`
	Knobs    map[string]int64 `json:"knobs,omitempty"`
	Faults   []string         `json:"faults_enabled,omitempty"`
	Steps    []Step           `json:"steps"`
}

// Knob returns a knob or def.
func (p *Plan) Knob(name string, def int64) int64 {
	if v, ok := p.Knobs[name]; ok {
		return v
	}
	return def
}

// Clone deep-copies the plan through JSON.
func (p *Plan) Clone() *Plan {
	b, _ := json.Marshal(p)
	q := &Plan{}
	_ = json.Unmarshal(b, q)
	return q
}

// Signature hashes op kinds, fault positions, threads and knobs: "distinct schedule".
func (p *Plan) Signature() uint64 {
	h := fnv.New64a()
	fmt.Fprintf(h, "%s|%s|", p.World, p.Arm)
	keys := make([]string, 0, len(p.Knobs))
	for k := range p.Knobs {
		keys = append(keys, k)
	}
	sort.Strings(keys)
	for _, k := range keys {
		fmt.Fprintf(h, "%s=%d,", k, p.Knobs[k])
	}
	for _, s := range p.Steps {
		fmt.Fprintf(h, "%s/%d/%s/%d;", s.Op, s.T, s.Fault, s.FaultAt)
	}
	return h.Sum64()
}

// FullSignature additionally hashes all arguments: "distinct case".
func (p *Plan) FullSignature() uint64 {
	b, _ := json.Marshal(p.Steps)
	h := fnv.New64a()
	fmt.Fprintf(h, "%d|", p.Signature())
	h.Write(b)
	return h.Sum64()
}

// Violation is one failed oracle clause.
type Violation struct {
	Property string `json:"property"`
	Kind     string `json:"kind"` // violation class, stable under shrinking, e.g. "readable-after-remove"
	Site     string `json:"site,omitempty"`
	Step     int    `json:"step"`
	Msg      string `json:"msg"`
}

// Ctx collects what a run observes. Logging through it never draws randomness and never reads a clock.
type Ctx struct {
	T          *testing.T
	Plan       *Plan
	Violations []Violation
	Events     []string
	evHash     uint64
	nEvents    int
	Faults     map[string]int
	Probes     map[string]int
	FPs        map[uint64]struct{}
	SimNanos   int64
	StepsDone  int
	Harness    string
	CurStep    int
}

// NewCtx creates a context for one execution.
func NewCtx(t *testing.T, p *Plan) *Ctx {
	return &Ctx{T: t, Plan: p, Faults: map[string]int{}, Probes: map[string]int{}, FPs: map[uint64]struct{}{}, evHash: 1469598103934665603}
}

const maxEventsKept = 400

// Eventf appends to the event log (hash of all lines, first lines kept).
func (c *Ctx) Eventf(format string, a ...interface{}) {
	s := fmt.Sprintf(format, a...)
	for i := 0; i < len(s); i++ {
		c.evHash ^= uint64(s[i])
		c.evHash *= 1099511628211
	}
	c.evHash ^= '\n'
	c.evHash *= 1099511628211
	c.nEvents++
	if len(c.Events) < maxEventsKept {
		c.Events = append(c.Events, s)
	}
}

// EventHash is the hash over the whole event log.
func (c *Ctx) EventHash() uint64 { return c.evHash }

// Fault counts a fault that actually fired.
func (c *Ctx) Fault(kind string) { c.Faults[kind]++ }

// Probe counts a "this condition was reached" probe.
func (c *Ctx) Probe(name string) { c.Probes[name]++ }

// FP records a state fingerprint.
func (c *Ctx) FP(parts ...interface{}) {
	h := fnv.New64a()
	fmt.Fprint(h, parts...)
	c.FPs[h.Sum64()] = struct{}{}
}

// FPBytes records a state fingerprint from bytes.
func (c *Ctx) FPBytes(b []byte) {
	h := fnv.New64a()
	h.Write(b)
	c.FPs[h.Sum64()] = struct{}{}
}

// Violate records a violation of prop.
func (c *Ctx) Violate(prop, kind, site string, format string, a ...interface{}) {
	v := Violation{Property: prop, Kind: kind, Site: site, Step: c.CurStep, Msg: fmt.Sprintf(format, a...)}
	c.Eventf("VIOLATION %s/%s site=%s step=%d: %s", prop, kind, site, v.Step, v.Msg)
	c.Violations = append(c.Violations, v)
}

// Failed reports whether any violation for prop ("" = any) was recorded.
func (c *Ctx) Failed(prop string) bool {
	for _, v := range c.Violations {
		if prop == "" || v.Property == prop {
			return true
		}
	}
	return false
}

// HarnessErr records a problem of the harness itself (exit 2, never a violation).
func (c *Ctx) HarnessErr(format string, a ...interface{}) {
	if c.Harness == "" {
		c.Harness = fmt.Sprintf(format, a...)
	}
	c.Eventf("HARNESS: "+format, a...)
}

// World is one simulated world. Generate must draw everything from r; Execute must not draw at all.
type World interface {
	Name() string
	Properties() []string
	// Real and Stub list, for prop, the repository components that run real code and the simulator stubs.
	Real(prop string) []string
	Stub(prop string) []string
	// Assumptions lists what the check for prop assumes or trusts.
	Assumptions(prop string) []string
	// Rule describes generation and the non-trivial rule for prop.
	Rule(prop string) string
	// Generate builds run number idx for prop. race says whether this binary was built with -race
	// (worlds with a race arm generate only that arm then).
	Generate(r *Rand, prop string, tier string, race bool) *Plan
	// Execute runs the plan against fresh real components and checks the oracles of every property
	// the world serves. nontrivial reports whether the run exercised the property in a meaningful way.
	Execute(c *Ctx) (nontrivial bool)
	// Budget returns the number of runs for a tier (before the wall-clock cap).
	Budget(prop string, tier string) int
}

// RaceWorld is implemented by worlds that have an arm needing a -race binary for prop.
type RaceWorld interface {
	NeedsRace(prop string) bool
}

// Simplifier is implemented by worlds that can propose simpler variants of a plan (arguments, knobs).
type Simplifier interface {
	Simplify(p *Plan) []*Plan
}
