//go:build race

package simkit

// RaceEnabled says whether this binary was built with -race.
const RaceEnabled = true
