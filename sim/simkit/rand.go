// Package simkit is the simulator kernel: one PRNG, plans, execution, shrinking, replay, evidence.
package simkit

// Rand is xoshiro256** seeded through splitmix64. It is our own implementation so that the
// stream for one seed is identical on every Go release. Everything a run decides is drawn from it.
type Rand struct{ s [4]uint64 }

func splitmix(x *uint64) uint64 {
	*x += 0x9e3779b97f4a7c15
	z := *x
	z = (z ^ (z >> 30)) * 0xbf58476d1ce4e5b9
	z = (z ^ (z >> 27)) * 0x94d049bb133111eb
	return z ^ (z >> 31)
}

// NewRand creates a generator from one integer.
func NewRand(seed uint64) *Rand {
	r := &Rand{}
	x := seed
	for i := range r.s {
		r.s[i] = splitmix(&x)
	}
	return r
}

// Mix derives the seed of run i of a batch from the batch seed.
func Mix(seed, i uint64) uint64 {
	x := seed ^ (i+1)*0xd6e8feb86659fd93
	a := splitmix(&x)
	return a ^ splitmix(&x)
}

func rotl(x uint64, k uint) uint64 { return (x << k) | (x >> (64 - k)) }

// Uint64 returns the next 64 bits.
func (r *Rand) Uint64() uint64 {
	s := &r.s
	res := rotl(s[1]*5, 7) * 9
	t := s[1] << 17
	s[2] ^= s[0]
	s[3] ^= s[1]
	s[1] ^= s[2]
	s[0] ^= s[3]
	s[2] ^= t
	s[3] = rotl(s[3], 45)
	return res
}

// Intn returns a value in [0,n). n<=0 yields 0.
func (r *Rand) Intn(n int) int {
	if n <= 1 {
		return 0
	}
	return int(r.Uint64() % uint64(n))
}

// Range returns a value in [lo,hi] inclusive.
func (r *Rand) Range(lo, hi int) int {
	if hi <= lo {
		return lo
	}
	return lo + r.Intn(hi-lo+1)
}

// Int63n is Intn for int64.
func (r *Rand) Int63n(n int64) int64 {
	if n <= 1 {
		return 0
	}
	return int64(r.Uint64() % uint64(n))
}

// Float64 returns a value in [0,1).
func (r *Rand) Float64() float64 { return float64(r.Uint64()>>11) / (1 << 53) }

// Chance is true with probability p.
func (r *Rand) Chance(p float64) bool { return r.Float64() < p }

// Bytes returns n pseudo-random bytes.
func (r *Rand) Bytes(n int) []byte {
	b := make([]byte, n)
	for i := 0; i < n; i += 8 {
		v := r.Uint64()
		for j := 0; j < 8 && i+j < n; j++ {
			b[i+j] = byte(v >> (8 * uint(j)))
		}
	}
	return b
}

// Perm returns a permutation of [0,n).
func (r *Rand) Perm(n int) []int {
	p := make([]int, n)
	for i := range p {
		p[i] = i
	}
	for i := n - 1; i > 0; i-- {
		j := r.Intn(i + 1)
		p[i], p[j] = p[j], p[i]
	}
	return p
}

// Weighted picks an index with probability proportional to w[i].
func (r *Rand) Weighted(w []int) int {
	tot := 0
	for _, x := range w {
		tot += x
	}
	if tot <= 0 {
		return 0
	}
	v := r.Intn(tot)
	for i, x := range w {
		if v < x {
			return i
		}
		v -= x
	}
	return len(w) - 1
}

// Fork derives an independent generator (used so that adding draws in one part of a generator
// does not shift every other part).
func (r *Rand) Fork() *Rand { return NewRand(r.Uint64()) }
