package simkit

import (
	"bytes"
	"fmt"
	"runtime"
	"runtime/debug"
	"sort"
	"strconv"
	"sync"
	"testing"
	"testing/synctest"
)

// GoID returns the current goroutine id (harness-only; read from the stack header).
func GoID() uint64 {
	var buf [64]byte
	n := runtime.Stack(buf[:], false)
	b := bytes.TrimPrefix(buf[:n], []byte("goroutine "))
	if i := bytes.IndexByte(b, ' '); i > 0 {
		id, _ := strconv.ParseUint(string(b[:i]), 10, 64)
		return id
	}
	return 0
}

// ---------------------------------------------------------------------------------------------
// Serialised logical threads with a hand-off the race detector cannot see.
//
// Exactly one logical thread runs at a time, in the order the plan dictates, so the execution is
// deterministic; but the hand-off is a plain variable polled in //go:norace functions, which creates no
// happens-before edge. The race detector therefore still reports every pair of conflicting accesses that
// the code under test does not order by its own synchronisation.
// ---------------------------------------------------------------------------------------------

type turnCell struct{ cur int }

//go:norace
func (t *turnCell) wait(idx int) {
	for t.cur != idx {
		runtime.Gosched()
	}
}

//go:norace
func (t *turnCell) set(idx int) { t.cur = idx }

// RunSerialThreads runs ops[i] on logical thread threadOf[i], strictly in index order, each thread being
// one real goroutine. A panic in an op is re-raised in the caller after all threads stopped.
func RunSerialThreads(threadOf []int, ops []func()) {
	nThreads := 0
	for _, t := range threadOf {
		if t+1 > nThreads {
			nThreads = t + 1
		}
	}
	tc := &turnCell{}
	total := len(ops)
	var panicked interface{}
	var pstack []byte
	done := make([]bool, nThreads)
	for th := 0; th < nThreads; th++ {
		go func(th int) {
			for i := 0; i < total; i++ {
				if threadOf[i] != th {
					continue
				}
				tc.wait(i)
				func() {
					defer func() {
						if r := recover(); r != nil && panicked == nil {
							panicked, pstack = r, debug.Stack()
						}
					}()
					ops[i]()
				}()
				tc.set(i + 1)
			}
			markDone(done, th)
		}(th)
	}
	tc.wait(total)
	waitAllDone(done)
	if panicked != nil {
		panic(fmt.Sprintf("%v\n%s", panicked, pstack))
	}
}

//go:norace
func markDone(d []bool, i int) { d[i] = true }

//go:norace
func waitAllDone(d []bool) {
	for {
		all := true
		for _, x := range d {
			if !x {
				all = false
			}
		}
		if all {
			return
		}
		runtime.Gosched()
	}
}

// ---------------------------------------------------------------------------------------------
// Parking of real goroutines at seams (inside a synctest bubble).
// ---------------------------------------------------------------------------------------------

// Parked describes one goroutine waiting at a seam.
type Parked struct {
	Seq   int
	GID   uint64
	Label string
	Entry string // entry function of the goroutine (stable identity across executions)
	ch    chan struct{}
}

// goEntry returns the entry function of the calling goroutine, read from its stack dump.
func goEntry() string {
	buf := make([]byte, 16384)
	n := runtime.Stack(buf, false)
	lines := bytes.Split(buf[:n], []byte("\n"))
	for i, l := range lines {
		if bytes.HasPrefix(l, []byte("created by ")) && i >= 2 {
			f := string(lines[i-2])
			if k := bytes.LastIndexByte([]byte(f), '('); k > 0 {
				f = f[:k]
			}
			return f
		}
	}
	return "?"
}

// ParentGoID returns the id of the goroutine that created the calling goroutine (0 if unknown), read from the
// "created by f in goroutine N" line of its stack dump. Worlds use it to attribute a helper goroutine spawned by
// the code under test to the logical thread that spawned it.
func ParentGoID() uint64 {
	buf := make([]byte, 16384)
	n := runtime.Stack(buf, false)
	for _, l := range bytes.Split(buf[:n], []byte("\n")) {
		if !bytes.HasPrefix(l, []byte("created by ")) {
			continue
		}
		k := bytes.LastIndex(l, []byte(" in goroutine "))
		if k < 0 {
			return 0
		}
		var id uint64
		for _, ch := range l[k+len(" in goroutine "):] {
			if ch < '0' || ch > '9' {
				break
			}
			id = id*10 + uint64(ch-'0')
		}
		return id
	}
	return 0
}

// Parker parks every goroutine that is not the driver at each Gate call; the driver releases one at a
// time and uses synctest.Wait as the quiescence barrier.
type Parker struct {
	mu      sync.Mutex
	driver  uint64
	parked  []*Parked
	seq     int
	Enabled bool
	Total   int
}

// NewParker creates a parker whose driver is the calling goroutine.
func NewParker() *Parker { return &Parker{driver: GoID(), Enabled: true} }

// Gate is called from seams. The driver passes; everyone else blocks until released.
func (p *Parker) Gate(label string) {
	if p == nil {
		return
	}
	p.mu.Lock()
	if !p.Enabled || GoID() == p.driver {
		p.mu.Unlock()
		return
	}
	p.seq++
	p.Total++
	pk := &Parked{Seq: p.seq, GID: GoID(), Label: label, Entry: goEntry(), ch: make(chan struct{})}
	p.parked = append(p.parked, pk)
	p.mu.Unlock()
	<-pk.ch
}

// sortLocked orders the parked goroutines by (entry function, label, arrival). Arrival order at the gate is
// decided by the Go scheduler when several goroutines run between two quiescence points, and goroutine ids are
// handed out in per-P batches, so neither replays; the entry function does. Worlds must make sure that at most
// one goroutine per entry function can be parked at a time (or that same-entry goroutines are interchangeable).
func (p *Parker) sortLocked() {
	sort.SliceStable(p.parked, func(i, j int) bool {
		a, b := p.parked[i], p.parked[j]
		if a.Entry != b.Entry {
			return a.Entry < b.Entry
		}
		if a.Label != b.Label {
			return a.Label < b.Label
		}
		return a.Seq < b.Seq
	})
}

// Waiting returns the parked goroutines in a replayable order (call after synctest.Wait()).
func (p *Parker) Waiting() []*Parked {
	p.mu.Lock()
	defer p.mu.Unlock()
	p.sortLocked()
	return append([]*Parked(nil), p.parked...)
}

// Release lets the i-th parked goroutine (order of Waiting) proceed to its next seam call.
func (p *Parker) Release(i int) bool {
	p.mu.Lock()
	p.sortLocked()
	if i < 0 || i >= len(p.parked) {
		p.mu.Unlock()
		return false
	}
	pk := p.parked[i]
	p.parked = append(p.parked[:i], p.parked[i+1:]...)
	p.mu.Unlock()
	close(pk.ch)
	return true
}

// ReleaseAll disables parking and frees everyone (used to drain at the end of a run).
func (p *Parker) ReleaseAll() {
	p.mu.Lock()
	p.Enabled = false
	ps := p.parked
	p.parked = nil
	p.mu.Unlock()
	for _, pk := range ps {
		close(pk.ch)
	}
}

// SetEnabled switches parking on or off.
func (p *Parker) SetEnabled(on bool) {
	p.mu.Lock()
	p.Enabled = on
	p.mu.Unlock()
}

// Bubble runs f inside a synctest bubble. A panic inside the bubble's root goroutine is classified on c
// (repository frame => violation, otherwise harness error); the end-of-bubble deadlock panic is a
// harness error.
func Bubble(c *Ctx, f func()) {
	defer func() {
		if r := recover(); r != nil {
			c.HarnessErr("bubble ended abnormally: %v", r)
		}
	}()
	synctest.Test(c.T, func(t *testing.T) {
		defer func() {
			if r := recover(); r != nil {
				ClassifyPanic(c, r, debug.Stack())
			}
		}()
		f()
	})
}
