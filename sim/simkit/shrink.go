package simkit

import "testing"

// ddmin minimises a step list while test(steps) stays true; at most maxExecs executions.
func ddmin(steps []Step, test func([]Step) bool, maxExecs int) []Step {
	execs := 0
	try := func(s []Step) bool {
		if execs >= maxExecs {
			return false
		}
		execs++
		return test(s)
	}
	cur := steps
	n := 2
	for len(cur) >= 2 && execs < maxExecs {
		chunk := (len(cur) + n - 1) / n
		reduced := false
		for start := 0; start < len(cur); start += chunk {
			end := start + chunk
			if end > len(cur) {
				end = len(cur)
			}
			cand := make([]Step, 0, len(cur)-(end-start))
			cand = append(cand, cur[:start]...)
			cand = append(cand, cur[end:]...)
			if len(cand) == 0 {
				continue
			}
			if try(cand) {
				cur = cand
				if n > 2 {
					n--
				}
				reduced = true
				break
			}
		}
		if !reduced {
			if chunk <= 1 {
				break
			}
			n *= 2
			if n > len(cur) {
				n = len(cur)
			}
		}
	}
	// final pass: drop single steps, then drop armed faults
	for i := len(cur) - 1; i >= 0 && execs < maxExecs && len(cur) > 1; i-- {
		cand := make([]Step, 0, len(cur)-1)
		cand = append(cand, cur[:i]...)
		cand = append(cand, cur[i+1:]...)
		if try(cand) {
			cur = cand
		}
	}
	for i := range cur {
		if cur[i].Fault == "" || execs >= maxExecs {
			continue
		}
		cand := append([]Step(nil), cur...)
		cand[i].Fault, cand[i].FaultAt = "", 0
		if try(cand) {
			cur = cand
		}
	}
	return cur
}

// Shrink minimises a failing plan while the same violation kind of the same property persists.
func Shrink(t *testing.T, w World, p *Plan, v *Violation, maxExecs int) (*Plan, *Violation, int) {
	best := p.Clone()
	bestV := *v
	execs := 0
	same := func(q *Plan) *Violation {
		execs++
		c, _ := ExecutePlan(t, w, q)
		if c.Harness != "" {
			return nil
		}
		for i := range c.Violations {
			if c.Violations[i].Property == v.Property && c.Violations[i].Kind == v.Kind {
				return &c.Violations[i]
			}
		}
		return nil
	}
	test := func(steps []Step) bool {
		q := best.Clone()
		q.Steps = steps
		if fv := same(q); fv != nil {
			bestV = *fv
			return true
		}
		return false
	}
	best.Steps = ddmin(best.Steps, test, maxExecs)
	if s, ok := w.(Simplifier); ok {
		for round := 0; round < 4 && execs < maxExecs+200; round++ {
			improved := false
			for _, cand := range s.Simplify(best) {
				if execs >= maxExecs+200 {
					break
				}
				if fv := same(cand); fv != nil {
					best, bestV, improved = cand.Clone(), *fv, true
					break
				}
			}
			if !improved {
				break
			}
		}
	}
	return best, &bestV, execs
}
