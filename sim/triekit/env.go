package triekit

import (
	"github.com/ElrondNetwork/elrond-go/config"
	"github.com/ElrondNetwork/elrond-go/data"
	"github.com/ElrondNetwork/elrond-go/data/trie"
	"github.com/ElrondNetwork/elrond-go/data/trie/hashesHolder"
	"github.com/ElrondNetwork/elrond-go/hashing"
	"github.com/ElrondNetwork/elrond-go/marshal"
	"github.com/ElrondNetwork/elrond-go/storage"
	"github.com/ElrondNetwork/elrond-go/storage/lrucache"
	"github.com/ElrondNetwork/elrond-go/storage/storageUnit"

	"verifsim/simkit"
)

// Marshalizer and Hasher are the ones the node uses for state tries.
var (
	Marshalizer marshal.Marshalizer = &marshal.GogoProtoMarshalizer{}
	Hasher      hashing.Hasher      = hasher
)

// Env is a real trie storage stack over one SimDisk: SimDisk -> real storageUnit (real LRU cache) -> real
// trieStorageManager. Snapshot DBs are in-memory DBs of the repository (type MemoryDB).
type Env struct {
	Disk    *simkit.SimDisk
	Store   *storageUnit.Unit
	TSM     data.StorageManager
	CacheSz int
	Cfg     config.TrieStorageManagerConfig
	HolderSz uint64
	// Gate, when set before the environment is built (see NewEnvGated), is called before every main-DB operation
	Gate func(op string, key []byte)
	// SnapshotDelay is the BatchDelaySeconds of the snapshot DB config
	SnapshotDelay int
}

// NewEnv builds the stack (also used to rebuild it after a Restart over the same disk).
func NewEnv(disk *simkit.SimDisk, cacheCap int, cfg config.TrieStorageManagerConfig, holderSize uint64) (*Env, error) {
	return NewEnvGated(disk, cacheCap, cfg, holderSize, nil, 0)
}

// NewEnvGated is NewEnv with a gate in front of the main DB and a snapshot batch delay (simulated seconds).
func NewEnvGated(disk *simkit.SimDisk, cacheCap int, cfg config.TrieStorageManagerConfig, holderSize uint64, gate func(op string, key []byte), snapshotDelay int) (*Env, error) {
	if cacheCap < 1 {
		cacheCap = 1
	}
	var cache storage.Cacher
	cache, err := lrucache.NewCache(cacheCap)
	if err != nil {
		return nil, err
	}
	disk.Reopen()
	su, err := storageUnit.NewStorageUnit(cache, disk)
	if err != nil {
		return nil, err
	}
	var mainDB data.DBWriteCacher = su
	if gate != nil {
		mainDB = &GatedDB{Inner: su, Gate: gate}
	}
	if cfg.SnapshotsBufferLen == 0 {
		cfg.SnapshotsBufferLen = 10
	}
	if cfg.MaxSnapshots == 0 {
		cfg.MaxSnapshots = 2
	}
	if holderSize == 0 {
		holderSize = 10000000
	}
	tsm, err := trie.NewTrieStorageManager(trie.NewTrieStorageManagerArgs{
		DB:                     mainDB,
		Marshalizer:            Marshalizer,
		Hasher:                 Hasher,
		SnapshotDbConfig:       config.DBConfig{FilePath: "/nonexistent/verif-sim", Type: "MemoryDB", BatchDelaySeconds: snapshotDelay},
		GeneralConfig:          cfg,
		CheckpointHashesHolder: hashesHolder.NewCheckpointHashesHolder(holderSize, 32),
	})
	if err != nil {
		return nil, err
	}
	return &Env{Disk: disk, Store: su, TSM: tsm, CacheSz: cacheCap, Cfg: cfg, HolderSz: holderSize, Gate: gate, SnapshotDelay: snapshotDelay}, nil
}

// Close stops the storage manager's goroutine; the disk keeps its data.
func (e *Env) Close() { _ = e.TSM.Close() }

// NewTrie creates an empty trie on the environment.
func (e *Env) NewTrie(maxLevel uint) (data.Trie, error) {
	return trie.NewTrie(e.TSM, Marshalizer, Hasher, maxLevel)
}

// GatedDB wraps the storage unit handed to the trie storage manager. Gate is called, with no lock held, before
// every operation: the simulator parks background goroutines (snapshot / checkpoint workers) there.
type GatedDB struct {
	Inner data.DBWriteCacher
	Gate  func(op string, key []byte)
}

func (g *GatedDB) gate(op string, key []byte) {
	if g.Gate != nil {
		g.Gate(op, key)
	}
}

// Put implements data.DBWriteCacher.
func (g *GatedDB) Put(key, val []byte) error { g.gate("put", key); return g.Inner.Put(key, val) }

// Get implements data.DBWriteCacher.
func (g *GatedDB) Get(key []byte) ([]byte, error) {
	g.gate("get", key)
	if FailGet != nil {
		if err := FailGet(key); err != nil {
			return nil, err
		}
	}
	return g.Inner.Get(key)
}

// Remove implements data.DBWriteCacher.
func (g *GatedDB) Remove(key []byte) error { g.gate("remove", key); return g.Inner.Remove(key) }

// Close implements data.DBWriteCacher.
func (g *GatedDB) Close() error { return g.Inner.Close() }

// IsInterfaceNil implements data.DBWriteCacher.
func (g *GatedDB) IsInterfaceNil() bool { return g == nil }
