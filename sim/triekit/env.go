package triekit

import (
	"github.com/ElrondNetwork/elrond-go/config"
	"github.com/ElrondNetwork/elrond-go/data"
	"github.com/ElrondNetwork/elrond-go/data/trie"
	"github.com/ElrondNetwork/elrond-go/data/trie/hashesHolder"
	"github.com/ElrondNetwork/elrond-go/hashing"
	"github.com/ElrondNetwork/elrond-go/marshal"
	"github.com/ElrondNetwork/elrond-go/storage"
	"github.com/ElrondNetwork/elrond-go/storage/lrucache"
	"github.com/ElrondNetwork/elrond-go/storage/storageUnit"

	"verifsim/simkit"
)

// Marshalizer and Hasher are the ones the node uses for state tries.
var (
	Marshalizer marshal.Marshalizer = &marshal.GogoProtoMarshalizer{}
	Hasher      hashing.Hasher      = hasher
)

// Env is a real trie storage stack over one SimDisk: SimDisk -> real storageUnit (real LRU cache) -> real
// trieStorageManager. Snapshot DBs are in-memory DBs of the repository (type MemoryDB).
type Env struct {
	Disk    *simkit.SimDisk
	Store   *storageUnit.Unit
	TSM     data.StorageManager
	CacheSz int
	Cfg     config.TrieStorageManagerConfig
	HolderSz uint64
}

// NewEnv builds the stack (also used to rebuild it after a Restart over the same disk).
func NewEnv(disk *simkit.SimDisk, cacheCap int, cfg config.TrieStorageManagerConfig, holderSize uint64) (*Env, error) {
	if cacheCap < 1 {
		cacheCap = 1
	}
	var cache storage.Cacher
	cache, err := lrucache.NewCache(cacheCap)
	if err != nil {
		return nil, err
	}
	disk.Reopen()
	su, err := storageUnit.NewStorageUnit(cache, disk)
	if err != nil {
		return nil, err
	}
	if cfg.SnapshotsBufferLen == 0 {
		cfg.SnapshotsBufferLen = 10
	}
	if cfg.MaxSnapshots == 0 {
		cfg.MaxSnapshots = 2
	}
	if holderSize == 0 {
		holderSize = 10000000
	}
	tsm, err := trie.NewTrieStorageManager(trie.NewTrieStorageManagerArgs{
		DB:                     su,
		Marshalizer:            Marshalizer,
		Hasher:                 Hasher,
		SnapshotDbConfig:       config.DBConfig{FilePath: "/nonexistent/verif-sim", Type: "MemoryDB"},
		GeneralConfig:          cfg,
		CheckpointHashesHolder: hashesHolder.NewCheckpointHashesHolder(holderSize, 32),
	})
	if err != nil {
		return nil, err
	}
	return &Env{Disk: disk, Store: su, TSM: tsm, CacheSz: cacheCap, Cfg: cfg, HolderSz: holderSize}, nil
}

// Close stops the storage manager's goroutine; the disk keeps its data.
func (e *Env) Close() { _ = e.TSM.Close() }

// NewTrie creates an empty trie on the environment.
func (e *Env) NewTrie(maxLevel uint) (data.Trie, error) {
	return trie.NewTrie(e.TSM, Marshalizer, Hasher, maxLevel)
}
