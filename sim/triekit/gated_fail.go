package triekit

// FailGet, when set, is consulted by every GatedDB.Get after the gate: a non-nil error is returned to the caller
// instead of the stored value (transient read error seen by one background worker). It is package-level state of the
// harness and must be reset by the world at the start and at the end of a run (one run per process at a time).
var FailGet func(key []byte) error
