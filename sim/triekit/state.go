package triekit

import (
	"github.com/ElrondNetwork/elrond-go/config"
	"github.com/ElrondNetwork/elrond-go/data/state"
	"github.com/ElrondNetwork/elrond-go/data/state/factory"
	"github.com/ElrondNetwork/elrond-go/data/state/storagePruningManager"
	"github.com/ElrondNetwork/elrond-go/data/state/storagePruningManager/evictionWaitingList"

	"verifsim/simkit"
)

// StateEnv is a real AccountsDB stack: AccountsDB -> trie -> Env (storage manager, cache, SimDisk), with the real
// storagePruningManager and evictionWaitingList (its spill DB is a second SimDisk).
type StateEnv struct {
	*Env
	EwlDisk  *simkit.SimDisk
	ADB      *state.AccountsDB
	MaxLevel uint
	EwlSize  uint
	BufLen   uint32
}

// NewStateEnv builds the stack over the given disks and positions the accounts DB on root (nil = empty state).
func NewStateEnv(disk, ewlDisk *simkit.SimDisk, cacheCap int, maxLevel uint, ewlSize uint, cfg config.TrieStorageManagerConfig, holderSize uint64, root []byte) (*StateEnv, error) {
	return NewStateEnvGated(disk, ewlDisk, cacheCap, maxLevel, ewlSize, cfg, holderSize, root, nil, 0)
}

// NewStateEnvGated is NewStateEnv with a gate in front of the main trie DB (see NewEnvGated).
func NewStateEnvGated(disk, ewlDisk *simkit.SimDisk, cacheCap int, maxLevel uint, ewlSize uint, cfg config.TrieStorageManagerConfig, holderSize uint64, root []byte, gate func(op string, key []byte), snapshotDelay int) (*StateEnv, error) {
	env, err := NewEnvGated(disk, cacheCap, cfg, holderSize, gate, snapshotDelay)
	if err != nil {
		return nil, err
	}
	tr, err := env.NewTrie(maxLevel)
	if err != nil {
		return nil, err
	}
	if ewlSize < 1 {
		ewlSize = 100
	}
	ewl, err := evictionWaitingList.NewEvictionWaitingList(ewlSize, ewlDisk, Marshalizer)
	if err != nil {
		return nil, err
	}
	bufLen := cfg.PruningBufferLen
	if bufLen == 0 {
		bufLen = 1000
	}
	spm, err := storagePruningManager.NewStoragePruningManager(ewl, bufLen)
	if err != nil {
		return nil, err
	}
	adb, err := state.NewAccountsDB(tr, Hasher, Marshalizer, factory.NewAccountCreator(), spm)
	if err != nil {
		return nil, err
	}
	se := &StateEnv{Env: env, EwlDisk: ewlDisk, ADB: adb, MaxLevel: maxLevel, EwlSize: ewlSize, BufLen: bufLen}
	if len(root) > 0 {
		if err := adb.RecreateTrie(root); err != nil {
			env.Close()
			return nil, err
		}
	}
	return se, nil
}
