// Package triekit holds harness code shared by the trie/state worlds: an independent trie walker (the
// oracle for "every node reachable from this root is present, stored under the hash of its own bytes, and
// the leaves are exactly this map") and helpers to build real tries over a SimDisk.
package triekit

import (
	"bytes"
	"errors"
	"fmt"

	"github.com/ElrondNetwork/elrond-go/data/trie"
	"github.com/ElrondNetwork/elrond-go/hashing/blake2b"
)

// RawDB is what the walker reads: raw bytes by key, no faults, no caches.
type RawDB interface {
	RawGet(key []byte) ([]byte, bool)
}

const (
	typeExtension = 0
	typeLeaf      = 1
	typeBranch    = 2
	terminator    = 16
)

var hasher = blake2b.NewBlake2b()

// Hash is the node hash function of the state tries.
func Hash(b []byte) []byte { return hasher.Compute(string(b)) }

// EmptyHash is the hash of the empty trie.
var EmptyHash = make([]byte, 32)

// WalkResult is what a walk found.
type WalkResult struct {
	Leaves map[string][]byte // original key bytes -> raw leaf value
	Nodes  map[string]bool   // hashes of all nodes reached
}

// ErrMissing is wrapped when a reachable node is absent.
var ErrMissing = errors.New("node missing")

// ErrForeign is wrapped when a node is stored under a hash that is not the hash of its bytes.
var ErrForeign = errors.New("node stored under a foreign hash")

// Walk traverses the trie rooted at root in db, independently of the repository's traversal code
// (it uses only the exported wire types). It fails if a node is missing, mis-addressed or malformed.
func Walk(db RawDB, root []byte) (*WalkResult, error) {
	res := &WalkResult{Leaves: map[string][]byte{}, Nodes: map[string]bool{}}
	if len(root) == 0 || bytes.Equal(root, EmptyHash) {
		return res, nil
	}
	err := walk(db, root, nil, res)
	return res, err
}

func walk(db RawDB, hash []byte, path []byte, res *WalkResult) error {
	enc, ok := db.RawGet(hash)
	if !ok {
		return fmt.Errorf("%w: %x at nibble path %v", ErrMissing, hash, path)
	}
	if !bytes.Equal(Hash(enc), hash) {
		return fmt.Errorf("%w: key %x holds bytes hashing to %x", ErrForeign, hash, Hash(enc))
	}
	res.Nodes[string(hash)] = true
	if len(enc) < 1 {
		return fmt.Errorf("empty node encoding under %x", hash)
	}
	typ, body := enc[len(enc)-1], enc[:len(enc)-1]
	switch typ {
	case typeBranch:
		bn := &trie.CollapsedBn{}
		if err := bn.Unmarshal(body); err != nil {
			return fmt.Errorf("branch %x: %v", hash, err)
		}
		if len(bn.EncodedChildren) != 17 {
			return fmt.Errorf("branch %x has %d children", hash, len(bn.EncodedChildren))
		}
		for i, ch := range bn.EncodedChildren {
			if len(ch) == 0 {
				continue
			}
			if err := walk(db, ch, append(append([]byte(nil), path...), byte(i)), res); err != nil {
				return err
			}
		}
	case typeExtension:
		en := &trie.CollapsedEn{}
		if err := en.Unmarshal(body); err != nil {
			return fmt.Errorf("extension %x: %v", hash, err)
		}
		if len(en.EncodedChild) == 0 {
			return fmt.Errorf("extension %x without child", hash)
		}
		return walk(db, en.EncodedChild, append(append([]byte(nil), path...), en.Key...), res)
	case typeLeaf:
		ln := &trie.CollapsedLn{}
		if err := ln.Unmarshal(body); err != nil {
			return fmt.Errorf("leaf %x: %v", hash, err)
		}
		full := append(append([]byte(nil), path...), ln.Key...)
		key, err := nibblesToKey(full)
		if err != nil {
			return fmt.Errorf("leaf %x: %v (nibbles %v)", hash, err, full)
		}
		if _, dup := res.Leaves[string(key)]; dup {
			return fmt.Errorf("key %x reached twice", key)
		}
		res.Leaves[string(key)] = ln.Value
	default:
		return fmt.Errorf("node %x has unknown type byte %d", hash, typ)
	}
	return nil
}

// nibblesToKey inverts the trie's key encoding: nibbles are the key's nibbles reversed, then a terminator.
func nibblesToKey(n []byte) ([]byte, error) {
	if len(n) == 0 || n[len(n)-1] != terminator {
		return nil, errors.New("missing terminator")
	}
	n = n[:len(n)-1]
	if len(n)%2 != 0 {
		return nil, errors.New("odd nibble count")
	}
	key := make([]byte, len(n)/2)
	for i := range key {
		lo := n[len(n)-1-2*i-1]
		hi := n[len(n)-1-2*i]
		if lo > 15 || hi > 15 {
			return nil, errors.New("nibble out of range")
		}
		key[i] = hi<<4 | lo
	}
	return key, nil
}

// KeyToNibbles is the forward encoding (harness copy, used to craft proof inputs).
func KeyToNibbles(key []byte) []byte {
	n := make([]byte, 0, 2*len(key)+1)
	for i := len(key) - 1; i >= 0; i-- {
		n = append(n, key[i]&0x0f, key[i]>>4)
	}
	return append(n, terminator)
}

// SameLeaves compares walk leaves with a model map; returns a description of the first difference.
func SameLeaves(got map[string][]byte, want map[string][]byte) string {
	for k, v := range want {
		g, ok := got[k]
		if !ok {
			return fmt.Sprintf("key %x missing", k)
		}
		if !bytes.Equal(g, v) {
			return fmt.Sprintf("key %x holds %x, expected %x", k, g, v)
		}
	}
	for k := range got {
		if _, ok := want[k]; !ok {
			return fmt.Sprintf("unexpected key %x", k)
		}
	}
	return ""
}

// DescribeNode renders a raw node for violation messages.
func DescribeNode(enc []byte) string {
	if len(enc) < 1 {
		return "empty"
	}
	typ, body := enc[len(enc)-1], enc[:len(enc)-1]
	switch typ {
	case typeBranch:
		bn := &trie.CollapsedBn{}
		if bn.Unmarshal(body) != nil {
			return "undecodable branch"
		}
		n := 0
		for _, ch := range bn.EncodedChildren {
			if len(ch) > 0 {
				n++
			}
		}
		return fmt.Sprintf("branch with %d children", n)
	case typeExtension:
		en := &trie.CollapsedEn{}
		if en.Unmarshal(body) != nil {
			return "undecodable extension"
		}
		return fmt.Sprintf("extension key=%v child=%x", en.Key, en.EncodedChild)
	case typeLeaf:
		ln := &trie.CollapsedLn{}
		if ln.Unmarshal(body) != nil {
			return "undecodable leaf"
		}
		v := ln.Value
		if len(v) > 48 {
			v = v[:48]
		}
		return fmt.Sprintf("leaf key-nibbles=%v value=%x(%q)", ln.Key, v, v)
	}
	return "unknown node type"
}
