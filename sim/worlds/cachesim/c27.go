package cachesim

import (
	"fmt"
	"sort"

	"github.com/ElrondNetwork/elrond-go/storage/immunitycache"

	"verifsim/simkit"
)

func genC27(r *simkit.Rand, tier string) *simkit.Plan {
	if r.Chance(0.25) {
		return genC27Sharded(r)
	}
	p := &simkit.Plan{Arm: "faultfree", Knobs: map[string]int64{}}
	// everything CacheConfig.Verify accepts, biased to small numbers so that limits bind
	chunks := []int{1, 1, 2, 3, 4, 5, 8, 16, 16, 32, 64, 128}[r.Intn(12)]
	if r.Chance(0.2) {
		chunks = r.Range(1, 128)
	}
	var items int
	switch r.Intn(4) {
	case 0:
		items = r.Range(4, 12)
	case 1:
		items = chunks * r.Range(1, 4)
		if items < 4 {
			items = 4
		}
	case 2:
		items = chunks*r.Range(1, 3) + r.Range(0, chunks)
		if items < 4 {
			items = 4
		}
	default:
		items = r.Range(4, 400)
	}
	var bytes int
	switch r.Intn(3) {
	case 0:
		bytes = r.Range(4, 64)
	case 1:
		bytes = items * r.Range(1, 20)
	default:
		bytes = 1 << 20
	}
	if bytes < 4 {
		bytes = 4
	}
	evict := []int{1, 1, 2, 3, chunks, 2 * chunks, chunks + 1, items}[r.Intn(8)]
	if evict < 1 {
		evict = 1
	}
	p.Knobs["chunks"], p.Knobs["items"], p.Knobs["bytes"], p.Knobs["evict"] = int64(chunks), int64(items), int64(bytes), int64(evict)
	nKeys := r.Range(4, 3*items+8)
	if nKeys > 600 {
		nKeys = 600
	}
	n := r.Range(30, 300)
	ops := []string{"put", "hasOrAdd", "get", "remove", "immunize", "clear"}
	w := []int{r.Range(3, 10), r.Range(3, 10), r.Range(0, 3), r.Range(0, 3), r.Range(0, 2), 0}
	if r.Chance(0.15) {
		w[5] = 1
	}
	maxSize := r.Range(1, 12)
	fresh := 0
	for i := 0; i < n; i++ {
		op := ops[r.Weighted(w)]
		st := simkit.Step{Op: op}
		switch op {
		case "immunize":
			k := r.Range(1, 3)
			for j := 0; j < k; j++ {
				st.S = append(st.S, fmt.Sprintf("k%d", r.Intn(nKeys)))
			}
		case "clear":
		default:
			key := fmt.Sprintf("k%d", r.Intn(nKeys))
			if (op == "put" || op == "hasOrAdd") && r.Chance(0.5) {
				fresh++
				key = fmt.Sprintf("f%d", fresh) // always-fresh keys keep the cache full
			}
			st.S = []string{key}
			st.I = []int64{int64(i + 1), int64(r.Range(0, maxSize))}
		}
		p.Steps = append(p.Steps, st)
	}
	return p
}

type c27item struct {
	val  int64
	size int
}

func ceilDiv(a, b int64) int64 { return (a + b - 1) / b }

func sortedKeys(m map[string]bool) []string {
	ks := make([]string, 0, len(m))
	for k := range m {
		ks = append(ks, k)
	}
	sort.Strings(ks)
	return ks
}

func execC27(c *simkit.Ctx) bool {
	if c.Plan.Arm == "sharded" {
		return execC27Sharded(c)
	}
	p := c.Plan
	cfg := immunitycache.CacheConfig{Name: "sim", NumChunks: uint32(p.Knob("chunks", 1)), MaxNumItems: uint32(p.Knob("items", 4)),
		MaxNumBytes: uint32(p.Knob("bytes", 4)), NumItemsToPreemptivelyEvict: uint32(p.Knob("evict", 1))}
	if err := cfg.Verify(); err != nil {
		return false // not an accepted configuration: outside the property
	}
	cache, err := immunitycache.NewImmunityCache(cfg)
	if err != nil {
		c.HarnessErr("NewImmunityCache rejected a config its Verify accepted: %v", err)
		return false
	}
	nch := int64(cfg.NumChunks)
	limItems, limBytes := ceilDiv(int64(cfg.MaxNumItems), nch), ceilDiv(int64(cfg.MaxNumBytes), nch)
	floorItems, floorBytes := int64(cfg.MaxNumItems)/nch, int64(cfg.MaxNumBytes)/nch
	model := map[string]c27item{} // what we believe may be present: key -> item as first added
	immune := map[string]bool{}   // keys immunized since the last clear
	pressure := false

	chunkStats := func(ch uint32) (nonImmune int, nonImmuneBytes int, imm int, immBytes int, total int) {
		for _, k := range cache.VerifChunkKeys()[ch] {
			it := model[string(k)]
			total++
			if immune[string(k)] {
				imm++
				immBytes += it.size
			} else {
				nonImmune++
				nonImmuneBytes += it.size
			}
		}
		return
	}

	for i := range p.Steps {
		st := &p.Steps[i]
		c.CurStep = i
		switch st.Op {
		case "put", "hasOrAdd":
			key, val, size := st.Str(0), st.Int(0, 0), int(st.Int(1, 0))
			ch := cache.VerifChunkIndex([]byte(key))
			_, present := cache.Get([]byte(key))
			nonImm, _, imm, immBytes, total := chunkStats(ch)
			has, added := cache.HasOrAdd([]byte(key), val, size)
			c.Eventf("%d %s %s size=%d chunk=%d -> has=%v added=%v", i, st.Op, key, size, ch, has, added)
			if int64(total) >= floorItems {
				pressure = true
			}
			if present {
				// the add may first evict the old item (capacity check precedes the duplicate check) and
				// then store the new one; otherwise the old item stays
				if added {
					model[key] = c27item{val, size}
				}
				break
			}
			if has {
				c.Violate("C27", "phantom-has", "HasOrAdd", "HasOrAdd(%s) reported has=true for a key that Get did not find", key)
				break
			}
			if !added {
				pressure = true
				legit := nonImm == 0 && (int64(imm) >= floorItems || int64(immBytes) >= floorBytes) && imm > 0
				if !legit {
					c.Violate("C27", "refuses-admission", "HasOrAdd",
						"config %+v accepted by Verify: adding fresh key %s (size %d) to chunk %d was refused although the chunk holds %d non-immune and %d immune items",
						cfg, key, size, ch, nonImm, imm)
				} else {
					c.Probe("refused_all_immune")
				}
				break
			}
			model[key] = c27item{val, size}
			// limits after the add
			nonImm2, nonImmBytes2, _, _, _ := chunkStats(ch)
			if int64(nonImm2) > limItems {
				c.Violate("C27", "chunk-items-over-limit", "HasOrAdd", "chunk %d holds %d non-immune items after adding %s; configured %d items over %d chunks", ch, nonImm2, key, cfg.MaxNumItems, cfg.NumChunks)
			}
			if int64(nonImmBytes2) > limBytes+int64(size) {
				c.Violate("C27", "chunk-bytes-over-limit", "HasOrAdd", "chunk %d holds %d non-immune bytes after adding %s (size %d); configured %d bytes over %d chunks", ch, nonImmBytes2, key, size, cfg.MaxNumBytes, cfg.NumChunks)
			}
		case "get":
			key := st.Str(0)
			v, ok := cache.Get([]byte(key))
			c.Eventf("%d get %s -> %v %v", i, key, v, ok)
			if ok {
				if it, known := model[key]; !known || v != interface{}(it.val) {
					c.Probe("anomaly_wrong_value") // not part of the property: counted, not reported
				}
			}
		case "remove":
			key := st.Str(0)
			cache.Remove([]byte(key))
			delete(model, key)
			delete(immune, key) // Remove also withdraws the immunity of the key (documented behaviour)
			c.Eventf("%d remove %s", i, key)
			if _, ok := cache.Get([]byte(key)); ok {
				c.Violate("C27", "present-after-remove", "Remove", "key %s still present after Remove", key)
			}
		case "immunize":
			keys := [][]byte{}
			for _, k := range st.S {
				keys = append(keys, []byte(k))
			}
			now, future := cache.ImmunizeKeys(keys)
			if now+future > 0 { // a request beyond the immune capacity is refused as a whole and marks nothing
				for _, k := range st.S {
					immune[k] = true
				}
			} else {
				c.Probe("immunize_refused")
			}
			c.Eventf("%d immunize %v -> now=%d future=%d", i, st.S, now, future)
		case "clear":
			cache.Clear()
			model = map[string]c27item{}
			immune = map[string]bool{}
			c.Eventf("%d clear", i)
		}
		// invariant after every step: every immune key that was present is still present
		for _, k := range sortedKeys(immune) {
			if _, was := model[k]; !was {
				continue
			}
			if _, ok := cache.Get([]byte(k)); !ok {
				c.Violate("C27", "immune-evicted", st.Op, "immune key %s disappeared without Remove/Clear (after step %d %s %v)", k, i, st.Op, st.S)
				delete(model, k)
			}
		}
		// forget model entries the cache evicted (non-immune), and cross-check the totals
		present := 0
		totalBytes := 0
		for _, k := range cache.Keys() {
			it, known := model[string(k)]
			if !known {
				c.Probe("anomaly_unknown_key")
				continue
			}
			present++
			totalBytes += it.size
		}
		if present < len(model) {
			keep := map[string]bool{}
			for _, k := range cache.Keys() {
				keep[string(k)] = true
			}
			for k := range model {
				if !keep[k] {
					delete(model, k)
					c.Probe("evicted")
				}
			}
		}
		if cache.Count() != present || cache.NumBytes() != totalBytes {
			c.Probe("anomaly_totals_differ") // not part of the property: counted, not reported
		}
		c.FP(cache.Count(), cache.NumBytes(), cache.CountImmune())
		c.StepsDone++
		if c.Failed("C27") {
			break
		}
	}
	if pressure {
		c.Probe("chunk_at_limit")
	}
	return pressure
}
