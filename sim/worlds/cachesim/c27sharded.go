package cachesim

import (
	"fmt"
	"sort"

	"github.com/ElrondNetwork/elrond-go/dataRetriever/shardedData"
	"github.com/ElrondNetwork/elrond-go/storage/storageUnit"

	"verifsim/simkit"
)

// The "sharded" arm of C27 drives the immunity cache the way the node does: through dataRetriever/shardedData, one
// immunity cache per cache id, created lazily. Only the first clause of C27 is judged here: items marked immune are
// never evicted.

var c27CacheIDs = []string{"0", "1", "0_1"}

func genC27Sharded(r *simkit.Rand) *simkit.Plan {
	p := &simkit.Plan{Arm: "sharded", Knobs: map[string]int64{}}
	p.Knobs["capacity"] = int64(r.Range(8, 40))
	p.Knobs["shards"] = int64(r.Range(1, 4))
	nStores := r.Range(1, 3)
	nKeys := r.Range(6, 30)
	n := r.Range(30, 250)
	w := []int{r.Range(6, 14), r.Range(1, 4), r.Range(0, 3), 0, 0}
	if r.Chance(0.2) {
		w[3] = 1
	}
	if r.Chance(0.3) {
		w[4] = 1
	}
	ops := []string{"add", "immunize", "remove", "clear", "clearStore"}
	fresh := 0
	for i := 0; i < n; i++ {
		st := simkit.Step{Op: ops[r.Weighted(w)], T: r.Intn(nStores)}
		if i < 3 && r.Chance(0.5) {
			st.Op = "immunize" // often the very first operation on a cache id
		}
		switch st.Op {
		case "add":
			key := fmt.Sprintf("k%d", r.Intn(nKeys))
			if r.Chance(0.6) {
				fresh++
				key = fmt.Sprintf("f%d", fresh)
			}
			st.S = []string{key}
			st.I = []int64{int64(i + 1), int64(r.Range(1, 40))}
		case "immunize":
			for j, m := 0, r.Range(1, 3); j < m; j++ {
				st.S = append(st.S, fmt.Sprintf("k%d", r.Intn(nKeys)))
			}
		case "remove":
			st.S = []string{fmt.Sprintf("k%d", r.Intn(nKeys))}
		}
		p.Steps = append(p.Steps, st)
	}
	return p
}

func execC27Sharded(c *simkit.Ctx) bool {
	p := c.Plan
	capacity := uint32(p.Knob("capacity", 16))
	sd, err := shardedData.NewShardedData("sim", storageUnit.CacheConfig{Capacity: capacity, Shards: uint32(p.Knob("shards", 1)), SizeInBytes: 1 << 26})
	if err != nil {
		return false // configuration not accepted: outside the property
	}
	immune := map[string]map[string]bool{}    // cache id -> keys marked immune (request accepted) and not removed since
	protected := map[string]map[string]bool{} // cache id -> immune keys that were seen present: must stay present
	for _, id := range c27CacheIDs {
		immune[id], protected[id] = map[string]bool{}, map[string]bool{}
	}
	has := func(id, key string) bool {
		store := sd.ShardDataStore(id)
		if store == nil {
			return false
		}
		_, ok := store.Get([]byte(key))
		return ok
	}
	evictions, firstOpImmunize := 0, false
	touched := map[string]bool{}
	for i := range p.Steps {
		st := &p.Steps[i]
		c.CurStep = i
		id := c27CacheIDs[st.T%len(c27CacheIDs)]
		switch st.Op {
		case "add":
			key := st.Str(0)
			lenBefore := 0
			if store := sd.ShardDataStore(id); store != nil {
				lenBefore = store.Len()
			}
			sd.AddData([]byte(key), st.Int(0, 0), int(st.Int(1, 1)), id)
			touched[id] = true
			if store := sd.ShardDataStore(id); store != nil && store.Len() <= lenBefore && lenBefore > 0 {
				evictions++
			}
			if immune[id][key] && has(id, key) {
				protected[id][key] = true
			}
			c.Eventf("%d add %s to %s", i, key, id)
		case "immunize":
			// precondition of "marked immune": the request stays within the immune capacity of the cache (a request
			// beyond it is refused as a whole); such requests are not issued
			distinct := map[string]bool{}
			for k := range immune[id] {
				distinct[k] = true
			}
			for _, k := range st.S {
				distinct[k] = true
			}
			if len(immune[id])+len(st.S) > int(capacity) || len(distinct) > int(capacity) {
				continue
			}
			if !touched[id] {
				firstOpImmunize = true
				c.Probe("immunize_is_first_operation_on_cache_id")
			}
			keys := [][]byte{}
			for _, k := range st.S {
				keys = append(keys, []byte(k))
			}
			sd.ImmunizeSetOfDataAgainstEviction(keys, id)
			touched[id] = true
			for _, k := range st.S {
				immune[id][k] = true
				if has(id, k) {
					protected[id][k] = true
				}
			}
			c.Eventf("%d immunize %v in %s", i, st.S, id)
		case "remove":
			key := st.Str(0)
			sd.RemoveData([]byte(key), id)
			delete(immune[id], key) // removal withdraws the immunity of the key
			delete(protected[id], key)
			c.Eventf("%d remove %s from %s", i, key, id)
		case "clear":
			sd.Clear()
			for _, x := range c27CacheIDs {
				immune[x], protected[x] = map[string]bool{}, map[string]bool{}
				delete(touched, x)
			}
			c.Eventf("%d clear", i)
		case "clearStore":
			sd.ClearShardStore(id)
			immune[id], protected[id] = map[string]bool{}, map[string]bool{}
			c.Eventf("%d clear store %s", i, id)
		}
		for _, x := range c27CacheIDs {
			keys := make([]string, 0, len(protected[x]))
			for k := range protected[x] {
				keys = append(keys, k)
			}
			sort.Strings(keys)
			for _, k := range keys {
				if !has(x, k) {
					c.Violate("C27", "immune-evicted", "shardedData/"+st.Op, "key %s of cache id %s was marked immune and present, and disappeared without Remove/Clear (after step %d %s %v)", k, x, i, st.Op, st.S)
					delete(protected[x], k)
				}
			}
		}
		c.StepsDone++
		if c.Failed("C27") {
			break
		}
	}
	if evictions > 0 {
		c.Probe("sharded_eviction")
	}
	_ = firstOpImmunize
	return evictions > 0
}
