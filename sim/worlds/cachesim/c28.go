package cachesim

import (
	"fmt"

	"github.com/ElrondNetwork/elrond-go/storage/lrucache/capacity"

	"verifsim/simkit"
)

// ---- reference LRU: item limit + byte limit, never evicts the most recent item -------------------

type refEntry struct {
	key  string
	val  int64
	size int64
}

type refLRU struct {
	cap      int
	maxBytes int64
	items    []refEntry // oldest first
}

func (m *refLRU) find(k string) int {
	for i := range m.items {
		if m.items[i].key == k {
			return i
		}
	}
	return -1
}

func (m *refLRU) bytes() int64 {
	var s int64
	for _, e := range m.items {
		s += e.size
	}
	return s
}

func (m *refLRU) touch(i int) {
	e := m.items[i]
	m.items = append(m.items[:i], m.items[i+1:]...)
	m.items = append(m.items, e)
}

// evict removes oldest items while a limit is exceeded and more than one item remains.
func (m *refLRU) evict() (evicted []refEntry) {
	for len(m.items) > 1 && (len(m.items) > m.cap || m.bytes() > m.maxBytes) {
		evicted = append(evicted, m.items[0])
		m.items = m.items[1:]
	}
	return
}

func (m *refLRU) add(k string, v, size int64) []refEntry {
	if size < 0 {
		return m.evict()
	}
	if i := m.find(k); i >= 0 {
		m.items[i].val, m.items[i].size = v, size
		m.touch(i)
	} else {
		m.items = append(m.items, refEntry{k, v, size})
	}
	return m.evict()
}

func (m *refLRU) keys() []string {
	ks := make([]string, len(m.items))
	for i, e := range m.items {
		ks[i] = e.key
	}
	return ks
}

// ---- generator -----------------------------------------------------------------------------------

func genC28(r *simkit.Rand, tier string) *simkit.Plan {
	p := &simkit.Plan{Arm: "faultfree", Knobs: map[string]int64{}}
	p.Knobs["cap"] = int64(r.Range(1, 8))
	p.Knobs["bytes"] = int64(r.Range(1, 200))
	nKeys := r.Range(2, 12)
	n := r.Range(20, 200)
	// swarm: op weights per run
	ops := []string{"add", "addIfMissing", "addEvicted", "get", "peek", "contains", "remove", "purge", "keys"}
	w := make([]int, len(ops))
	for i := range w {
		w[i] = r.Range(0, 6)
	}
	w[0] += 2
	w[7] = r.Range(0, 1)
	sizeMode := r.Intn(3)
	for i := 0; i < n; i++ {
		op := ops[r.Weighted(w)]
		st := simkit.Step{Op: op, S: []string{fmt.Sprintf("k%d", r.Intn(nKeys))}}
		var size int64
		switch sizeMode {
		case 0:
			size = int64(r.Range(0, 30))
		case 1:
			size = int64(r.Range(0, 300))
		default:
			size = int64(r.Range(-1, 120))
		}
		st.I = []int64{int64(i + 1), size} // value unique per step
		p.Steps = append(p.Steps, st)
	}
	return p
}

// ---- execution -----------------------------------------------------------------------------------

func execC28(c *simkit.Ctx) bool {
	p := c.Plan
	capItems, maxBytes := int(p.Knob("cap", 4)), p.Knob("bytes", 100)
	lru, err := capacity.NewCapacityLRU(capItems, maxBytes)
	if err != nil {
		c.HarnessErr("NewCapacityLRU: %v", err)
		return false
	}
	m := &refLRU{cap: capItems, maxBytes: maxBytes}
	evictions := 0
	for i := range p.Steps {
		st := &p.Steps[i]
		c.CurStep = i
		k, v, size := st.Str(0), st.Int(0, 0), st.Int(1, 0)
		switch st.Op {
		case "add":
			ev := lru.AddSized(k, v, size)
			mev := m.add(k, v, size)
			evictions += len(mev)
			_ = ev // the returned eviction flag is not part of the property
		case "addIfMissing":
			found, ev := lru.AddSizedIfMissing(k, v, size)
			mfound := m.find(k) >= 0
			var mev []refEntry
			if size < 0 {
				mfound = false
			} else if !mfound {
				mev = m.add(k, v, size)
			}
			evictions += len(mev)
			_ = ev
			if found != mfound {
				c.Violate("C28", "add-if-missing", "AddSizedIfMissing", "AddSizedIfMissing(%s,size=%d) found=%v, reference found=%v", k, size, found, mfound)
			}
		case "addEvicted":
			got := lru.AddSizedAndReturnEvicted(k, v, size)
			mev := m.add(k, v, size)
			evictions += len(mev)
			_ = got // the returned eviction set is not part of the property
		case "get":
			gv, ok := lru.Get(k)
			i := m.find(k)
			if ok != (i >= 0) || (ok && gv != m.items[i].val) {
				c.Violate("C28", "get-mismatch", "Get", "Get(%s) = (%v,%v), reference present=%v", k, gv, ok, i >= 0)
			}
			if i >= 0 {
				m.touch(i)
			}
		case "peek":
			gv, ok := lru.Peek(k)
			i := m.find(k)
			if ok != (i >= 0) || (ok && gv != m.items[i].val) {
				c.Violate("C28", "peek-mismatch", "Peek", "Peek(%s) = (%v,%v), reference present=%v", k, gv, ok, i >= 0)
			}
		case "contains":
			if ok := lru.Contains(k); ok != (m.find(k) >= 0) {
				c.Violate("C28", "contains-mismatch", "Contains", "Contains(%s) = %v, reference %v", k, ok, m.find(k) >= 0)
			}
		case "remove":
			ok := lru.Remove(k)
			i := m.find(k)
			if ok != (i >= 0) {
				c.Violate("C28", "remove-mismatch", "Remove", "Remove(%s) = %v, reference present=%v", k, ok, i >= 0)
			}
			if i >= 0 {
				m.items = append(m.items[:i], m.items[i+1:]...)
			}
		case "purge":
			lru.Purge()
			m.items = nil
		case "keys":
		}
		// after every operation: same keys in the same recency order, same length, bytes = sum of sizes
		got := lru.Keys()
		want := m.keys()
		same := len(got) == len(want)
		for j := 0; same && j < len(got); j++ {
			if got[j] != interface{}(want[j]) {
				same = false
			}
		}
		if !same {
			c.Violate("C28", "keys-differ", st.Op, "after %s(%s,size=%d): Keys()=%v, reference LRU (oldest first)=%v", st.Op, k, size, got, want)
		}
		if lru.Len() != len(want) {
			c.Violate("C28", "len-differs", st.Op, "Len()=%d, reference %d", lru.Len(), len(want))
		}
		if sz := lru.SizeInBytesContained(); sz != uint64(m.bytes()) {
			c.Violate("C28", "size-accounting", st.Op, "after %s(%s,size=%d): SizeInBytesContained()=%d, sum of present item sizes=%d", st.Op, k, size, sz, m.bytes())
		}
		c.Eventf("%d %s %s %d -> keys=%v bytes=%d", i, st.Op, k, size, got, lru.SizeInBytesContained())
		c.FP(got, lru.SizeInBytesContained())
		c.StepsDone++
		if c.Failed("C28") {
			break
		}
	}
	if evictions > 0 {
		c.Probe("eviction")
	}
	return evictions > 0
}
