package cachesim

import (
	"fmt"
	"sort"
	"time"

	"github.com/ElrondNetwork/elrond-go/config"
	"github.com/ElrondNetwork/elrond-go/data/block"
	"github.com/ElrondNetwork/elrond-go/dataRetriever"
	"github.com/ElrondNetwork/elrond-go/dataRetriever/dataPool/headersCache"

	"verifsim/simkit"
)

var c29ops = []string{"add", "removeByHash", "removeByNonce", "getByHash", "getByNonce", "nonces", "numHeaders", "len", "clear"}

func genC29(r *simkit.Rand, tier string, race bool) *simkit.Plan {
	p := &simkit.Plan{Knobs: map[string]int64{}}
	maxH := r.Range(2, 6)
	p.Knobs["max"] = int64(maxH)
	p.Knobs["evict"] = int64(r.Range(1, maxH))
	nHashes := r.Range(4, 16)
	w := make([]int, len(c29ops))
	for i := range w {
		w[i] = r.Range(1, 5)
	}
	w[0] += 4
	w[8] = r.Intn(2)
	threads := 1
	n := r.Range(20, 150)
	if race {
		p.Arm = "race"
		threads = r.Range(2, 4)
		n = r.Range(6, 40)
	} else {
		p.Arm = "sequential"
	}
	// forky histories: two nonces per shard, so most nonces hold several competing headers
	nNonces := 7
	if r.Chance(0.4) {
		nNonces = 2
		w[1] += 3
		w[4] += 3
	}
	for i := 0; i < n; i++ {
		st := simkit.Step{Op: c29ops[r.Weighted(w)], T: r.Intn(threads)}
		// shard 2 is never added to; lookups use all three
		h := r.Intn(nHashes)
		shardOfHash := int64(h % 2)
		nonceOfHash := int64((h / 2) % nNonces)
		if r.Chance(0.1) {
			nonceOfHash = int64(r.Intn(7)) // same hash re-added with another nonce
		}
		switch st.Op {
		case "add":
			st.I = []int64{int64(h), shardOfHash, nonceOfHash}
		case "removeByHash", "getByHash":
			st.I = []int64{int64(h)}
		case "removeByNonce", "getByNonce":
			st.I = []int64{int64(r.Intn(nNonces)), int64(r.Intn(3))}
			if nNonces == 2 && r.Chance(0.7) {
				st.I[1] = int64(r.Intn(2))
			}
		case "nonces", "numHeaders":
			st.I = []int64{int64(r.Intn(3))}
		}
		p.Steps = append(p.Steps, st)
	}
	return p
}

func hashName(h int64) []byte { return []byte(fmt.Sprintf("hash-%02d", h)) }

func execC29(c *simkit.Ctx) bool {
	if c.Plan.Arm == "race" {
		return execC29Race(c)
	}
	nt := false
	simkit.Bubble(c, func() { nt = execC29Seq(c) })
	return nt
}

func newPool(c *simkit.Ctx) (pool poolT, ok bool) {
	p, err := headersCache.NewHeadersPool(config.HeadersPoolConfig{MaxHeadersPerShard: int(c.Plan.Knob("max", 4)), NumElementsToRemoveOnEviction: int(c.Plan.Knob("evict", 1))})
	if err != nil {
		c.HarnessErr("NewHeadersPool: %v", err)
		return nil, false
	}
	return p, true
}

type poolT = dataRetriever.HeadersPool

func doC29op(pool poolT, st *simkit.Step) string {
	switch st.Op {
	case "add":
		pool.AddHeader(hashName(st.Int(0, 0)), &block.Header{ShardID: uint32(st.Int(1, 0)), Nonce: uint64(st.Int(2, 0))})
		return ""
	case "removeByHash":
		pool.RemoveHeaderByHash(hashName(st.Int(0, 0)))
	case "removeByNonce":
		pool.RemoveHeaderByNonceAndShardId(uint64(st.Int(0, 0)), uint32(st.Int(1, 0)))
	case "getByHash":
		h, err := pool.GetHeaderByHash(hashName(st.Int(0, 0)))
		if err == nil {
			return fmt.Sprintf("shard=%d nonce=%d", h.GetShardID(), h.GetNonce())
		}
		return "not found"
	case "getByNonce":
		_, hs, err := pool.GetHeadersByNonceAndShardId(uint64(st.Int(0, 0)), uint32(st.Int(1, 0)))
		if err == nil {
			return fmt.Sprintf("%d headers", len(hs))
		}
		return "not found"
	case "nonces":
		n := pool.Nonces(uint32(st.Int(0, 0)))
		sort.Slice(n, func(i, j int) bool { return n[i] < n[j] })
		return fmt.Sprint(n)
	case "numHeaders":
		return fmt.Sprint(pool.GetNumHeaders(uint32(st.Int(0, 0))))
	case "len":
		return fmt.Sprint(pool.Len())
	case "clear":
		pool.Clear()
	}
	return ""
}

func execC29Seq(c *simkit.Ctx) bool {
	pool, ok := newPool(c)
	if !ok {
		return false
	}
	everAdded := map[int64]bool{}
	interesting := false
	maxPerShard := int(c.Plan.Knob("max", 4))
	for i := range c.Plan.Steps {
		st := &c.Plan.Steps[i]
		c.CurStep = i
		before := pool.Len()
		res := doC29op(pool, st)
		if st.Op == "add" {
			everAdded[st.Int(0, 0)] = true
			if pool.Len() <= before && before >= maxPerShard-1 {
				interesting = true
				c.Probe("eviction_on_add")
			}
		}
		if st.Op == "removeByHash" || st.Op == "removeByNonce" {
			if pool.Len() < before {
				interesting = true
			}
		}
		time.Sleep(time.Microsecond) // bubble clock: distinct LRU timestamps per step
		c.SimNanos += 1000
		// oracle through the public API only; lookups refresh LRU stamps, so each one gets its own instant
		byNonce := func(n uint64, sh uint32) ([][]byte, error) {
			time.Sleep(time.Microsecond)
			c.SimNanos += 1000
			_, hashes, err := pool.GetHeadersByNonceAndShardId(n, sh)
			return hashes, err
		}
		found := map[uint32]int{}
		noncesSeen := map[uint32]map[uint64]bool{}
		hs := make([]int64, 0, len(everAdded))
		for h := range everAdded {
			hs = append(hs, h)
		}
		sort.Slice(hs, func(a, b int) bool { return hs[a] < hs[b] })
		for _, h := range hs {
			time.Sleep(time.Microsecond) // the lookup refreshes the LRU stamp: keep stamps distinct
			c.SimNanos += 1000
			hdr, err := pool.GetHeaderByHash(hashName(h))
			if err != nil {
				// by neither: no (shard, nonce) list may contain the hash
				for sh := uint32(0); sh < 3; sh++ {
					for n := uint64(0); n < 7; n++ {
						hashes, e2 := byNonce(n, sh)
						if e2 != nil {
							continue
						}
						for _, x := range hashes {
							if string(x) == string(hashName(h)) {
								c.Violate("C29", "index-mismatch", "GetHeadersByNonceAndShardId", "hash %s is listed under shard %d nonce %d but GetHeaderByHash does not find it (after step %d %s %v)", hashName(h), sh, n, i, st.Op, st.I)
							}
						}
					}
				}
				continue
			}
			sh, n := hdr.GetShardID(), hdr.GetNonce()
			found[sh]++
			if noncesSeen[sh] == nil {
				noncesSeen[sh] = map[uint64]bool{}
			}
			noncesSeen[sh][n] = true
			hashes, e2 := byNonce(n, sh)
			in := false
			if e2 == nil {
				for _, x := range hashes {
					if string(x) == string(hashName(h)) {
						in = true
					}
				}
			}
			if !in {
				c.Violate("C29", "index-mismatch", "GetHeaderByHash", "hash %s found by hash (shard %d nonce %d) but not under its shard and nonce (after step %d %s %v)", hashName(h), sh, n, i, st.Op, st.I)
			}
		}
		total := 0
		for sh := uint32(0); sh < 3; sh++ {
			total += found[sh]
			if got := pool.GetNumHeaders(sh); got != found[sh] {
				c.Violate("C29", "count-mismatch", "GetNumHeaders", "GetNumHeaders(%d)=%d but %d headers of that shard are stored (after step %d %s %v)", sh, got, found[sh], i, st.Op, st.I)
			}
			got := pool.Nonces(sh)
			if len(got) != len(noncesSeen[sh]) {
				c.Violate("C29", "nonces-mismatch", "Nonces", "Nonces(%d)=%v but stored headers have nonces %v", sh, got, noncesSeen[sh])
			} else {
				for _, n := range got {
					if !noncesSeen[sh][n] {
						c.Violate("C29", "nonces-mismatch", "Nonces", "Nonces(%d)=%v lists nonce %d without a stored header", sh, got, n)
					}
				}
			}
		}
		if pool.Len() != total {
			c.Violate("C29", "count-mismatch", "Len", "Len()=%d but %d headers are stored", pool.Len(), total)
		}
		c.Eventf("%d %s %v -> %s | len=%d", i, st.Op, st.I, res, pool.Len())
		c.FP(found[0], found[1], pool.Len(), fmt.Sprint(pool.Nonces(0)))
		c.StepsDone++
		if c.Failed("C29") {
			break
		}
	}
	return interesting
}

func execC29Race(c *simkit.Ctx) bool {
	pool, ok := newPool(c)
	if !ok {
		return false
	}
	steps := c.Plan.Steps
	threadOf := make([]int, len(steps))
	ops := make([]func(), len(steps))
	seen := map[int]bool{}
	for i := range steps {
		st := &steps[i]
		threadOf[i] = st.T
		seen[st.T] = true
		ops[i] = func() { doC29op(pool, st) }
	}
	simkit.RunSerialThreads(threadOf, ops)
	c.StepsDone = len(steps)
	for i := range steps {
		c.Eventf("%d t%d %s %v", i, steps[i].T, steps[i].Op, steps[i].I)
	}
	return len(seen) >= 2
}
