package cachesim

import (
	"fmt"

	"github.com/ElrondNetwork/elrond-go/hashing"
	"github.com/ElrondNetwork/elrond-go/hashing/blake2b"
	"github.com/ElrondNetwork/elrond-go/hashing/fnv"
	"github.com/ElrondNetwork/elrond-go/hashing/keccak"
	"github.com/ElrondNetwork/elrond-go/storage/bloom"

	"verifsim/simkit"
)

func genC31(r *simkit.Rand, tier string, race bool) *simkit.Plan {
	if !race && r.Chance(0.4) {
		return genC31Interleaved(r)
	}
	p := &simkit.Plan{Knobs: map[string]int64{}}
	nh := r.Range(1, 3)
	p.Knobs["hashers"] = int64(nh)
	p.Knobs["first_hasher"] = int64(r.Intn(3))
	switch r.Intn(3) {
	case 0:
		p.Knobs["size"] = int64(nh + 1) // minimum accepted
	case 1:
		p.Knobs["size"] = int64(r.Range(nh+1, 64))
	default:
		p.Knobs["size"] = int64(r.Range(64, 4096))
	}
	nKeys := r.Range(3, 60)
	threads := 1
	n := r.Range(10, 200)
	p.Arm = "sequential"
	if race {
		p.Arm = "race"
		threads = r.Range(2, 4)
		n = r.Range(4, 30)
	}
	for i := 0; i < n; i++ {
		st := simkit.Step{T: r.Intn(threads)}
		x := r.Intn(100)
		switch {
		case x < 50:
			st.Op = "add"
		case x < 97 || race:
			st.Op = "mayContain"
		default:
			st.Op = "clear"
		}
		klen := r.Range(0, 40)
		k := r.Intn(nKeys)
		key := []byte(fmt.Sprintf("%d-", k))
		for len(key) < klen {
			key = append(key, byte(k*7+len(key)))
		}
		st.B = []simkit.HexBytes{key}
		p.Steps = append(p.Steps, st)
	}
	return p
}

func newBloom(c *simkit.Ctx) *bloom.Bloom {
	all := []hashing.Hasher{keccak.NewKeccak(), blake2b.NewBlake2b(), fnv.NewFnv()}
	nh, first := int(c.Plan.Knob("hashers", 3)), int(c.Plan.Knob("first_hasher", 0))
	hs := []hashing.Hasher{}
	for i := 0; i < nh; i++ {
		hs = append(hs, all[(first+i)%3])
	}
	b, err := bloom.NewFilter(uint(c.Plan.Knob("size", 2048)), hs)
	if err != nil {
		return nil // configuration not accepted: outside the property
	}
	return b
}

func execC31(c *simkit.Ctx) bool {
	if c.Plan.Arm == "interleaved" {
		return execC31Interleaved(c)
	}
	b := newBloom(c)
	if b == nil {
		return false
	}
	steps := c.Plan.Steps
	if c.Plan.Arm == "race" {
		threadOf := make([]int, len(steps))
		ops := make([]func(), len(steps))
		seen := map[int]bool{}
		for i := range steps {
			st := &steps[i]
			threadOf[i] = st.T
			seen[st.T] = true
			ops[i] = func() {
				switch st.Op {
				case "add":
					b.Add(st.Bytes(0))
				case "mayContain":
					b.MayContain(st.Bytes(0))
				}
			}
			c.Eventf("%d t%d %s %x", i, st.T, st.Op, st.Bytes(0))
		}
		simkit.RunSerialThreads(threadOf, ops)
		c.StepsDone = len(steps)
		return len(seen) >= 2
	}
	added := map[string]bool{}
	adds, queries := 0, 0
	for i := range steps {
		st := &steps[i]
		c.CurStep = i
		key := st.Bytes(0)
		switch st.Op {
		case "add":
			b.Add(key)
			added[string(key)] = true
			adds++
			c.Eventf("%d add %x", i, key)
		case "mayContain":
			got := b.MayContain(key)
			queries++
			c.Eventf("%d mayContain %x -> %v", i, key, got)
			if added[string(key)] && !got {
				c.Violate("C31", "false-negative", "MayContain", "key %x was added and the filter was not cleared since, but MayContain reports false (size %d, %d hashers)", key, c.Plan.Knob("size", 0), c.Plan.Knob("hashers", 0))
			}
			if !added[string(key)] && !got {
				c.Probe("true_negative")
			}
		case "clear":
			b.Clear()
			added = map[string]bool{}
			c.Eventf("%d clear", i)
		}
		c.FP(len(added), st.Op)
		c.StepsDone++
		if c.Failed("C31") {
			break
		}
	}
	// every key added since the last clear must still be reported at the end as well
	for i := range steps {
		if steps[i].Op == "add" && added[string(steps[i].Bytes(0))] && !b.MayContain(steps[i].Bytes(0)) {
			c.Violate("C31", "false-negative", "MayContain", "key %x added at step %d is not reported at the end of the run", steps[i].Bytes(0), i)
			break
		}
	}
	return adds >= 3 && queries >= 1
}
