package cachesim

import (
	"fmt"
	"sync"
	"testing/synctest"

	"github.com/ElrondNetwork/elrond-go/hashing"
	"github.com/ElrondNetwork/elrond-go/hashing/blake2b"
	"github.com/ElrondNetwork/elrond-go/hashing/fnv"
	"github.com/ElrondNetwork/elrond-go/hashing/keccak"
	"github.com/ElrondNetwork/elrond-go/storage/bloom"

	"verifsim/simkit"
)

// The "interleaved" arm of C31: Add and MayContain of 2-3 logical threads overlap, and the simulator decides the
// interleaving. The seam is the hasher the filter is built with (a constructor argument): every hashing goroutine
// the filter spawns computes the real hash and then parks, attributed to the logical thread that spawned it; the
// driver starts operations and releases parked hashers one at a time in a seeded order, with synctest.Wait as the
// quiescence barrier. Oracle: a MayContain(k) invoked after an Add(k) RETURNED reports true (no Clear in this arm).

func genC31Interleaved(r *simkit.Rand) *simkit.Plan {
	p := &simkit.Plan{Arm: "interleaved", Knobs: map[string]int64{}}
	nh := r.Range(1, 3)
	p.Knobs["hashers"] = int64(nh)
	p.Knobs["first_hasher"] = int64(r.Intn(3))
	p.Knobs["size"] = int64([]int{nh + 1, r.Range(nh+1, 64), r.Range(64, 4096)}[r.Intn(3)])
	threads := r.Range(2, 3)
	p.Knobs["threads"] = int64(threads)
	nKeys := r.Range(1, 3)
	n := r.Range(4, 16)
	for i := 0; i < n; i++ {
		st := simkit.Step{T: r.Intn(threads), Op: "add"}
		if r.Chance(0.55) {
			st.Op = "mayContain"
		}
		st.B = []simkit.HexBytes{[]byte(fmt.Sprintf("key-%d", r.Intn(nKeys)))}
		p.Steps = append(p.Steps, st)
	}
	sched := simkit.Step{Op: "sched"}
	for i := 0; i < n*(nh+1)+4; i++ {
		sched.I = append(sched.I, int64(r.Intn(720)))
	}
	p.Steps = append(p.Steps, sched)
	return p
}

type parkHasher struct {
	inner hashing.Hasher
	idx   int
	pk    *simkit.Parker
	mu    *sync.Mutex
	owner map[uint64]int // goroutine id of a logical thread -> thread index
}

func (h *parkHasher) Compute(s string) []byte {
	res := h.inner.Compute(s)
	h.mu.Lock()
	t, ok := h.owner[simkit.ParentGoID()]
	h.mu.Unlock()
	if !ok {
		t = -1
	}
	h.pk.Gate(fmt.Sprintf("t%d:h%d", t, h.idx))
	return res
}
func (h *parkHasher) Size() int            { return h.inner.Size() }
func (h *parkHasher) IsInterfaceNil() bool { return h == nil }

type c31op struct {
	step     int
	inv, ret int
	done     bool
	result   bool
}

func execC31Interleaved(c *simkit.Ctx) bool {
	nt := false
	simkit.Bubble(c, func() { nt = runC31Interleaved(c) })
	return nt
}

func runC31Interleaved(c *simkit.Ctx) bool {
	p := c.Plan
	pk := simkit.NewParker()
	var mu sync.Mutex
	owner := map[uint64]int{}
	all := []hashing.Hasher{keccak.NewKeccak(), blake2b.NewBlake2b(), fnv.NewFnv()}
	nh, first := int(p.Knob("hashers", 3)), int(p.Knob("first_hasher", 0))
	hs := []hashing.Hasher{}
	for i := 0; i < nh; i++ {
		hs = append(hs, &parkHasher{inner: all[(first+i)%3], idx: i, pk: pk, mu: &mu, owner: owner})
	}
	b, err := bloom.NewFilter(uint(p.Knob("size", 2048)), hs)
	if err != nil {
		return false
	}
	threads := int(p.Knob("threads", 2))
	queues := make([][]int, threads) // thread -> indexes of its operation steps, in order
	var picks []int64
	for i := range p.Steps {
		st := &p.Steps[i]
		switch st.Op {
		case "add", "mayContain":
			t := st.T % threads
			queues[t] = append(queues[t], i)
		case "sched":
			picks = append(picks, st.I...)
		}
	}
	var ops []*c31op
	busy := make([]*c31op, threads)
	in := make([]chan *c31op, threads)
	action := 0 // global event sequence number: one per driver decision
	for t := 0; t < threads; t++ {
		in[t] = make(chan *c31op)
		ready := make(chan struct{})
		go func(t int) {
			mu.Lock()
			owner[simkit.GoID()] = t
			mu.Unlock()
			close(ready)
			for op := range in[t] {
				st := &p.Steps[op.step]
				if st.Op == "add" {
					b.Add(st.Bytes(0))
				} else {
					op.result = b.MayContain(st.Bytes(0))
				}
				mu.Lock()
				op.ret, op.done = action, true
				mu.Unlock()
			}
		}(t)
		<-ready
	}
	defer func() {
		pk.ReleaseAll()
		for t := range in {
			close(in[t])
		}
	}()
	overlap := false
	judge := func(op *c31op) {
		st := &p.Steps[op.step]
		c.Eventf("return t%d %s %s -> %v (invoked %d, returned %d)", st.T%threads, st.Op, st.Bytes(0), op.result, op.inv, op.ret)
		if st.Op != "mayContain" {
			return
		}
		for _, o := range ops {
			so := &p.Steps[o.step]
			if so.Op != "add" || string(so.Bytes(0)) != string(st.Bytes(0)) {
				continue
			}
			if o.done && o.ret < op.inv && !op.result {
				c.CurStep = op.step
				c.Violate("C31", "false-negative", "MayContain/interleaved", "MayContain(%s) invoked at event %d reports false although Add(%s) had returned at event %d and the filter was never cleared (size %d, %d hashers)",
					st.Bytes(0), op.inv, so.Bytes(0), o.ret, p.Knob("size", 0), nh)
				return
			}
			if o.inv < op.inv && (!o.done || o.ret >= op.inv) {
				overlap = true
			}
		}
	}
	pi := 0
	for guard := 0; guard < 10000; guard++ {
		synctest.Wait()
		mu.Lock()
		for t := range busy {
			if busy[t] != nil && busy[t].done {
				op := busy[t]
				busy[t] = nil
				mu.Unlock()
				judge(op)
				mu.Lock()
			}
		}
		mu.Unlock()
		if c.Failed("C31") {
			break
		}
		waiting := pk.Waiting()
		var startable []int
		for t := range queues {
			if busy[t] == nil && len(queues[t]) > 0 {
				startable = append(startable, t)
			}
		}
		n := len(waiting) + len(startable)
		if n == 0 {
			break
		}
		pick := 0
		if pi < len(picks) {
			pick = int(picks[pi] % int64(n))
			pi++
		}
		mu.Lock()
		action++
		mu.Unlock()
		if pick < len(waiting) {
			c.Eventf("%d release %s", action, waiting[pick].Label)
			pk.Release(pick)
		} else {
			t := startable[pick-len(waiting)]
			op := &c31op{step: queues[t][0], inv: action}
			queues[t] = queues[t][1:]
			ops = append(ops, op)
			busy[t] = op
			st := &p.Steps[op.step]
			c.Eventf("%d invoke t%d %s %s", action, t, st.Op, st.Bytes(0))
			in[t] <- op
		}
		c.StepsDone++
	}
	stuck := false
	for t := range busy {
		if busy[t] != nil {
			stuck = true
		}
	}
	if stuck && !c.Failed("C31") {
		c.HarnessErr("interleaved arm: an operation never returned although nothing is parked")
	}
	// every key whose Add returned is reported by a final sequential query
	pk.SetEnabled(false)
	if !c.Failed("C31") {
		seen := map[string]bool{}
		for _, o := range ops {
			st := &p.Steps[o.step]
			if st.Op != "add" || !o.done || seen[string(st.Bytes(0))] {
				continue
			}
			seen[string(st.Bytes(0))] = true
			if !b.MayContain(st.Bytes(0)) {
				c.CurStep = o.step
				c.Violate("C31", "false-negative", "MayContain/interleaved", "key %s was added (Add returned at event %d), the filter was never cleared, and a final MayContain reports false", st.Bytes(0), o.ret)
				break
			}
		}
	}
	if overlap {
		c.Probe("query_overlaps_add_of_same_key")
	}
	return overlap
}
