// Package cachesim is world W9: ImmunityCache (C27), capacityLRU (C28), headersPool (C29), Bloom (C31).
package cachesim

import (
	"verifsim/simkit"
)

// World implements simkit.World.
type World struct{}

func (World) Name() string         { return "cachesim" }
func (World) Properties() []string { return []string{"C27", "C28", "C29", "C31"} }

func (World) Real(prop string) []string {
	switch prop {
	case "C27":
		return []string{"storage/immunitycache.ImmunityCache", "storage/immunitycache.immunityChunk", "storage/immunitycache.CacheConfig", "dataRetriever/shardedData.shardedData (sharded arm: one immunity cache per cache id, created lazily)"}
	case "C28":
		return []string{"storage/lrucache/capacity.capacityLRU"}
	case "C29":
		return []string{"dataRetriever/dataPool/headersCache.headersPool", "headersCache.headersCache", "headersCache.listOfHeadersByNonces", "data/block.Header"}
	case "C31":
		return []string{"storage/bloom.Bloom", "hashing/blake2b", "hashing/keccak", "hashing/fnv"}
	}
	return nil
}

func (World) Stub(prop string) []string {
	switch prop {
	case "C29":
		return []string{"clock: testing/synctest bubble clock in the sequential arm (LRU timestamps); real clock in the race arm",
			"scheduler: serialised logical threads with //go:norace hand-off (race arm)"}
	case "C31":
		return []string{"scheduler: serialised logical threads with //go:norace hand-off (race arm)",
			"interleaved arm: the hashers the filter is constructed with compute the real hash and then park (simkit.Parker inside a synctest bubble), attributed to the logical thread that spawned them; the driver starts operations and releases hashers one at a time in a seeded order"}
	}
	return []string{"none (single in-memory component; the simulator owns only the operation history and configuration)"}
}

func (World) Assumptions(prop string) []string {
	switch prop {
	case "C27":
		return []string{"per-chunk limit in the oracle is ceil(configured/numChunks) (never below what any rounding of the configured total allows), byte limit with one-item slack on add",
			"chunk membership is read through the verif-tagged accessor VerifChunkIndex/VerifChunkKeys",
			"refusal of a fresh key is legitimate only when the target chunk holds no non-immune item and its immune items reach floor(configured/numChunks)"}
	case "C28":
		return []string{"reference model: 40-line LRU with item and byte limit that never evicts the most recent item; negative sizes are no-ops"}
	case "C29":
		return []string{"race verdict comes from the Go race detector: only races between operations executed in a run are seen",
			"sequential oracle uses the public API only"}
	case "C31":
		return []string{"race arm issues only Add and MayContain concurrently (the property does not promise Clear to be concurrent-safe)",
			"race verdict comes from the Go race detector"}
	}
	return nil
}

func (World) Rule(prop string) string {
	switch prop {
	case "C27":
		return "config drawn from everything CacheConfig.Verify accepts (chunks 1-128, items>=4, bytes>=4, evict step>=1, non-divisible values), 30-300 ops put/hasOrAdd/get/remove/immunize/clear over a key pool; non-trivial = at least one chunk reached its limit (an add had to evict or was refused); a quarter of the runs (arm sharded) drive the cache through dataRetriever/shardedData with 1-3 cache ids (add / immunize, often as the first operation on a cache id / remove / clear / clear store) and judge only the immune-never-evicted clause; distinct = hash of full plan"
	case "C28":
		return "capacity 1-8 items and 1-200 bytes, 20-200 ops addSized/addIfMissing/addAndReturnEvicted/get/peek/contains/remove/purge/keys with sizes -1..300 over <=12 keys; non-trivial = at least one eviction happened; distinct = hash of full plan"
	case "C29":
		return "sequential arm: 20-150 ops over 3 shards (one never added to), nonces 0-6, pool size 2-6, inside a synctest bubble; 40% of the runs are forky (two nonces per shard, so nonces hold several competing headers); race arm: 2-4 logical threads with seeded op lists serialised by a race-detector-invisible hand-off in a -race binary; non-trivial = an eviction or removal happened (seq) / at least two threads touched the pool (race); distinct = hash of full plan"
	case "C31":
		return "sequential arm: filter size from minimum accepted to 4096, 1-3 hashers, add/mayContain/clear; race arm: add||mayContain on 2-4 logical threads in a -race binary; interleaved arm (40% of the non-race runs): 4-16 add/mayContain over 1-3 keys on 2-3 logical threads whose hashing phases overlap in a seeded order, oracle: a MayContain invoked after an Add of the key returned reports true; non-trivial = at least 3 adds and one query (interleaved: a query overlapped an add of the same key); distinct = hash of full plan"
	}
	return ""
}

func (World) NeedsRace(prop string) bool { return prop == "C29" || prop == "C31" }

func (World) Budget(prop, tier string) int {
	q := map[string]int{"C27": 24000, "C28": 60000, "C29": 6000, "C31": 6000}[prop]
	if tier == "thorough" {
		return q * 40
	}
	return q
}

func (World) Generate(r *simkit.Rand, prop, tier string, race bool) *simkit.Plan {
	switch prop {
	case "C27":
		return genC27(r, tier)
	case "C28":
		return genC28(r, tier)
	case "C29":
		return genC29(r, tier, race)
	case "C31":
		return genC31(r, tier, race)
	}
	return nil
}

func (World) Execute(c *simkit.Ctx) bool {
	switch c.Plan.Property {
	case "C27":
		return execC27(c)
	case "C28":
		return execC28(c)
	case "C29":
		return execC29(c)
	case "C31":
		return execC31(c)
	}
	c.HarnessErr("unknown property %s", c.Plan.Property)
	return false
}
