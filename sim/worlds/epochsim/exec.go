package epochsim

import (
	"bytes"
	"fmt"
	"hash/fnv"
	"os"
	"runtime/debug"
	"sort"
	"strings"

	logger "github.com/ElrondNetwork/elrond-go-logger"
	"github.com/ElrondNetwork/elrond-go/config"
	"github.com/ElrondNetwork/elrond-go/core"
	"github.com/ElrondNetwork/elrond-go/data/block"
	"github.com/ElrondNetwork/elrond-go/data/state"
	"github.com/ElrondNetwork/elrond-go/marshal"
	"github.com/ElrondNetwork/elrond-go/sharding"

	"verifsim/simkit"
)

func init() {
	_ = logger.SetLogLevel("*:NONE")
	// a run allocates a few MB of short-lived garbage (JSON registries, list copies); with 16 worker processes of
	// 16 Ps each the default GC pacing spends more time in futex/madvise than in the code under test
	if os.Getenv("GOGC") == "" {
		debug.SetGCPercent(800)
	}
}

// registrySnapshot is the registry as it was when the epoch-start block of the epoch in flight was built: a
// competing block for the same epoch is built from the same state with a different selection of operations.
type registrySnapshot struct {
	lists    *epochLists
	rating   map[string]uint32
	unstaked map[string]bool
	off      map[string]offEntry
	nextID   int
	pending  []int
}

func (w *world) takeSnapshot(lists *epochLists) *registrySnapshot {
	sn := &registrySnapshot{lists: lists, rating: map[string]uint32{}, unstaked: map[string]bool{}, off: map[string]offEntry{},
		nextID: w.nextID, pending: append([]int(nil), w.pending...)}
	for k, v := range w.rating {
		sn.rating[k] = v
	}
	for k, v := range w.unstaked {
		sn.unstaked[k] = v
	}
	for k, v := range w.off {
		sn.off[k] = *v
	}
	return sn
}

func (w *world) restoreSnapshot(sn *registrySnapshot) {
	w.rating, w.unstaked, w.off = map[string]uint32{}, map[string]bool{}, map[string]*offEntry{}
	for k, v := range sn.rating {
		w.rating[k] = v
	}
	for k, v := range sn.unstaked {
		w.unstaked[k] = v
	}
	for k, v := range sn.off {
		e := v
		w.off[k] = &e
	}
	w.nextID = sn.nextID
}

// offEntry is a registered key that is currently in no eligible/waiting list.
type offEntry struct {
	status string // "left", "jailed", "inactive"
	shard  uint32
	index  uint32
}

type epochCall struct {
	node int
	call *shuffleCall
}

type deferredViolation struct {
	step             int
	prop, kind, site string
	msg              string
}

// world is the state of one run.
type world struct {
	c *simkit.Ctx

	// configuration (from knobs)
	nShards       int
	minShard      int
	minMeta       int
	consShard     int
	consMeta      int
	hysteresisPct int
	adaptivity    bool
	crossShard    bool
	fixEpoch      uint32
	balanceEpoch  uint32
	maxNodesCfg   []config.MaxNodesChangeConfig
	rater         bool
	chances       []uint32
	startRating   uint32
	doubleNode    int
	permuteBody   bool
	allowBelowMin bool
	salt          string
	marsh         marshal.Marshalizer

	nodes []*node

	// validator registry (harness model of the staking side)
	rating   map[string]uint32
	unstaked map[string]bool
	off      map[string]*offEntry
	nextID   int
	pending  []int // indices of registry-op steps waiting for the next epoch step

	// epoch in flight
	epoch      uint32
	hdr        *block.MetaBlock
	infos      [][]*state.ShardValidatorInfo // one slice per peer miniblock, canonical order
	noise      bool
	cand       int // index of the current epoch-start candidate of the epoch in flight (0 = first block seen)
	snap       *registrySnapshot
	stuck      bool
	epochCalls []epochCall
	lastGood   *shuffleCall
	history    []*shuffleCall         // first successful coordinator-side UpdateNodeLists call of every epoch, ascending
	veteran    sharding.NodesShuffler // one shuffler instance that serves every veteran replay of the run
	prevShard  map[string]uint32

	deferred []deferredViolation

	// statistics for the non-trivial rule
	stCalls, stCallsWithLeaving, stMoved   int
	stComparedEpochs, stC14Demanded        int
	stGroupsCompared, stC16Checks, stMoves int
}

func (w *world) shardIDs() []uint32 {
	ids := make([]uint32, 0, w.nShards+1)
	for s := 0; s < w.nShards; s++ {
		ids = append(ids, uint32(s))
	}
	return append(ids, metaID)
}

func (w *world) shardSel(v int64) uint32 {
	if v < 0 {
		v = -v
	}
	i := int(v % int64(w.nShards+1))
	if i == w.nShards {
		return metaID
	}
	return uint32(i)
}

func (w *world) minOf(shard uint32) int {
	if shard == metaID {
		return w.minMeta
	}
	return w.minShard
}

func (w *world) consOf(shard uint32) int {
	if shard == metaID {
		return w.consMeta
	}
	return w.consShard
}

func shardName(s uint32) string {
	if s == metaID {
		return "meta"
	}
	return fmt.Sprintf("%d", s)
}

func sortedShardIDs(m map[uint32][]sharding.Validator) []uint32 {
	ids := make([]uint32, 0, len(m))
	for s := range m {
		ids = append(ids, s)
	}
	sort.Slice(ids, func(i, j int) bool { return ids[i] < ids[j] })
	return ids
}

func sortedVlistShards(m map[uint32]vlist) []uint32 {
	ids := make([]uint32, 0, len(m))
	for s := range m {
		ids = append(ids, s)
	}
	sort.Slice(ids, func(i, j int) bool { return ids[i] < ids[j] })
	return ids
}

func (w *world) keyOf(id int) string { return fmt.Sprintf("%sv%03d", w.salt, id) }

func (w *world) chanceOfRating(r uint32) uint32 {
	if !w.rater {
		return 1
	}
	return (&chanceTable{t: w.chances}).GetChance(r)
}

// ---- set-up ----------------------------------------------------------------------------------------

func newWorld(c *simkit.Ctx) (*world, error) {
	p := c.Plan
	w := &world{c: c, marsh: &marshal.GogoProtoMarshalizer{},
		rating: map[string]uint32{}, unstaked: map[string]bool{}, off: map[string]*offEntry{}, prevShard: map[string]uint32{}}
	w.nShards = int(p.Knob("shards", 1))
	w.minShard = int(p.Knob("min_shard", 2))
	w.minMeta = int(p.Knob("min_meta", 2))
	w.consShard = int(p.Knob("cons_shard", 1))
	w.consMeta = int(p.Knob("cons_meta", 1))
	w.hysteresisPct = int(p.Knob("hysteresis_pct", 0))
	w.adaptivity = p.Knob("adaptivity", 0) == 1
	w.crossShard = p.Knob("cross_shard", 1) == 1
	w.fixEpoch = uint32(p.Knob("fix_epoch", 0))
	w.balanceEpoch = uint32(p.Knob("balance_epoch", 0))
	w.rater = p.Knob("rater", 0) == 1
	w.startRating = uint32(p.Knob("start_rating", 5))
	w.doubleNode = int(p.Knob("double_node", 0))
	w.permuteBody = p.Knob("permute_body", 1) == 1
	w.allowBelowMin = p.Knob("allow_below_min", 0) == 1
	w.salt = fmt.Sprintf("%02x", p.Knob("key_salt", 0)&0xff)
	if w.nShards < 1 || w.nShards > 8 || w.minShard < 1 || w.minMeta < 1 || w.consShard < 1 || w.consMeta < 1 {
		return nil, fmt.Errorf("bad knobs")
	}
	for i := 0; i < 10; i++ {
		w.chances = append(w.chances, uint32(p.Knob(fmt.Sprintf("chance_%d", i), 1)))
	}
	for i := 0; i < int(p.Knob("maxnodes_n", 0)); i++ {
		w.maxNodesCfg = append(w.maxNodesCfg, config.MaxNodesChangeConfig{
			EpochEnable:            uint32(p.Knob(fmt.Sprintf("maxnodes_epoch_%d", i), 0)),
			MaxNumNodes:            uint32(p.Knob(fmt.Sprintf("maxnodes_max_%d", i), 100)),
			NodesToShufflePerShard: uint32(p.Knob(fmt.Sprintf("maxnodes_shuffle_%d", i), 1)),
		})
	}

	// genesis population
	eligible := map[uint32][]sharding.Validator{}
	waiting := map[uint32][]sharding.Validator{}
	for si, s := range w.shardIDs() {
		ne := int(p.Knob(fmt.Sprintf("elig_%d", si), int64(w.minOf(s))))
		nw := int(p.Knob(fmt.Sprintf("wait_%d", si), 0))
		if ne < w.consOf(s) {
			ne = w.consOf(s)
		}
		eligible[s], waiting[s] = []sharding.Validator{}, []sharding.Validator{}
		for i := 0; i < ne; i++ {
			k := w.keyOf(w.nextID)
			w.nextID++
			v, _ := sharding.NewValidator([]byte(k), 1, uint32(i))
			eligible[s] = append(eligible[s], v)
			w.rating[k] = w.startRating
			w.prevShard[k] = s
		}
		for i := 0; i < nw; i++ {
			k := w.keyOf(w.nextID)
			w.nextID++
			v, _ := sharding.NewValidator([]byte(k), 1, uint32(i))
			waiting[s] = append(waiting[s], v)
			w.rating[k] = w.startRating
			w.prevShard[k] = s
		}
	}

	nNodes := int(p.Knob("nodes", 2))
	if nNodes < 1 || nNodes > 8 {
		return nil, fmt.Errorf("bad node count")
	}
	capOne := int(p.Knob("cap1_node", 0))
	for i := 0; i < nNodes; i++ {
		n := &node{id: i, alive: true, putFailed: map[string]bool{}}
		n.disk = simkit.NewSimDisk(fmt.Sprintf("boot-%d", i), c)
		self := p.Knob(fmt.Sprintf("self_%d", i), -1)
		if self >= 0 {
			n.selfKey = []byte(w.keyOf(int(self)))
		} else {
			n.selfKey = []byte(fmt.Sprintf("%sobserver%d", w.salt, i))
		}
		n.obsShard = w.shardSel(p.Knob(fmt.Sprintf("obs_shard_%d", i), int64(i)))
		n.cacheCap = int(p.Knob("cache_cap", 50))
		if i == capOne {
			n.cacheCap = 1
		}
		if n.cacheCap < 1 {
			n.cacheCap = 1
		}
		n.bootCap = int(p.Knob("boot_cap", 4))
		if n.bootCap < 1 {
			n.bootCap = 1
		}
		if err := w.buildCoordinator(n, 0, permutedMap(eligible, i, i%2 == 1), permutedMap(waiting, i+1, i%2 == 0)); err != nil {
			return nil, fmt.Errorf("node %d: %w", i, err)
		}
		n.keyNow = append([]byte(nil), n.coord.GetSavedStateKey()...)
		w.nodes = append(w.nodes, n)
	}
	return w, nil
}

// ---- reading a node ----------------------------------------------------------------------------------

func toVlistMap(m map[uint32][][]byte) map[uint32]vlist {
	out := make(map[uint32]vlist, len(m))
	for s, l := range m {
		vl := make(vlist, len(l))
		for i, k := range l {
			vl[i] = string(k)
		}
		out[s] = vl
	}
	return out
}

type epochLists struct{ eligible, waiting, leaving map[uint32]vlist }

func (w *world) listsOf(n *node, epoch uint32) (*epochLists, bool) {
	el, err := n.coord.GetAllEligibleValidatorsPublicKeys(epoch)
	if err != nil {
		return nil, false
	}
	wa, err := n.coord.GetAllWaitingValidatorsPublicKeys(epoch)
	if err != nil {
		return nil, false
	}
	le, err := n.coord.GetAllLeavingValidatorsPublicKeys(epoch)
	if err != nil {
		return nil, false
	}
	return &epochLists{toVlistMap(el), toVlistMap(wa), toVlistMap(le)}, true
}

func (w *world) knows(n *node, epoch uint32) bool {
	_, err := n.coord.GetAllEligibleValidatorsPublicKeys(epoch)
	return err == nil
}

func dumpLists(ids []uint32, el, wa, le map[uint32]vlist) string {
	var sb strings.Builder
	for _, s := range ids {
		fmt.Fprintf(&sb, "%s:E%q W%q L%q; ", shardName(s), []string(el[s]), []string(wa[s]), []string(le[s]))
	}
	return sb.String()
}

func dumpFlat(ids []uint32, el, wa map[uint32]vlist, le vlist) string {
	var sb strings.Builder
	for _, s := range ids {
		fmt.Fprintf(&sb, "%s:E%q W%q; ", shardName(s), []string(el[s]), []string(wa[s]))
	}
	fmt.Fprintf(&sb, "L%q", []string(le))
	return sb.String()
}

func unionShards(ms ...map[uint32]vlist) []uint32 {
	seen := map[uint32]bool{}
	for _, m := range ms {
		for s := range m {
			seen[s] = true
		}
	}
	ids := make([]uint32, 0, len(seen))
	for s := range seen {
		ids = append(ids, s)
	}
	sort.Slice(ids, func(i, j int) bool { return ids[i] < ids[j] })
	return ids
}

func (sc *shuffleCall) argsDump() string {
	ids := unionShards(sc.eligible, sc.waiting)
	return fmt.Sprintf("ep=%d nb=%d rand=%x %s N%q U%q A%q", sc.epoch, sc.nbShards, sc.rand,
		dumpFlat(ids, sc.eligible, sc.waiting, nil), []string(sc.newNodes), []string(sc.unstake), []string(sc.additional))
}

func (sc *shuffleCall) resDump() string {
	if sc.err != nil {
		return "error: " + sc.err.Error()
	}
	return dumpFlat(unionShards(sc.rEligible, sc.rWaiting), sc.rEligible, sc.rWaiting, sc.rLeaving)
}

func hashStr(s string) uint64 {
	h := fnv.New64a()
	h.Write([]byte(s))
	return h.Sum64()
}

// holdsCurrent: the node holds the epoch in flight as computed from the candidate that becomes final.
func (w *world) holdsCurrent(n *node) bool {
	if !n.alive || !w.knows(n, w.epoch) {
		return false
	}
	return w.epoch == 0 || n.lastAction >= w.epoch || (n.lastPrepared == w.epoch && n.preparedCand == w.cand)
}

func (w *world) refNode() *node {
	for _, n := range w.nodes {
		if w.holdsCurrent(n) {
			return n
		}
	}
	return nil
}

// ---- registry -> validator info of the next epoch -----------------------------------------------------

type infoRow struct {
	key    string
	shard  uint32
	list   string
	index  uint32
	listed bool // currently eligible or waiting on the reference node
}

// buildInfos derives the validator info of the next epoch from the reference node's lists of the
// current epoch (shard, list and index of every listed key are exactly the previous result: that is the
// "consistent with the previous epoch" precondition) plus the pending registry operations. Every key
// gets exactly one entry.
func (w *world) buildInfos(ref *epochLists) [][]*state.ShardValidatorInfo {
	c := w.c
	rows := map[string]*infoRow{}
	var order []string
	add := func(r *infoRow) {
		if _, dup := rows[r.key]; dup {
			c.HarnessErr("registry produced key %q twice", r.key)
			return
		}
		rows[r.key] = r
		order = append(order, r.key)
	}
	elig := map[uint32]vlist{}
	wait := map[uint32]vlist{}
	remaining := map[uint32]int{}     // eligible+waiting entries still listed, per shard
	remainingElig := map[uint32]int{} // entries that will be put in the eligible map
	for _, s := range w.shardIDs() {
		elig[s], wait[s] = ref.eligible[s], ref.waiting[s]
		for i, k := range elig[s] {
			delete(w.off, k)
			list := string(core.EligibleList)
			if w.unstaked[k] {
				list = string(core.LeavingList)
			}
			add(&infoRow{key: k, shard: s, list: list, index: uint32(i), listed: true})
		}
		for i, k := range wait[s] {
			delete(w.off, k)
			list := string(core.WaitingList)
			if w.unstaked[k] {
				list = string(core.LeavingList)
			}
			add(&infoRow{key: k, shard: s, list: list, index: uint32(i), listed: true})
		}
		remaining[s] = len(elig[s]) + len(wait[s])
		remainingElig[s] = len(elig[s])
	}
	// keys that left in the epoch just finished are off-list from now on (peer accounts become inactive/jailed)
	for _, s := range sortedVlistShards(ref.leaving) {
		for i, k := range ref.leaving[s] {
			if _, listed := rows[k]; listed {
				continue
			}
			st := "inactive"
			if w.rater && w.chanceOfRating(w.rating[k]) < w.chanceOfRating(0) {
				st = "jailed"
			}
			if _, known := w.off[k]; !known {
				w.off[k] = &offEntry{status: st, shard: s, index: uint32(i)}
			}
			delete(w.unstaked, k)
		}
	}
	offKeys := make([]string, 0, len(w.off))
	for k := range w.off {
		offKeys = append(offKeys, k)
	}
	sort.Strings(offKeys)
	for _, k := range offKeys {
		e := w.off[k]
		list := string(core.InactiveList)
		if e.status == "jailed" {
			list = string(core.JailedList)
		}
		add(&infoRow{key: k, shard: e.shard, list: list, index: e.index})
	}

	newCount := uint32(0)
	var newKeys []string
	pick := func(cat int64, shard uint32, idx int64) *infoRow {
		if idx < 0 {
			idx = -idx
		}
		var pool vlist
		switch cat {
		case 0:
			pool = elig[shard]
		case 1:
			pool = wait[shard]
		case 2:
			pool = newKeys
		default:
			pool = offKeys
		}
		if len(pool) == 0 {
			return nil
		}
		return rows[pool[int(idx%int64(len(pool)))]]
	}
	for _, si := range w.pending {
		st := &c.Plan.Steps[si]
		c.CurStep = si
		switch st.Op {
		case "register":
			k := w.keyOf(w.nextID)
			w.nextID++
			w.rating[k] = w.startRating
			add(&infoRow{key: k, shard: w.shardSel(st.Int(0, 0)), list: string(core.NewList), index: newCount})
			newCount++
			newKeys = append(newKeys, k)
			c.Probe("op-register")
		case "unstake":
			r := pick(st.Int(0, 0), w.shardSel(st.Int(1, 0)), st.Int(2, 0))
			if r == nil || r.list == string(core.LeavingList) {
				c.Probe("op-unstake-noop")
				continue
			}
			switch {
			case r.listed:
				if r.list != string(core.EligibleList) && r.list != string(core.WaitingList) {
					continue
				}
				w.unstaked[r.key] = true
				c.Probe("op-unstake-listed")
			case r.list == string(core.NewList):
				c.Probe("op-unstake-new-key")
			default:
				c.Probe("op-unstake-off-list-key")
			}
			r.list = string(core.LeavingList)
		case "jail", "inactive":
			r := pick(st.Int(0, 0)%2, w.shardSel(st.Int(1, 0)), st.Int(2, 0))
			if r == nil || !r.listed || (r.list != string(core.EligibleList) && r.list != string(core.WaitingList)) {
				continue
			}
			if !w.allowBelowMin && remaining[r.shard]-1 < w.minOf(r.shard) {
				c.Probe("op-jail-refused-min")
				continue
			}
			if r.list == string(core.EligibleList) && remainingElig[r.shard]-1 < 1 {
				// a shard never loses all its eligible entries at once (the coordinator would count one shard less)
				c.Probe("op-jail-refused-last-eligible")
				continue
			}
			remaining[r.shard]--
			if r.list == string(core.EligibleList) {
				remainingElig[r.shard]--
			}
			if st.Op == "jail" {
				r.list = string(core.JailedList)
				w.off[r.key] = &offEntry{status: "jailed", shard: r.shard, index: r.index}
			} else {
				r.list = string(core.InactiveList)
				w.off[r.key] = &offEntry{status: "inactive", shard: r.shard, index: r.index}
			}
			delete(w.unstaked, r.key)
			c.Probe("op-" + st.Op)
		case "rating":
			r := pick(st.Int(0, 0)%2, w.shardSel(st.Int(1, 0)), st.Int(2, 0))
			if r == nil || !r.listed {
				continue
			}
			nr := st.Int(3, 0)
			if nr < 0 {
				nr = 0
			}
			w.rating[r.key] = uint32(nr % 10)
			c.Probe("op-rating")
		case "restake":
			r := pick(3, 0, st.Int(0, 0))
			if r == nil || r.listed || (r.list != string(core.InactiveList) && r.list != string(core.JailedList)) {
				continue
			}
			r.list = string(core.NewList)
			r.index = newCount
			newCount++
			w.rating[r.key] = w.startRating
			delete(w.off, r.key)
			delete(w.unstaked, r.key)
			c.Probe("op-restake")
		}
	}
	w.pending = w.pending[:0]

	// one peer miniblock per shard, entries sorted by public key (as validatorInfoCreator does)
	perShard := map[uint32][]*state.ShardValidatorInfo{}
	sort.Strings(order)
	for _, k := range order {
		r := rows[k]
		perShard[r.shard] = append(perShard[r.shard], &state.ShardValidatorInfo{
			PublicKey: []byte(r.key), ShardId: r.shard, List: r.list, Index: r.index, TempRating: w.rating[r.key],
		})
	}
	var out [][]*state.ShardValidatorInfo
	for _, s := range w.shardIDs() {
		if len(perShard[s]) > 0 {
			out = append(out, perShard[s])
		}
	}
	return out
}

// bodyFor builds the block body delivered to one node. With seed != 0 the peer miniblocks (one per shard)
// come in a permuted order, so that the coordinator inserts the shards into its input maps in another
// order; the entries inside a miniblock keep their order (all nodes of a real network see the same
// sequence of entries per shard, and the order of a list is part of the input, not of how a map is built).
func (w *world) bodyFor(seed int64) *block.Body {
	body := &block.Body{}
	mbs := make([][]*state.ShardValidatorInfo, len(w.infos))
	copy(mbs, w.infos)
	var r *simkit.Rand
	if seed != 0 && w.permuteBody {
		r = simkit.NewRand(uint64(seed))
		perm := r.Perm(len(mbs))
		shuffled := make([][]*state.ShardValidatorInfo, len(mbs))
		for i, j := range perm {
			shuffled[i] = mbs[j]
		}
		mbs = shuffled
	}
	if w.noise {
		body.MiniBlocks = append(body.MiniBlocks, &block.MiniBlock{Type: block.TxBlock, TxHashes: [][]byte{[]byte("not a validator info")}})
	}
	for _, infos := range mbs {
		mb := &block.MiniBlock{Type: block.PeerBlock, SenderShardID: metaID, ReceiverShardID: infos[0].ShardId}
		for i := range infos {
			b, err := w.marsh.Marshal(infos[i])
			if err != nil {
				w.c.HarnessErr("marshal validator info: %v", err)
				continue
			}
			mb.TxHashes = append(mb.TxHashes, b)
		}
		body.MiniBlocks = append(body.MiniBlocks, mb)
	}
	return body
}

// ---- deliveries ----------------------------------------------------------------------------------------

func (w *world) deliverPrepare(n *node, seed int64, fault string, faultAt int) {
	c := w.c
	if n.lastPrepared < w.epoch {
		n.keyBeforePrep = n.keyNow
	}
	before := len(n.shuffler.calls)
	putsFailed := c.Faults["put_error"]
	if fault == "put_error" {
		n.disk.Arm(fault, faultAt)
	}
	n.coord.EpochStartPrepare(w.hdr, w.bodyFor(seed))
	n.disk.Disarm()
	failed := c.Faults["put_error"] > putsFailed
	c.StepsDone++
	computed := false
	for _, sc := range n.shuffler.calls[before:] {
		w.epochCalls = append(w.epochCalls, epochCall{node: n.id, call: sc})
		w.observeCall(sc, "EpochStartPrepare")
		if sc.err == nil {
			computed = true
			w.lastGood = sc
			if len(w.history) == 0 || w.history[len(w.history)-1].epoch < sc.epoch {
				w.history = append(w.history, sc)
			}
		} else {
			c.Probe("shuffler-returned-error")
		}
	}
	if computed {
		key := append([]byte(nil), n.coord.GetSavedStateKey()...)
		n.keyNow = key
		n.putFailed[string(key)] = failed
		if failed {
			c.Probe("save-failed-in-prepare")
		}
	}
	if !computed && n.lastPrepared == w.epoch && n.preparedCand != w.cand {
		c.Probe("competing-candidate-refused-node-keeps-abandoned-one")
	}
	if computed && w.knows(n, w.epoch) {
		if n.computedEpoch == w.epoch {
			c.Probe("prepare-delivered-again")
		}
		if n.lastPrepared == w.epoch && n.preparedCand != w.cand {
			c.Probe("prepare-of-competing-candidate-after-another")
		}
		n.preparedCand = w.cand
		n.lastPrepared = w.epoch
		n.computedEpoch = w.epoch
		n.prepCount++
		w.oracleC16(n)
	}
	c.Eventf("prepare epoch=%d cand=%d node=%d inc=%d seed=%d calls=%d known=%v putfail=%v", w.epoch, w.cand, n.id, n.incarnation, seed, len(n.shuffler.calls)-before, w.knows(n, w.epoch), failed)
}

func (w *world) deliverAction(n *node, fault string, faultAt int) {
	c := w.c
	putsFailed := c.Faults["put_error"]
	if fault == "put_error" {
		n.disk.Arm(fault, faultAt)
	}
	if n.lastAction == w.epoch {
		c.Probe("action-delivered-again")
	}
	n.coord.EpochStartAction(w.hdr)
	n.disk.Disarm()
	failed := c.Faults["put_error"] > putsFailed
	c.StepsDone++
	n.lastAction = w.epoch
	key := append([]byte(nil), n.coord.GetSavedStateKey()...)
	n.keyNow = key
	n.putFailed[string(key)] = failed
	if failed {
		c.Probe("save-failed-in-action")
	}
	c.Eventf("action epoch=%d node=%d putfail=%v", w.epoch, n.id, failed)
}

func (w *world) restart(n *node, useOldKey bool, fault string, faultAt int) {
	c := w.c
	key := n.keyNow
	rolledBack := false
	if useOldKey && n.lastPrepared > n.lastAction && n.keyBeforePrep != nil {
		// no block was committed since the last Prepare: the bootstrap data still names the older key
		key = n.keyBeforePrep
		rolledBack = true
		c.Probe("restart-with-key-from-before-prepare")
	}
	if n.lastPrepared > n.lastAction {
		c.Probe("restart-between-prepare-and-action")
	}
	getsFailed := c.Faults["get_error"]
	if fault == "get_error" {
		n.disk.Arm(fault, faultAt)
	}
	err := w.restartNode(n, key)
	n.disk.Disarm()
	if err != nil && c.Faults["get_error"] > getsFailed {
		c.Probe("restart-load-failed-then-retried")
		c.Eventf("restart node=%d failed under get_error: retry", n.id)
		err = w.restartNode(n, key)
	}
	c.StepsDone++
	if err != nil {
		if n.putFailed[string(key)] {
			// the last save under this key failed (the code only logs that): the node cannot come back from storage
			n.alive = false
			c.Probe("node-down-after-failed-save")
			c.Eventf("restart node=%d: state lost after failed save, node leaves the run", n.id)
			return
		}
		c.HarnessErr("restart of node %d failed without an injected fault: %v", n.id, err)
		n.alive = false
		return
	}
	n.keyNow = append([]byte(nil), key...) // the bootstrap data keeps naming the key the node came back from
	if rolledBack {
		n.lastPrepared = n.lastAction
	}
	if n.lastPrepared == w.epoch && w.hdr != nil && n.lastAction < w.epoch {
		// the loaded state is the last successful save under the key, i.e. the candidate of the node's last Prepare;
		// when that save failed an older candidate with the same PrevRandSeed may be what was loaded
		if n.putFailed[string(key)] {
			n.preparedCand = -1
		}
	}
	reg := n.coord.NodesCoordinatorToRegistry()
	stale := reg.CurrentEpoch != n.lastAction || !w.knows(n, n.lastPrepared)
	if stale {
		if n.putFailed[string(key)] {
			n.alive = false
			c.Probe("node-down-after-failed-save")
			c.Eventf("restart node=%d: stale state after failed save, node leaves the run", n.id)
			return
		}
		c.Probe("restart-stale-state-without-fault")
	}
	c.Probe("restart")
	c.Eventf("restart node=%d inc=%d epoch=%d prepared=%d action=%d rolledback=%v", n.id, n.incarnation, reg.CurrentEpoch, n.lastPrepared, n.lastAction, rolledBack)
}

// finishEpoch completes the deliveries of the epoch in flight on every live node and runs the
// cross-node oracle.
func (w *world) finishEpoch() {
	c := w.c
	if w.epoch == 0 || w.stuck {
		return
	}
	for _, n := range w.nodes {
		if !n.alive {
			continue
		}
		if n.lastAction < w.epoch && (n.lastPrepared < w.epoch || n.preparedCand != w.cand) {
			w.deliverPrepare(n, 0, "", 0)
		}
		if n.id == w.doubleNode && n.lastAction < w.epoch && n.lastPrepared == w.epoch && n.prepCount < 2 {
			w.deliverPrepare(n, int64(w.epoch)*7919+int64(n.id)+1, "", 0)
		}
		if n.lastAction < w.epoch && n.lastPrepared == w.epoch && n.preparedCand == w.cand {
			w.deliverAction(n, "", 0)
		}
		if c.Failed(c.Plan.Property) {
			return
		}
	}
	ref := w.refNode()
	if ref == nil {
		w.stuck = true
		c.Probe("epoch-not-computed-world-stops")
		c.Eventf("epoch %d: no live node holds the epoch (shuffler or coordinator refused the input); run ends", w.epoch)
		return
	}
	w.oracleC13(ref)
	lists, _ := w.listsOf(ref, w.epoch)
	ids := w.shardIDs()
	d := dumpLists(ids, lists.eligible, lists.waiting, lists.leaving)
	c.FP("epoch", d)
	moves := 0
	for _, s := range ids {
		for _, l := range []vlist{lists.eligible[s], lists.waiting[s]} {
			for _, k := range l {
				if ps, ok := w.prevShard[k]; ok && ps != s {
					moves++
				}
				w.prevShard[k] = s
			}
		}
	}
	w.stMoves += moves
	sizes := ""
	for _, s := range ids {
		sizes += fmt.Sprintf("%s=%d/%d/%d ", shardName(s), len(lists.eligible[s]), len(lists.waiting[s]), len(lists.leaving[s]))
	}
	c.Eventf("epoch %d done ref=%d sizes(e/w/l) %s moved=%d dump=%016x", w.epoch, ref.id, sizes, moves, hashStr(d))
}

// ---- steps ------------------------------------------------------------------------------------------------

func (w *world) nodeOf(st *simkit.Step) *node {
	if len(w.nodes) == 0 {
		return nil
	}
	t := st.T
	if t < 0 {
		t = -t
	}
	return w.nodes[t%len(w.nodes)]
}

func (w *world) step(i int) {
	c := w.c
	st := &c.Plan.Steps[i]
	c.CurStep = i
	switch st.Op {
	case "register", "unstake", "jail", "inactive", "rating", "restake":
		w.pending = append(w.pending, i)
	case "epoch":
		if w.stuck {
			return
		}
		w.finishEpoch()
		if w.stuck || c.Failed(c.Plan.Property) {
			return
		}
		c.CurStep = i
		ref := w.refNode()
		if ref == nil {
			w.stuck = true
			return
		}
		lists, _ := w.listsOf(ref, w.epoch)
		w.snap = w.takeSnapshot(lists)
		w.infos = w.buildInfos(lists)
		c.CurStep = i
		w.epoch++
		rnd := st.Bytes(0)
		if len(rnd) == 0 {
			rnd = []byte(fmt.Sprintf("rand-%d", w.epoch))
		}
		w.noise = st.Int(0, 0) == 1
		w.hdr = &block.MetaBlock{Epoch: w.epoch, Nonce: uint64(w.epoch) * 10, Round: uint64(w.epoch) * 10, PrevRandSeed: rnd,
			EpochStart: block.EpochStart{LastFinalizedHeaders: []block.EpochStartShardData{{ShardID: 0, Epoch: w.epoch}}}}
		w.epochCalls = w.epochCalls[:0]
		w.cand = 0
		for _, n := range w.nodes {
			n.prepCount = 0
			n.preparedCand = 0
		}
		nInfos := 0
		for _, mb := range w.infos {
			nInfos += len(mb)
		}
		c.Eventf("epoch %d starts: rand=%x infos=%d fix=%v balanced=%v", w.epoch, rnd, nInfos, w.epoch >= w.fixEpoch, w.epoch >= w.balanceEpoch)
	case "candidate":
		// a competing epoch-start block for the SAME new epoch, built on the same previous epoch; from now on this
		// is the candidate that will become final. Impossible once a node has committed the epoch. It differs from
		// the current candidate in its PrevRandSeed (B[0] given: another parent block) and/or in its validator info
		// (I[0]=1: the registry operations queued since the epoch step are added to the selection the block applies
		// to the SAME previous-epoch state; same parent => same PrevRandSeed).
		rnd := st.Bytes(0)
		if w.stuck || w.epoch == 0 || w.hdr == nil || w.snap == nil {
			return
		}
		newRand := len(rnd) > 0 && !bytes.Equal(rnd, w.hdr.PrevRandSeed)
		newInfo := st.Int(0, 0) == 1 && len(w.pending) > 0
		if !newRand && !newInfo {
			return
		}
		for _, n := range w.nodes {
			if n.alive && n.lastAction >= w.epoch {
				return
			}
		}
		w.cand++
		hdr := *w.hdr
		if newRand {
			hdr.PrevRandSeed = rnd
		}
		hdr.Round++
		w.hdr = &hdr
		nInfos := 0
		if newInfo {
			extra := append([]int(nil), w.pending...)
			w.restoreSnapshot(w.snap)
			w.pending = append(append([]int(nil), w.snap.pending...), extra...)
			w.infos = w.buildInfos(w.snap.lists)
			c.CurStep = i
			c.Probe("competing-candidate-with-other-validator-info")
			if !newRand {
				c.Probe("competing-candidate-same-randomness-other-validator-info")
			}
		}
		for _, mb := range w.infos {
			nInfos += len(mb)
		}
		for _, n := range w.nodes {
			n.prepCount = 0
		}
		c.Probe("competing-epoch-start-candidate")
		c.Eventf("epoch %d: competing candidate %d rand=%x newrand=%v newinfo=%v infos=%d", w.epoch, w.cand, hdr.PrevRandSeed, newRand, newInfo, nInfos)
	case "prepare":
		n := w.nodeOf(st)
		if w.stuck || w.epoch == 0 || n == nil || !n.alive || n.lastAction >= w.epoch {
			return
		}
		if n.lastPrepared == w.epoch {
			c.Probe("duplicate-prepare")
		}
		w.deliverPrepare(n, st.Int(0, 0), st.Fault, st.FaultAt)
	case "action":
		n := w.nodeOf(st)
		if w.stuck || w.epoch == 0 || n == nil || !n.alive || n.lastPrepared != w.epoch || n.preparedCand != w.cand {
			return // the block that becomes final is the current candidate: a node commits it only after preparing it
		}
		if n.lastAction == w.epoch {
			c.Probe("duplicate-action")
		}
		w.deliverAction(n, st.Fault, st.FaultAt)
	case "restart":
		n := w.nodeOf(st)
		if w.stuck || n == nil || !n.alive {
			return
		}
		w.restart(n, st.Int(0, 0) == 1, st.Fault, st.FaultAt)
	case "sample":
		if w.stuck {
			return
		}
		w.sample(st)
	case "direct":
		if w.stuck {
			return
		}
		w.direct(st)
	}
}

func execute(c *simkit.Ctx) bool {
	w, err := newWorld(c)
	if err != nil {
		c.HarnessErr("world set-up: %v", err)
		return false
	}
	prop := c.Plan.Property
	for i := range c.Plan.Steps {
		w.step(i)
		if c.Failed(prop) || c.Harness != "" {
			break
		}
	}
	if !c.Failed(prop) && c.Harness == "" {
		c.CurStep = len(c.Plan.Steps) - 1
		w.finishEpoch()
	}
	// violations whose emission was postponed so that they cannot mask another kind of the same property
	for _, d := range w.deferred {
		c.CurStep = d.step
		c.Violate(d.prop, d.kind, d.site, "%s", d.msg)
	}
	switch prop {
	case "C12":
		return w.stCalls >= 2 && w.stCallsWithLeaving >= 1
	case "C13":
		return w.stComparedEpochs >= 2 && w.stMoved >= 1
	case "C14":
		return w.stC14Demanded >= 1
	case "C15":
		return w.stGroupsCompared >= 4
	case "C16":
		return w.stC16Checks >= 2 && w.stMoves >= 1
	}
	return false
}
