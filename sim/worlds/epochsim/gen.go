package epochsim

import (
	"fmt"

	"verifsim/simkit"
)

func pick(r *simkit.Rand, vals ...int) int { return vals[r.Intn(len(vals))] }

func generate(r *simkit.Rand, prop string) *simkit.Plan {
	p := &simkit.Plan{Knobs: map[string]int64{}}
	k := p.Knobs
	set := func(name string, v int) { k[name] = int64(v) }

	p.Arm = []string{"faultfree", "schedule", "diskfaults"}[r.Weighted([]int{3, 4, 3})]

	shards := r.Range(1, 3)
	nodes := r.Range(2, 4)
	set("shards", shards)
	set("nodes", nodes)
	minShard, minMeta := r.Range(1, 5), r.Range(1, 5)
	set("min_shard", minShard)
	set("min_meta", minMeta)
	consShard, consMeta := r.Range(1, minShard), r.Range(1, minMeta)
	if r.Chance(0.3) {
		consShard, consMeta = minShard, minMeta // group = whole minimum list
	}
	set("cons_shard", consShard)
	set("cons_meta", consMeta)
	total := 0
	for si := 0; si <= shards; si++ {
		m, cons := minShard, consShard
		if si == shards {
			m, cons = minMeta, consMeta
		}
		lo := m
		if lo < 2 {
			lo = 2
		}
		t := r.Range(lo, 12)
		if r.Chance(0.4) {
			t = r.Range(lo, lo+3)
		}
		if t > 12 {
			t = 12
		}
		e := m
		switch r.Weighted([]int{6, 3, 1}) {
		case 1:
			e = r.Range(cons, t)
		case 2:
			e = t
		}
		if e > t {
			e = t
		}
		set(fmt.Sprintf("elig_%d", si), e)
		set(fmt.Sprintf("wait_%d", si), t-e)
		total += t
	}

	epochs := r.Range(3, 6)
	if r.Chance(0.3) {
		epochs = r.Range(7, 10)
	}
	epochKnob := func(biasActive bool) int {
		w := []int{4, 4, 2}
		if biasActive {
			w = []int{7, 3, 1}
		}
		switch r.Weighted(w) {
		case 0:
			return 0
		case 1:
			return r.Range(1, epochs)
		}
		return epochs + 5
	}
	set("fix_epoch", epochKnob(prop == "C14"))
	set("balance_epoch", epochKnob(false))
	set("hysteresis_pct", pick(r, 0, 0, 20, 50, 100))
	set("adaptivity", r.Intn(10)/7)
	set("cross_shard", 1-r.Intn(4)/3)
	// max-nodes change configs: 0-3 entries, enable epochs in and around the simulated range (the first one
	// often > 0, so that early epochs run on the default), shuffle caps from 1 up to a whole shard
	nCfg := pick(r, 0, 0, 1, 2, 3)
	if prop == "C13" {
		nCfg = pick(r, 0, 1, 1, 2, 3)
	}
	set("maxnodes_n", nCfg)
	for i := 0; i < nCfg; i++ {
		en := r.Range(0, epochs+1)
		if i == 0 && r.Chance(0.6) {
			en = r.Range(1, epochs)
		}
		set(fmt.Sprintf("maxnodes_epoch_%d", i), en)
		set(fmt.Sprintf("maxnodes_max_%d", i), 100)
		sh := r.Range(1, 12)
		switch r.Intn(10) {
		case 0:
			sh = 0
		case 1, 2, 3, 4:
			sh = r.Range(1, 3)
		}
		set(fmt.Sprintf("maxnodes_shuffle_%d", i), sh)
	}
	raterP := 0.5
	if prop == "C15" {
		raterP = 0.7
	}
	rater := r.Chance(raterP)
	if rater {
		set("rater", 1)
	} else {
		set("rater", 0)
	}
	c0 := r.Range(1, 5)
	set("chance_0", c0)
	set("chance_1", r.Range(0, c0))
	set("chance_2", r.Range(0, c0))
	for i := 3; i < 10; i++ {
		switch r.Intn(4) {
		case 0:
			set(fmt.Sprintf("chance_%d", i), c0)
		case 1:
			set(fmt.Sprintf("chance_%d", i), 50)
		default:
			set(fmt.Sprintf("chance_%d", i), r.Range(c0, 50))
		}
	}
	set("start_rating", r.Range(3, 9))
	set("double_node", r.Intn(nodes))
	set("cap1_node", r.Intn(nodes))
	set("cache_cap", pick(r, 2, 5, 50, 1000))
	set("boot_cap", r.Range(1, 8))
	set("permute_body", r.Intn(10)/3)
	if k["permute_body"] > 1 {
		k["permute_body"] = 1
	}
	if r.Chance(0.06) {
		set("allow_below_min", 1)
	} else {
		set("allow_below_min", 0)
	}
	set("key_salt", r.Intn(256))
	for i := 0; i < nodes; i++ {
		if r.Chance(0.6) {
			set(fmt.Sprintf("self_%d", i), r.Intn(total))
		} else {
			set(fmt.Sprintf("self_%d", i), -1)
		}
		set(fmt.Sprintf("obs_shard_%d", i), r.Intn(shards+1))
	}

	// swarm weights of the registry operations
	opNames := []string{"register", "unstake", "jail", "inactive", "rating", "restake"}
	opW := make([]int, len(opNames))
	for i := range opW {
		opW[i] = r.Range(0, 5)
	}
	opW[0] += 1
	opW[1] += 2
	if prop == "C14" || prop == "C12" {
		opW[1] += 6
	}
	if rater {
		opW[4] += 2
	}
	pUnknown := []float64{0, 0, 0, 0.1, 0.3}[r.Intn(5)]
	if prop == "C12" {
		pUnknown = []float64{0, 0, 0.15, 0.4}[r.Intn(4)]
	}
	maxOps := r.Range(0, 6)
	if prop == "C14" || prop == "C12" {
		maxOps = r.Range(2, 12)
	}
	var rands [][]byte

	for e := 1; e <= epochs; e++ {
		// registry evolution before the epoch change
		nOps := r.Range(0, maxOps)
		if e == 1 && r.Chance(0.5) {
			nOps = r.Range(0, 2)
		}
		genOp := func() simkit.Step {
			op := opNames[r.Weighted(opW)]
			st := simkit.Step{Op: op}
			switch op {
			case "register":
				st.I = []int64{int64(r.Intn(shards + 1))}
			case "unstake":
				cat := r.Intn(2)
				if r.Chance(pUnknown) {
					cat = 2 + r.Intn(2)
				}
				st.I = []int64{int64(cat), int64(r.Intn(shards + 1)), int64(r.Intn(16))}
			case "jail", "inactive":
				st.I = []int64{int64(r.Intn(2)), int64(r.Intn(shards + 1)), int64(r.Intn(16))}
			case "rating":
				nr := r.Intn(10)
				if r.Chance(0.4) {
					nr = r.Range(1, 2) // the ratings that may fall below the chance of rating 0
				}
				st.I = []int64{int64(r.Intn(2)), int64(r.Intn(shards + 1)), int64(r.Intn(16)), int64(nr)}
			case "restake":
				st.I = []int64{int64(r.Intn(16))}
			}
			return st
		}
		for i := 0; i < nOps; i++ {
			p.Steps = append(p.Steps, genOp())
		}
		rnd := r.Bytes(r.Range(4, 32))
		rands = append(rands, rnd)
		noise := int64(0)
		if r.Chance(0.2) {
			noise = 1
		}
		p.Steps = append(p.Steps, simkit.Step{Op: "epoch", B: []simkit.HexBytes{rnd}, I: []int64{noise}})

		// competing epoch-start candidates: some nodes prepare candidate A (and compute groups on it), then a
		// competing block B for the same epoch appears, which is the one that becomes final
		var candSamples []simkit.Step
		pCand := 0.2
		if prop == "C15" || prop == "C16" {
			pCand = 0.4
		}
		if p.Arm != "faultfree" && r.Chance(pCand) {
			sawA := 0
			for n := 0; n < nodes; n++ {
				if r.Chance(0.6) || (n == nodes-1 && sawA == 0) {
					sawA++
					seedA := int64(0)
					if r.Chance(0.5) {
						seedA = int64(r.Intn(1<<30) + 1)
					}
					p.Steps = append(p.Steps, simkit.Step{Op: "prepare", T: n, I: []int64{seedA}})
					if r.Chance(0.1) {
						p.Steps = append(p.Steps, simkit.Step{Op: "restart", T: n, I: []int64{0}})
					}
				}
			}
			for i := r.Range(1, 3); i > 0; i-- {
				st := simkit.Step{Op: "sample", B: []simkit.HexBytes{r.Bytes(r.Range(1, 16))}, I: []int64{int64(r.Intn(6)), int64(r.Intn(shards + 1))}}
				p.Steps = append(p.Steps, st)
				candSamples = append(candSamples, st)
			}
			// the competing block: another parent (new PrevRandSeed), another validator selection from the same
			// previous-epoch state (same PrevRandSeed), or both
			cst := simkit.Step{Op: "candidate"}
			variant := r.Intn(3)
			if prop == "C13" && r.Chance(0.4) {
				variant = 1
			}
			if variant != 1 {
				cst.B = []simkit.HexBytes{r.Bytes(r.Range(4, 32))}
			}
			if variant != 0 {
				cst.I = []int64{1}
				for i := r.Range(1, 3); i > 0; i-- {
					st := genOp()
					if r.Chance(0.6) { // make sure the selection really differs: one more listed validator unstakes
						st = simkit.Step{Op: "unstake", I: []int64{int64(r.Intn(2)), int64(r.Intn(shards + 1)), int64(r.Intn(16))}}
					}
					p.Steps = append(p.Steps, st)
				}
			}
			p.Steps = append(p.Steps, cst)
			if r.Chance(0.15) { // a third candidate
				p.Steps = append(p.Steps, simkit.Step{Op: "prepare", T: r.Intn(nodes), I: []int64{0}})
				p.Steps = append(p.Steps, candSamples[0])
				p.Steps = append(p.Steps, simkit.Step{Op: "candidate", B: []simkit.HexBytes{r.Bytes(r.Range(4, 32))}})
			}
		}

		// delivery schedule
		queues := make([][]simkit.Step, nodes)
		for n := 0; n < nodes; n++ {
			var q []simkit.Step
			seed := func() int64 {
				if r.Chance(0.6) {
					return int64(r.Intn(1<<30) + 1)
				}
				return 0
			}
			if p.Arm == "faultfree" {
				if !r.Chance(0.25) {
					q = append(q, simkit.Step{Op: "prepare", T: n, I: []int64{seed()}})
					if !r.Chance(0.25) {
						q = append(q, simkit.Step{Op: "action", T: n})
					}
				}
				queues[n] = q
				continue
			}
			putFault := func(st simkit.Step) simkit.Step {
				if p.Arm == "diskfaults" && r.Chance(0.08) {
					st.Fault, st.FaultAt = "put_error", 0
				}
				return st
			}
			restart := func(prob float64) {
				if !r.Chance(prob) {
					return
				}
				st := simkit.Step{Op: "restart", T: n, I: []int64{int64(r.Intn(3) / 2)}}
				if p.Arm == "diskfaults" && r.Chance(0.3) {
					st.Fault, st.FaultAt = "get_error", r.Intn(2)
				}
				q = append(q, st)
			}
			restart(0.08)
			if !r.Chance(0.15) {
				q = append(q, putFault(simkit.Step{Op: "prepare", T: n, I: []int64{seed()}}))
				for r.Chance(0.2) {
					q = append(q, putFault(simkit.Step{Op: "prepare", T: n, I: []int64{seed()}}))
				}
				restart(0.12)
				if r.Chance(0.15) {
					q = append(q, simkit.Step{Op: "prepare", T: n, I: []int64{seed()}})
				}
				if !r.Chance(0.15) {
					q = append(q, putFault(simkit.Step{Op: "action", T: n}))
					for r.Chance(0.15) {
						q = append(q, putFault(simkit.Step{Op: "action", T: n}))
					}
					restart(0.1)
				}
			}
			queues[n] = q
		}
		// extra steps that interleave with the deliveries
		var extra []simkit.Step
		nSamples := r.Range(0, 2)
		if prop == "C15" {
			nSamples = r.Range(2, 6)
		}
		for i := 0; i < nSamples; i++ {
			var rb []byte
			switch r.Intn(5) {
			case 0:
				rb = rands[r.Intn(len(rands))]
			case 1:
				rb = []byte(fmt.Sprintf("%d_%d", r.Intn(3), r.Intn(3)))
			default:
				rb = r.Bytes(r.Range(1, 32))
			}
			extra = append(extra, simkit.Step{Op: "sample", B: []simkit.HexBytes{rb}, I: []int64{int64(r.Intn(6)), int64(r.Intn(shards + 1))}})
		}
		pDirect := 0.25
		switch prop {
		case "C13":
			pDirect = 0.6
		case "C12", "C14":
			pDirect = 0.45
		}
		if r.Chance(pDirect) {
			mut := 0
			if prop != "C13" || r.Chance(0.3) {
				mut = r.Intn(7)
			}
			extra = append(extra, simkit.Step{Op: "direct", I: []int64{int64(r.Range(2, 6)), int64(mut), int64(r.Intn(64)), int64(r.Intn(1<<30) + 1), int64(r.Intn(16)), int64(r.Intn(nodes))}})
		}
		// merge: per-node order kept, everything else interleaved by the plan
		if p.Arm == "faultfree" {
			for n := 0; n < nodes; n++ {
				p.Steps = append(p.Steps, queues[n]...)
			}
			p.Steps = append(p.Steps, extra...)
			continue
		}
		queues = append(queues, extra)
		if len(candSamples) > 0 {
			// the same group questions again, first among the deliveries of the final candidate ...
			queues = append(queues, append([]simkit.Step(nil), candSamples...))
		}
		for {
			var live []int
			for i, q := range queues {
				if len(q) > 0 {
					live = append(live, i)
				}
			}
			if len(live) == 0 {
				break
			}
			i := live[r.Intn(len(live))]
			p.Steps = append(p.Steps, queues[i][0])
			queues[i] = queues[i][1:]
		}
		// ... and once more after them
		p.Steps = append(p.Steps, candSamples...)
	}
	if p.Arm == "diskfaults" {
		p.Faults = []string{"put_error", "get_error"}
	}
	return p
}
