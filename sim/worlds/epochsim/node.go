package epochsim

import (
	"encoding/json"
	"fmt"

	"github.com/ElrondNetwork/elrond-go/core"
	"github.com/ElrondNetwork/elrond-go/data"
	"github.com/ElrondNetwork/elrond-go/data/endProcess"
	"github.com/ElrondNetwork/elrond-go/epochStart"
	"github.com/ElrondNetwork/elrond-go/hashing/sha256"
	"github.com/ElrondNetwork/elrond-go/marshal"
	"github.com/ElrondNetwork/elrond-go/sharding"
	"github.com/ElrondNetwork/elrond-go/storage/lrucache"
	"github.com/ElrondNetwork/elrond-go/storage/storageUnit"

	"verifsim/simkit"
)

const metaID = core.MetachainShardId

// coordAPI is what the driver and the oracles use of a (possibly rater-wrapped) real nodes coordinator.
type coordAPI interface {
	sharding.NodesCoordinator
	EpochStartPrepare(metaHdr data.HeaderHandler, body data.BodyHandler)
	EpochStartAction(hdr data.HeaderHandler)
	NodesCoordinatorToRegistry() *sharding.NodesCoordinatorRegistry
}

// ---- stubs at the world boundary -------------------------------------------------------------------

// chanceTable is the chance computer stub: rating -> chance.
type chanceTable struct{ t []uint32 }

func (ct *chanceTable) GetChance(r uint32) uint32 {
	if int(r) >= len(ct.t) {
		return ct.t[len(ct.t)-1]
	}
	return ct.t[r]
}
func (ct *chanceTable) IsInterfaceNil() bool { return ct == nil }

// notifierStub is the epoch-start notifier: the driver calls Prepare/Action on the coordinator itself.
type notifierStub struct{ registered, unregistered int }

func (n *notifierStub) RegisterHandler(_ epochStart.ActionHandler)   { n.registered++ }
func (n *notifierStub) UnregisterHandler(_ epochStart.ActionHandler) { n.unregistered++ }
func (n *notifierStub) IsInterfaceNil() bool                         { return n == nil }

type shuffledOutStub struct{ shard uint32 }

func (s *shuffledOutStub) Process(newShardID uint32) error { s.shard = newShardID; return nil }
func (s *shuffledOutStub) RegisterHandler(_ func(uint32))  {}
func (s *shuffledOutStub) CurrentShardID() uint32          { return s.shard }
func (s *shuffledOutStub) IsInterfaceNil() bool            { return s == nil }

type nodeTypeStub struct{ t core.NodeType }

func (n *nodeTypeStub) SetType(t core.NodeType) { n.t = t }
func (n *nodeTypeStub) GetType() core.NodeType  { return n.t }
func (n *nodeTypeStub) IsInterfaceNil() bool    { return n == nil }

// countingCache forwards to the real LRU cache and counts hits and misses (probe only).
type countingCache struct {
	real         sharding.Cacher
	hits, misses int
	clears       int
}

func (cc *countingCache) Clear() { cc.clears++; cc.real.Clear() }
func (cc *countingCache) Put(key []byte, value interface{}, size int) bool {
	return cc.real.Put(key, value, size)
}
func (cc *countingCache) Get(key []byte) (interface{}, bool) {
	v, ok := cc.real.Get(key)
	if ok {
		cc.hits++
	} else {
		cc.misses++
	}
	return v, ok
}

// vlist is an ordered list of public keys (as strings).
type vlist []string

func keysOf(l []sharding.Validator) vlist {
	out := make(vlist, len(l))
	for i, v := range l {
		out[i] = string(v.PubKey())
	}
	return out
}

// shuffleCall is one recorded UpdateNodeLists call: inputs and outputs as ordered key lists per shard.
type shuffleCall struct {
	epoch      uint32
	nbShards   uint32
	rand       string
	eligible   map[uint32]vlist
	waiting    map[uint32]vlist
	newNodes   vlist
	unstake    vlist
	additional vlist
	err        error
	rEligible  map[uint32]vlist
	rWaiting   map[uint32]vlist
	rLeaving   vlist
	rStill     vlist
	args       sharding.ArgsUpdateNodes // the original argument (validators are immutable objects)
}

func mapKeysOf(m map[uint32][]sharding.Validator) map[uint32]vlist {
	out := make(map[uint32]vlist, len(m))
	for s, l := range m {
		out[s] = keysOf(l)
	}
	return out
}

func newShuffleCall(args sharding.ArgsUpdateNodes) *shuffleCall {
	return &shuffleCall{
		epoch: args.Epoch, nbShards: args.NbShards, rand: string(args.Rand),
		eligible: mapKeysOf(args.Eligible), waiting: mapKeysOf(args.Waiting),
		newNodes: keysOf(args.NewNodes), unstake: keysOf(args.UnStakeLeaving), additional: keysOf(args.AdditionalLeaving),
		args: args,
	}
}

func (sc *shuffleCall) setResult(res *sharding.ResUpdateNodes, err error) {
	sc.err = err
	if res == nil {
		return
	}
	sc.rEligible, sc.rWaiting = mapKeysOf(res.Eligible), mapKeysOf(res.Waiting)
	sc.rLeaving, sc.rStill = keysOf(res.Leaving), keysOf(res.StillRemaining)
}

// recordingShuffler wraps the real shuffler and stores every call (observation point for C12/C13/C14).
type recordingShuffler struct {
	real  sharding.NodesShuffler
	calls []*shuffleCall
}

func (rs *recordingShuffler) UpdateParams(a, b uint32, h float32, ad bool) {
	rs.real.UpdateParams(a, b, h, ad)
}
func (rs *recordingShuffler) IsInterfaceNil() bool { return rs == nil }
func (rs *recordingShuffler) UpdateNodeLists(args sharding.ArgsUpdateNodes) (*sharding.ResUpdateNodes, error) {
	sc := newShuffleCall(args)
	res, err := rs.real.UpdateNodeLists(args)
	sc.setResult(res, err)
	rs.calls = append(rs.calls, sc)
	return res, err
}

// ---- a simulated node ------------------------------------------------------------------------------

type node struct {
	id       int
	selfKey  []byte
	obsShard uint32
	disk     *simkit.SimDisk
	cacheCap int // consensus group cache capacity
	bootCap  int // capacity of the LRU in front of the boot storer disk

	alive       bool
	incarnation int
	coord       coordAPI
	shuffler    *recordingShuffler
	cache       *countingCache

	// delivery bookkeeping (harness knowledge of what the node was told)
	lastPrepared  uint32 // highest epoch whose Prepare this node holds (computed or loaded)
	lastAction    uint32
	computedEpoch uint32 // epoch computed by EpochStartPrepare in the current incarnation (0 = none)
	prepCount     int    // number of Prepare deliveries of the current candidate in this incarnation
	preparedCand  int    // epoch-start candidate of the epoch in flight this node holds (-1 = an abandoned one)
	keyNow        []byte // saved-state key as a block commit after the last delivery would record it
	keyBeforePrep []byte // key recorded by the last commit before the most recent Prepare
	putFailed     map[string]bool
}

func (w *world) newShuffler() (sharding.NodesShuffler, error) {
	return sharding.NewHashValidatorsShuffler(&sharding.NodesShufflerArgs{
		NodesShard:                     uint32(w.minShard),
		NodesMeta:                      uint32(w.minMeta),
		Hysteresis:                     float32(w.hysteresisPct) / 100,
		Adaptivity:                     w.adaptivity,
		ShuffleBetweenShards:           w.crossShard,
		MaxNodesEnableConfig:           w.maxNodesCfg,
		BalanceWaitingListsEnableEpoch: w.balanceEpoch,
		WaitingListFixEnableEpoch:      w.fixEpoch,
	})
}

// buildCoordinator creates the real coordinator of node n over its disk for the given epoch configuration.
// order is the node's own insertion order of shard ids into the input maps.
func (w *world) buildCoordinator(n *node, epoch uint32, eligible, waiting map[uint32][]sharding.Validator) error {
	real, err := w.newShuffler()
	if err != nil {
		return err
	}
	n.shuffler = &recordingShuffler{real: real, calls: nil}
	lru, err := lrucache.NewCache(n.cacheCap)
	if err != nil {
		return err
	}
	n.cache = &countingCache{real: lru}
	bootCache, err := lrucache.NewCache(n.bootCap)
	if err != nil {
		return err
	}
	n.disk.Reopen()
	storer, err := storageUnit.NewStorageUnit(bootCache, n.disk)
	if err != nil {
		return err
	}
	args := sharding.ArgNodesCoordinator{
		ShardConsensusGroupSize:    w.consShard,
		MetaConsensusGroupSize:     w.consMeta,
		Marshalizer:                &marshal.GogoProtoMarshalizer{},
		Hasher:                     sha256.NewSha256(),
		Shuffler:                   n.shuffler,
		EpochStartNotifier:         &notifierStub{},
		BootStorer:                 storer,
		ShardIDAsObserver:          n.obsShard,
		NbShards:                   uint32(w.nShards),
		EligibleNodes:              eligible,
		WaitingNodes:               waiting,
		SelfPublicKey:              n.selfKey,
		Epoch:                      epoch,
		StartEpoch:                 0,
		ConsensusGroupCache:        n.cache,
		ShuffledOutHandler:         &shuffledOutStub{shard: n.obsShard},
		WaitingListFixEnabledEpoch: w.fixEpoch,
		ChanStopNode:               make(chan endProcess.ArgEndProcess, 8),
		NodeTypeProvider:           &nodeTypeStub{},
		IsFullArchive:              false,
	}
	base, err := sharding.NewIndexHashedNodesCoordinator(args)
	if err != nil {
		return err
	}
	if w.rater {
		wr, err := sharding.NewIndexHashedNodesCoordinatorWithRater(base, &chanceTable{t: w.chances})
		if err != nil {
			return err
		}
		n.coord = wr
	} else {
		n.coord = base
	}
	n.incarnation++
	n.computedEpoch = 0
	n.prepCount = 0
	return nil
}

// permutedMap rebuilds a validator map inserting the shards in the given order (rotation of sorted ids).
func permutedMap(src map[uint32][]sharding.Validator, rot int, reverse bool) map[uint32][]sharding.Validator {
	ids := sortedShardIDs(src)
	if reverse {
		for i, j := 0, len(ids)-1; i < j; i, j = i+1, j-1 {
			ids[i], ids[j] = ids[j], ids[i]
		}
	}
	out := make(map[uint32][]sharding.Validator)
	for i := range ids {
		s := ids[(i+rot)%len(ids)]
		out[s] = append([]sharding.Validator(nil), src[s]...)
	}
	return out
}

// restartNode mirrors what a restarting node does (epochStart/bootstrap/fromLocalStorage.getLastBootstrapData,
// factory.CreateNodesCoordinator, storageBootstrapper.loadBlocks): read the registry stored under the last
// recorded key, construct the coordinator from that registry's current epoch, then LoadState(key).
func (w *world) restartNode(n *node, key []byte) error {
	bootCache, err := lrucache.NewCache(n.bootCap)
	if err != nil {
		return err
	}
	n.disk.Reopen()
	probe, err := storageUnit.NewStorageUnit(bootCache, n.disk)
	if err != nil {
		return err
	}
	raw, err := probe.Get(append([]byte(core.NodesCoordinatorRegistryKeyPrefix), key...))
	if err != nil {
		return fmt.Errorf("read registry: %w", err)
	}
	reg := &sharding.NodesCoordinatorRegistry{}
	if err = json.Unmarshal(raw, reg); err != nil {
		return fmt.Errorf("decode registry: %w", err)
	}
	cfg, ok := reg.EpochsConfig[fmt.Sprintf("%d", reg.CurrentEpoch)]
	if !ok {
		return fmt.Errorf("registry has no config for its current epoch %d", reg.CurrentEpoch)
	}
	eligible, err := sharding.SerializableValidatorsToValidators(cfg.EligibleValidators)
	if err != nil {
		return err
	}
	waiting, err := sharding.SerializableValidatorsToValidators(cfg.WaitingValidators)
	if err != nil {
		return err
	}
	if err = w.buildCoordinator(n, reg.CurrentEpoch, permutedMap(eligible, n.id, n.id%2 == 1), permutedMap(waiting, n.id, n.id%2 == 0)); err != nil {
		return fmt.Errorf("construct: %w", err)
	}
	if err = n.coord.LoadState(key); err != nil {
		return fmt.Errorf("LoadState: %w", err)
	}
	return nil
}
