package epochsim

import (
	"fmt"
	"sort"

	"github.com/ElrondNetwork/elrond-go/sharding"

	"verifsim/simkit"
)

func countKeys(dst map[string]int, lists ...vlist) {
	for _, l := range lists {
		for _, k := range l {
			dst[k]++
		}
	}
}

func sortedKeys(ms ...map[string]int) []string {
	seen := map[string]bool{}
	for _, m := range ms {
		for k := range m {
			seen[k] = true
		}
	}
	out := make([]string, 0, len(seen))
	for k := range seen {
		out = append(out, k)
	}
	sort.Strings(out)
	return out
}

// observeCall runs the per-call oracles (C12, C14) on one recorded UpdateNodeLists call and counts probes.
func (w *world) observeCall(sc *shuffleCall, site string) {
	c := w.c
	w.stCalls++
	if sc.err != nil {
		c.Probe("updatenodelists-error")
		for _, s := range w.shardIDs() {
			if len(sc.eligible[s])+len(sc.waiting[s]) < w.minOf(s) {
				c.Probe("shard-below-minimum-before")
				break
			}
		}
		return
	}
	requested := len(sc.unstake) + len(sc.additional)
	if requested > 0 {
		w.stCallsWithLeaving++
	}
	if len(sc.rLeaving) > 0 {
		c.Probe("leaving-honoured")
	}
	if len(sc.rStill) > 0 {
		c.Probe("leaving-not-honoured")
	}
	if len(sc.additional) > 0 {
		c.Probe("low-rating-leaving-requested")
	}
	if len(sc.newNodes) > 0 {
		c.Probe("new-nodes-distributed")
	}
	// shuffled out = previously eligible, now waiting
	wasEligible := map[string]bool{}
	for _, s := range sortedVlistShards(sc.eligible) {
		for _, k := range sc.eligible[s] {
			wasEligible[k] = true
		}
	}
	shuffledOut := 0
	for _, s := range sortedVlistShards(sc.rWaiting) {
		for _, k := range sc.rWaiting[s] {
			if wasEligible[k] {
				shuffledOut++
			}
		}
	}
	if shuffledOut > 0 {
		c.Probe("shuffled-out")
		c.Probes["shuffled-out-validators"] += shuffledOut
	}
	if shuffledOut > 0 || len(sc.rLeaving) > 0 {
		w.stMoved++
	}
	w.oracleC12(sc, site)
	w.oracleC14(sc, site, requested)
}

// oracleC12: conservation of validators over one UpdateNodeLists call.
func (w *world) oracleC12(sc *shuffleCall, site string) {
	c := w.c
	old := map[string]int{}
	for _, s := range sortedVlistShards(sc.eligible) {
		countKeys(old, sc.eligible[s])
	}
	for _, s := range sortedVlistShards(sc.waiting) {
		countKeys(old, sc.waiting[s])
	}
	fresh := map[string]int{}
	countKeys(fresh, sc.newNodes)
	placed := map[string]int{}
	for _, s := range sortedVlistShards(sc.rEligible) {
		countKeys(placed, sc.rEligible[s])
	}
	for _, s := range sortedVlistShards(sc.rWaiting) {
		countKeys(placed, sc.rWaiting[s])
	}
	leaving := map[string]int{}
	countKeys(leaving, sc.rLeaving)
	still := map[string]int{}
	countKeys(still, sc.rStill)

	for _, k := range sortedKeys(old, fresh, placed, leaving) {
		in := old[k] + fresh[k]
		out := placed[k] + leaving[k]
		switch {
		case in > 1:
			// the input itself names the key twice: outside what the world is meant to generate
			c.Probe("input-names-key-twice")
		case in == 1 && out == 0:
			c.Violate("C12", "validator-lost", site, "epoch %d: %q was %s before but is in no new eligible/waiting list and not in the leaving list", sc.epoch, k, whereBefore(old[k]))
			return
		case in == 1 && out > 1:
			c.Violate("C12", "validator-duplicated", site, "epoch %d: %q (%s before) appears %d times after: %d in new eligible/waiting lists, %d in leaving", sc.epoch, k, whereBefore(old[k]), out, placed[k], leaving[k])
			return
		case in == 0 && placed[k] > 0:
			c.Violate("C12", "validator-invented", site, "epoch %d: %q is in the new eligible/waiting lists but was neither eligible, waiting nor new", sc.epoch, k)
			return
		}
		if leaving[k] > 0 && old[k] == 0 {
			// "validators reported as leaving were eligible or waiting before"
			kind := "leaving-never-listed"
			msg := fmt.Sprintf("epoch %d: UpdateNodeLists reports %q as leaving, but it was neither eligible nor waiting before (unstake=%q additional=%q)", sc.epoch, k, []string(sc.unstake), []string(sc.additional))
			if in == 0 {
				// postponed to the end of the run so that this kind can never hide another C12 kind
				c.Probe("unknown-key-reported-leaving")
				dup := false
				for _, d := range w.deferred {
					if d.kind == kind && d.site == site {
						dup = true
					}
				}
				if !dup {
					w.deferred = append(w.deferred, deferredViolation{step: c.CurStep, prop: "C12", kind: kind, site: site, msg: msg})
				}
			} else {
				c.Violate("C12", kind, site, "%s", msg)
				return
			}
		}
	}
	for _, k := range sortedKeys(still) {
		if leaving[k] == 0 && old[k] > 0 && placed[k] == 0 {
			c.Violate("C12", "unhonoured-leaving-dropped", site, "epoch %d: leaving request for %q was not honoured (StillRemaining) but the validator is in no new list", sc.epoch, k)
			return
		}
	}
}

func whereBefore(oldCount int) string {
	if oldCount > 0 {
		return "eligible/waiting"
	}
	return "new"
}

// oracleC14: with the fix active and every shard at or above its minimum before, every shard has at least
// the minimum number of eligible validators after.
func (w *world) oracleC14(sc *shuffleCall, site string, requested int) {
	c := w.c
	fix := sc.epoch >= w.fixEpoch
	if fix {
		c.Probe("fix-active")
	} else {
		c.Probe("fix-inactive")
	}
	pre := true
	for _, s := range w.shardIDs() {
		if len(sc.eligible[s])+len(sc.waiting[s]) < w.minOf(s) {
			pre = false
		}
	}
	if !pre {
		c.Probe("shard-below-minimum-before")
	}
	if !fix || !pre {
		return
	}
	c.Probe("c14-demanded")
	if requested > 0 {
		w.stC14Demanded++ // non-trivial only when somebody asked to leave
		c.Probe("c14-demanded-with-leaving-requests")
	}
	for _, s := range w.shardIDs() {
		if len(sc.rEligible[s]) < w.minOf(s) {
			c.Violate("C14", "eligible-below-minimum", site, "epoch %d shard %s: %d eligible after reshuffling, minimum %d (before: %d eligible + %d waiting; %d leaving requests, %d honoured)",
				sc.epoch, shardName(s), len(sc.rEligible[s]), w.minOf(s), len(sc.eligible[s]), len(sc.waiting[s]), requested, len(sc.rLeaving))
			return
		}
		if len(sc.rEligible[s]) == w.minOf(s) && len(sc.rWaiting[s]) == 0 && requested > 0 {
			c.Probe("shard-exactly-at-minimum-after")
		}
	}
}

// oracleC16: after EpochStartPrepare every key has one place, and the lookup by key reports that shard.
func (w *world) oracleC16(n *node) {
	c := w.c
	lists, ok := w.listsOf(n, w.epoch)
	if !ok {
		return
	}
	type place struct {
		shard uint32
		list  string
	}
	places := map[string][]place{}
	count := map[string]int{}
	for _, s := range unionShards(lists.eligible, lists.waiting) {
		for _, k := range lists.eligible[s] {
			places[k] = append(places[k], place{s, "eligible"})
			count[k]++
		}
		for _, k := range lists.waiting[s] {
			places[k] = append(places[k], place{s, "waiting"})
			count[k]++
		}
	}
	w.stC16Checks++
	for _, k := range sortedKeys(count) {
		if len(places[k]) > 1 {
			desc := ""
			for _, p := range places[k] {
				desc += fmt.Sprintf(" %s@%s", p.list, shardName(p.shard))
			}
			c.Violate("C16", "key-in-two-places", "EpochStartPrepare", "epoch %d node %d: %q appears in%s", w.epoch, n.id, k, desc)
			return
		}
		v, shard, err := n.coord.GetValidatorWithPublicKey([]byte(k))
		if err != nil {
			c.Violate("C16", "lookup-fails", "GetValidatorWithPublicKey", "epoch %d node %d: %q is %s in shard %s but the lookup returns %v", w.epoch, n.id, k, places[k][0].list, shardName(places[k][0].shard), err)
			return
		}
		if shard != places[k][0].shard || string(v.PubKey()) != k {
			c.Violate("C16", "lookup-wrong-shard", "GetValidatorWithPublicKey", "epoch %d node %d: %q is %s in shard %s but the lookup reports shard %s (key %q)", w.epoch, n.id, k, places[k][0].list, shardName(places[k][0].shard), shardName(shard), v.PubKey())
			return
		}
	}
}

// oracleC13: every live node (the one that computed twice and the restarted ones included) holds the same
// ordered lists for the epoch; recorded computations with the same input have the same output.
func (w *world) oracleC13(ref *node) {
	c := w.c
	ids := w.shardIDs()
	refLists, _ := w.listsOf(ref, w.epoch)
	refDump := dumpLists(ids, refLists.eligible, refLists.waiting, refLists.leaving)
	compared := 0
	for _, n := range w.nodes {
		if !n.alive || n == ref {
			continue
		}
		l, ok := w.listsOf(n, w.epoch)
		if !ok {
			c.Violate("C13", "node-without-epoch", "EpochStartPrepare", "epoch %d: node %d holds no configuration although node %d computed one from the same input", w.epoch, n.id, ref.id)
			return
		}
		compared++
		if n.computedEpoch != w.epoch {
			c.Probe("c13-compared-node-that-loaded-epoch")
		}
		d := dumpLists(ids, l.eligible, l.waiting, l.leaving)
		if d != refDump {
			c.Violate("C13", "nodes-differ", "EpochStartPrepare", "epoch %d: node %d (incarnation %d) and node %d hold different lists\n node %d: %s\n node %d: %s", w.epoch, n.id, n.incarnation, ref.id, ref.id, refDump, n.id, d)
			return
		}
	}
	// same input => same output over all recorded computations of this epoch
	first := map[string]epochCall{}
	var order []string
	groupN := map[string]int{}
	for _, ec := range w.epochCalls {
		if ec.call.epoch != w.epoch {
			continue
		}
		a := ec.call.argsDump()
		f, seen := first[a]
		groupN[a]++
		if !seen {
			first[a] = ec
			order = append(order, a)
			continue
		}
		if f.call.resDump() != ec.call.resDump() {
			c.Violate("C13", "same-input-different-result", "UpdateNodeLists", "epoch %d: nodes %d and %d called UpdateNodeLists with identical arguments and got different results\n %s\n %s", w.epoch, f.node, ec.node, f.call.resDump(), ec.call.resDump())
			return
		}
	}
	recomputed := false
	for _, a := range order {
		if groupN[a] >= 2 {
			recomputed = true
		}
	}
	if len(order) > 1 {
		c.Probe("c13-nodes-built-different-arguments")
	}
	if compared >= 1 || recomputed {
		w.stComparedEpochs++
	}
	// restarted nodes: is the public-key index stale? (outside C16: that node did not prepare the epoch)
	for _, n := range w.nodes {
		if !n.alive || n.computedEpoch == w.epoch {
			continue
		}
		l, ok := w.listsOf(n, w.epoch)
		if !ok {
			continue
		}
		staleLookups := 0
		for _, s := range ids {
			for _, k := range append(append(vlist{}, l.eligible[s]...), l.waiting[s]...) {
				if _, sh, err := n.coord.GetValidatorWithPublicKey([]byte(k)); err != nil || sh != s {
					staleLookups++
				}
			}
		}
		if staleLookups > 0 {
			c.Probe("lookup-stale-on-node-that-loaded-epoch")
		}
	}
}

// ---- C15 ---------------------------------------------------------------------------------------------------

type groupQuery struct {
	epoch uint32
	shard uint32
}

func (w *world) checkGroup(n *node, q groupQuery, rnd []byte, round uint64, site string) (vlist, bool) {
	c := w.c
	group, err := n.coord.ComputeConsensusGroup(rnd, round, q.shard, q.epoch)
	if err != nil {
		c.Violate("C15", "compute-error", site, "node %d: ComputeConsensusGroup(rand=%x, round=%d, shard=%s, epoch=%d) fails: %v", n.id, rnd, round, shardName(q.shard), q.epoch, err)
		return nil, false
	}
	keys := keysOf(group)
	want := w.consOf(q.shard)
	if len(keys) != want {
		c.Violate("C15", "wrong-size", site, "node %d: group for (rand=%x, round=%d, shard=%s, epoch=%d) has %d members, configured size %d", n.id, rnd, round, shardName(q.shard), q.epoch, len(keys), want)
		return nil, false
	}
	el, err := n.coord.GetAllEligibleValidatorsPublicKeys(q.epoch)
	if err != nil {
		return nil, false
	}
	var shardEligible vlist
	eligible := map[string]bool{}
	for _, k := range el[q.shard] {
		eligible[string(k)] = true
		shardEligible = append(shardEligible, string(k))
	}
	seen := map[string]bool{}
	for _, k := range keys {
		if seen[k] {
			c.Violate("C15", "member-twice", site, "node %d: group for (rand=%x, round=%d, shard=%s, epoch=%d) contains %q twice: %q", n.id, rnd, round, shardName(q.shard), q.epoch, k, []string(keys))
			return nil, false
		}
		seen[k] = true
		if !eligible[k] {
			c.Violate("C15", "member-not-eligible", site, "node %d: group for (rand=%x, round=%d, shard=%s, epoch=%d) contains %q which is not in that shard's eligible list of that epoch %q", n.id, rnd, round, shardName(q.shard), q.epoch, k, []string(shardEligible))
			return nil, false
		}
	}
	if len(shardEligible) == want {
		c.Probe("group-takes-whole-eligible-list")
	}
	return keys, true
}

func sameList(a, b vlist) bool {
	if len(a) != len(b) {
		return false
	}
	for i := range a {
		if a[i] != b[i] {
			return false
		}
	}
	return true
}

// sample evaluates one (randomness, round) on every live node for the current and the previous epoch and
// for two shards; nodes walk the queries in different orders, every query is repeated after the others.
func (w *world) sample(st *simkit.Step) {
	c := w.c
	rnd := st.Bytes(0)
	if len(rnd) == 0 {
		rnd = []byte("r")
	}
	round := uint64(st.Int(0, 0))
	sh1 := w.shardSel(st.Int(1, 0))
	sh2 := w.shardSel(st.Int(1, 0) + 1)
	var epochs []uint32
	if w.epoch >= 1 {
		epochs = append(epochs, w.epoch-1)
	}
	epochs = append(epochs, w.epoch)
	var queries []groupQuery
	for _, e := range epochs {
		queries = append(queries, groupQuery{e, sh1})
		if sh2 != sh1 {
			queries = append(queries, groupQuery{e, sh2})
		}
	}
	results := map[groupQuery]vlist{}
	owner := map[groupQuery]int{}
	for _, n := range w.nodes {
		if !n.alive {
			continue
		}
		qs := make([]groupQuery, 0, len(queries))
		for _, q := range queries {
			if w.knows(n, q.epoch) {
				qs = append(qs, q)
			}
		}
		if n.id%2 == 1 {
			for i, j := 0, len(qs)-1; i < j; i, j = i+1, j-1 {
				qs[i], qs[j] = qs[j], qs[i]
			}
		}
		hits0, miss0 := n.cache.hits, n.cache.misses
		firstPass := map[groupQuery]vlist{}
		for _, q := range qs {
			g, ok := w.checkGroup(n, q, rnd, round, "ComputeConsensusGroup")
			if !ok {
				return
			}
			firstPass[q] = g
			if prev, seen := results[q]; seen {
				w.stGroupsCompared++
				if !sameList(prev, g) {
					c.Violate("C15", "nodes-differ", "ComputeConsensusGroup", "group for (rand=%x, round=%d, shard=%s, epoch=%d): node %d computes %q, node %d computes %q", rnd, round, shardName(q.shard), q.epoch, owner[q], []string(prev), n.id, []string(g))
					return
				}
			} else {
				results[q] = g
				owner[q] = n.id
			}
		}
		for _, q := range qs {
			g, ok := w.checkGroup(n, q, rnd, round, "ComputeConsensusGroup/second-call")
			if !ok {
				return
			}
			w.stGroupsCompared++
			if !sameList(firstPass[q], g) {
				c.Violate("C15", "second-call-differs", "ComputeConsensusGroup", "node %d (cache capacity %d): group for (rand=%x, round=%d, shard=%s, epoch=%d) was %q, second call returns %q", n.id, n.cacheCap, rnd, round, shardName(q.shard), q.epoch, []string(firstPass[q]), []string(g))
				return
			}
			// the leader is the first member: the public-key API must name the same first member
			pks, err := n.coord.GetConsensusValidatorsPublicKeys(rnd, round, q.shard, q.epoch)
			if err != nil || len(pks) == 0 || pks[0] != g[0] || !sameList(vlist(pks), g) {
				c.Violate("C15", "leader-differs", "GetConsensusValidatorsPublicKeys", "node %d: group for (rand=%x, round=%d, shard=%s, epoch=%d) is %q (leader first) but GetConsensusValidatorsPublicKeys returns %q err=%v", n.id, rnd, round, shardName(q.shard), q.epoch, []string(g), pks, err)
				return
			}
		}
		if n.cache.hits > hits0 {
			c.Probe("group-cache-hit")
		}
		if n.cache.misses > miss0+len(qs) {
			c.Probe("group-cache-miss-on-repeat")
		}
		if w.rater {
			c.Probe("group-with-rater-weights")
		}
	}
	c.StepsDone++
	q0 := queries[len(queries)-1]
	c.Eventf("sample rand=%x round=%d shards=%s,%s epoch=%d group=%q", rnd, round, shardName(sh1), shardName(sh2), w.epoch, []string(results[q0]))
}

// ---- direct calls of the real shuffler (C13 over rebuilt maps; C12/C14 over mutated leaving lists) -----------

func rebuildMap(src map[uint32][]sharding.Validator, order []uint32) map[uint32][]sharding.Validator {
	out := make(map[uint32][]sharding.Validator)
	for _, s := range order {
		out[s] = append([]sharding.Validator(nil), src[s]...)
	}
	return out
}

func (w *world) direct(st *simkit.Step) {
	c := w.c
	base := w.lastGood
	if base == nil {
		return
	}
	repeats := int(st.Int(0, 3))
	if repeats < 2 {
		repeats = 2
	}
	if repeats > 8 {
		repeats = 8
	}
	mutation := st.Int(1, 0)
	idx := int(st.Int(2, 0))
	if idx < 0 {
		idx = -idx
	}
	seed := uint64(st.Int(3, 1))

	unstake := append([]sharding.Validator(nil), base.args.UnStakeLeaving...)
	additional := append([]sharding.Validator(nil), base.args.AdditionalLeaving...)
	var listed []sharding.Validator
	for _, s := range sortedShardIDs(base.args.Eligible) {
		listed = append(listed, base.args.Eligible[s]...)
	}
	for _, s := range sortedShardIDs(base.args.Waiting) {
		listed = append(listed, base.args.Waiting[s]...)
	}
	unknown, _ := sharding.NewValidator([]byte(fmt.Sprintf("%sunknown%d", w.salt, idx%7)), 1, uint32(idx%5))
	site := "UpdateNodeLists/direct"
	switch mutation {
	case 1: // a listed key twice in the unstake list
		if len(listed) > 0 {
			v := listed[idx%len(listed)]
			unstake = append(unstake, v, v)
			c.Probe("direct-duplicate-in-unstake-list")
		}
	case 2: // the same listed key in the unstake and in the low-rating list
		if len(listed) > 0 {
			v := listed[idx%len(listed)]
			unstake = append(unstake, v)
			additional = append(additional, v)
			c.Probe("direct-duplicate-across-lists")
		}
	case 3:
		unstake = append(unstake, unknown)
		c.Probe("direct-unknown-in-unstake-list")
	case 4:
		additional = append(additional, unknown)
		c.Probe("direct-unknown-in-additional-list")
	case 5: // a listed key twice in the low-rating list
		if len(listed) > 0 {
			v := listed[idx%len(listed)]
			additional = append(additional, v, v)
			c.Probe("direct-duplicate-in-additional-list")
		}
	case 6: // many listed keys ask to leave
		for i := 0; i < len(listed); i += 1 + idx%3 {
			unstake = append(unstake, listed[i])
		}
		c.Probe("direct-mass-leaving")
	}

	r := simkit.NewRand(seed)
	var firstCall *shuffleCall
	shared, err := w.newShuffler()
	if err != nil {
		c.HarnessErr("shuffler: %v", err)
		return
	}
	for i := 0; i < repeats; i++ {
		eo := sortedShardIDs(base.args.Eligible)
		wo := sortedShardIDs(base.args.Waiting)
		if i > 0 {
			pe, pw := r.Perm(len(eo)), r.Perm(len(wo))
			eo2, wo2 := make([]uint32, len(eo)), make([]uint32, len(wo))
			for a, b := range pe {
				eo2[a] = eo[b]
			}
			for a, b := range pw {
				wo2[a] = wo[b]
			}
			eo, wo = eo2, wo2
		}
		args := sharding.ArgsUpdateNodes{
			Eligible:          rebuildMap(base.args.Eligible, eo),
			Waiting:           rebuildMap(base.args.Waiting, wo),
			NewNodes:          append([]sharding.Validator(nil), base.args.NewNodes...),
			UnStakeLeaving:    append([]sharding.Validator(nil), unstake...),
			AdditionalLeaving: append([]sharding.Validator(nil), additional...),
			Rand:              append([]byte(nil), base.args.Rand...),
			NbShards:          base.args.NbShards,
			Epoch:             base.args.Epoch,
		}
		sh := shared
		if i%2 == 1 {
			if sh, err = w.newShuffler(); err != nil {
				c.HarnessErr("shuffler: %v", err)
				return
			}
		}
		sc := newShuffleCall(args)
		res, err := sh.UpdateNodeLists(args)
		sc.setResult(res, err)
		if i == 0 {
			firstCall = sc
			w.observeCall(sc, site)
			if c.Failed(c.Plan.Property) {
				return
			}
			continue
		}
		if sc.resDump() != firstCall.resDump() {
			c.Violate("C13", "same-input-different-result", site, "epoch %d: call %d of the shuffler with the same arguments (maps rebuilt in another insertion order) differs from call 0\n %s\n %s", sc.epoch, i, firstCall.resDump(), sc.resDump())
			return
		}
	}
	w.stComparedEpochs++
	c.StepsDone++
	c.Probe("direct-shuffler-calls")
	c.Eventf("direct epoch=%d mutation=%d repeats=%d result=%016x", base.epoch, mutation, repeats, hashStr(firstCall.resDump()))
}
