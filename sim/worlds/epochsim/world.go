// Package epochsim is world W5: several simulated nodes, each with its own real nodes coordinator, shuffler,
// boot storer and consensus-group cache, living through a sequence of epoch changes driven by a validator
// registry. It decides C12 (conservation), C13 (determinism), C14 (minimum shard size), C15 (consensus groups)
// and C16 (one place per key).
package epochsim

import (
	"fmt"

	"verifsim/simkit"
)

// World implements simkit.World.
type World struct{}

func (World) Name() string         { return "epochsim" }
func (World) Properties() []string { return []string{"C12", "C13", "C14", "C15", "C16"} }

func (World) Real(prop string) []string {
	base := []string{
		"sharding.indexHashedNodesCoordinator (NewIndexHashedNodesCoordinator, EpochStartPrepare/EpochStartAction, computeNodesConfigFromList, setNodesPerShards, fillPublicKeyToValidatorMap)",
		"sharding.indexHashedNodesCoordinatorWithRater (ComputeAdditionalLeaving, ValidatorsWeights) in the runs with knob rater=1",
		"sharding.randHashShuffler (NewHashValidatorsShuffler, UpdateNodeLists, shuffleNodes, removeLeavingNodes, shuffleOutNodes, moveMaxNumNodesToMap, distributeValidators, equalizeValidatorsLists)",
		"sharding.IntraShardValidatorDistributor / CrossShardValidatorDistributor",
		"sharding registry save/load (NodesCoordinatorToRegistry, saveState, LoadState) over storage/storageUnit.Unit + storage/lrucache",
		"marshal.GogoProtoMarshalizer (state.ShardValidatorInfo in peer miniblocks), hashing/sha256, data/block.MetaBlock/Body",
	}
	if prop == "C15" {
		base = append(base, "sharding.selectorExpandedList, sharding.SelectionBasedProvider, storage/lrucache.lruCache as consensus group cache")
	}
	return base
}

func (World) Stub(prop string) []string {
	s := []string{
		"epoch-start notifier (the driver calls EpochStartPrepare/EpochStartAction on every coordinator itself, in plan order)",
		"boot storer persister: simkit.SimDisk under the real storageUnit (survives restarts; put_error/get_error)",
		"chance computer: table rating 0..9 -> chance (1..50, ratings 1-2 may be below the chance of rating 0)",
		"ShuffledOutHandler, NodeTypeProvider, stop channel: recording no-ops",
		"recording wrapper around the real shuffler (stores arguments and result of every UpdateNodeLists call, forwards unchanged)",
		"validator registry / staking side: harness model producing one ShardValidatorInfo per key from the reference node's previous result",
		"restart: harness mirror of getLastBootstrapData + CreateNodesCoordinator + storageBootstrapper (read registry by last recorded key, construct from its current epoch, LoadState)",
	}
	if prop == "C15" {
		s = append(s, "counting wrapper around the real LRU group cache (hit/miss probes only)")
	}
	return s
}

func (World) Assumptions(prop string) []string {
	common := []string{
		"validator info of epoch e+1 is derived from the reference node's lists of epoch e: shard, list and index of every listed key are the previous result, every key has exactly one entry, a key is never both new and leaving, new keys never have a low rating, jailed/inactive never empties a shard's eligible entries and never drops a shard below its minimum (the latter except with knob allow_below_min, where the shuffler then refuses the input and the run ends)",
		"per node: Prepare(e) before Action(e) before Prepare(e+1); duplicates of Prepare only before Action; for some epochs competing epoch-start candidates of the same new epoch built on the same previous epoch (other PrevRandSeed and/or another selection of registry operations applied to the same previous-epoch state, i.e. same PrevRandSeed with other validator info): some nodes prepare candidate A, compute groups and look keys up, then prepare candidate B, other nodes only ever see B; Action only for the last candidate and only on nodes that prepared it; oracles speak about the candidate a node holds last (a node still holding an abandoned candidate is not asked about that epoch); restarts anywhere; a node whose state was lost because a save failed (code only logs it) and that then restarted leaves the run",
		"Go map iteration order cannot be seeded: the verdict does not depend on it on the unchanged tree; a map-order dependent mutant is found statistically (ReplayAttempts=30 for C13)",
	}
	switch prop {
	case "C12":
		return append(common,
			"observed at the recorded UpdateNodeLists calls of every node and at direct calls of the real shuffler with the recorded arguments plus duplicated / unknown leaving keys",
			"'not honoured' = key in StillRemaining and not in Leaving (a key requested twice and honoured once is honoured)",
			"kind leaving-never-listed for keys that were in no input list is emitted at the end of the run so that it cannot hide another C12 kind")
	case "C13":
		return append(common,
			"compared: GetAll{Eligible,Waiting,Leaving}ValidatorsPublicKeys(epoch) of every live node, order included; recorded UpdateNodeLists results grouped by identical arguments; N direct shuffler calls with maps rebuilt in other insertion orders",
			"one shuffler instance is asked for the same (epoch, randomness) with two different argument sets (recorded and mutated leaving lists, both orders) and must agree with fresh instances and with the recorded result; shuffler instances with different call histories get the same arguments: the recorded arguments of an earlier epoch are recomputed by a fresh shuffler, by a veteran instance that first serves the newest epoch, and by the real shuffler of a live node (a node re-computing an older epoch after a newer one); all must equal the result recorded when the epoch was first computed. Calling a node's shuffler directly is side-effect free on the unchanged tree (every call recomputes its configuration from the epoch). A rollback through EpochStartPrepare of an older epoch is not driven: the coordinator derives the previous configuration from its currentEpoch, which never decreases, so such a delivery would contradict the 'consistent with the previous epoch' precondition",
			"each node receives the peer miniblocks (one per shard) in its own order (knob permute_body), so shards enter its input maps in another order, and builds its genesis maps in its own shard order; the order of entries inside a miniblock is the same for all nodes (list order is input, not map construction: the low-rating leaving list of a shard follows the entry order of the body)")
	case "C14":
		return append(common,
			"minimum = NodesShard / NodesMeta of the shuffler; 'before' = Eligible+Waiting of the UpdateNodeLists arguments; fix active = call epoch >= WaitingListFixEnableEpoch (same value given to shuffler and coordinator)")
	case "C15":
		return append(common,
			"'leader first' is checked as: first member identical on all nodes and calls and equal to the first key of GetConsensusValidatorsPublicKeys (the coordinator has no separate leader API; the sampler is not mirrored)",
			"configured size = ShardConsensusGroupSize / MetaConsensusGroupSize knobs (<= shard minimum); an error for a known epoch and valid shard counts as a violation")
	case "C16":
		return append(common,
			"checked on a node right after its own EpochStartPrepare of the epoch; a node that loaded the epoch from storage (restart) did not prepare it: its lookup index is only probed (lookup-stale-on-node-that-loaded-epoch)")
	}
	return common
}

func (World) Rule(prop string) string {
	gen := "2-4 nodes, 1-3 shards + metachain, 2-12 validators per shard, consensus sizes 1-5, 3-10 epochs of registry ops (register/unstake/jail/inactive/rating/restake), per-epoch delivery schedule (arms: faultfree / schedule = duplicates+restarts+competing epoch-start candidates / diskfaults = +put_error,get_error), consensus samples and direct shuffler calls; "
	switch prop {
	case "C12":
		return gen + "non-trivial = at least 2 recorded UpdateNodeLists calls and at least one with a leaving request; distinct = hash of full plan"
	case "C13":
		return gen + "non-trivial = at least 2 epochs compared across nodes / recomputations / direct calls and at least one call that moved validators (shuffled out or left); distinct = hash of full plan"
	case "C14":
		return gen + "non-trivial = at least one UpdateNodeLists call with the fix active, every shard at or above its minimum before and at least one leaving request; distinct = hash of full plan"
	case "C15":
		return gen + "non-trivial = at least 4 consensus groups compared (across nodes or repeated calls); distinct = hash of full plan"
	case "C16":
		return gen + "non-trivial = at least 2 per-node checks after EpochStartPrepare and at least one validator that changed shard; distinct = hash of full plan"
	}
	return gen
}

// ReplayAttempts: a C13 failure caused by map iteration order replays only statistically.
func (World) ReplayAttempts(prop string) int {
	if prop == "C13" {
		return 30
	}
	return 1
}

func (World) Budget(prop, tier string) int {
	q := map[string]int{"C12": 12000, "C13": 12000, "C14": 12000, "C15": 10000, "C16": 12000}[prop]
	if tier == "thorough" {
		return q * 30
	}
	return q
}

func (World) Execute(c *simkit.Ctx) bool { return execute(c) }

func (World) Generate(r *simkit.Rand, prop, tier string, race bool) *simkit.Plan {
	return generate(r, prop)
}

// Simplify proposes plans with knobs moved toward the simplest configuration.
func (World) Simplify(p *simkit.Plan) []*simkit.Plan {
	var out []*simkit.Plan
	set := func(k string, v int64) {
		if cur, ok := p.Knobs[k]; ok && cur != v {
			q := p.Clone()
			q.Knobs[k] = v
			out = append(out, q)
		}
	}
	set("rater", 0)
	set("adaptivity", 0)
	set("maxnodes_n", 0)
	set("permute_body", 0)
	set("hysteresis_pct", 0)
	set("balance_epoch", 0)
	if p.Knob("nodes", 2) > 2 {
		set("nodes", p.Knob("nodes", 2)-1)
	}
	for i := 0; i < 4; i++ {
		set(fmt.Sprintf("self_%d", i), -1)
	}
	return out
}
