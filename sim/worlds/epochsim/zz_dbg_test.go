package epochsim

import (
	"encoding/json"
	"fmt"
	"os"
	"testing"

	"verifsim/simkit"
)

func TestDbg(t *testing.T) {
	w := World{}
	var seed uint64
	fmt.Sscan(os.Getenv("DBG_SEED"), &seed)
	prop := os.Getenv("DBG_PROP")
	p := w.Generate(simkit.NewRand(seed), prop, "quick", false)
	p.Property = prop
	c, _ := simkit.ExecutePlan(t, w, p)
	b, _ := json.Marshal(p.Knobs)
	fmt.Println(string(b), p.Arm)
	for i, s := range p.Steps {
		sb, _ := json.Marshal(s)
		fmt.Println(i, string(sb))
	}
	for _, e := range c.Events {
		fmt.Println(e)
	}
	fmt.Println("HARNESS:", c.Harness)
}
