package epochsim

import (
	"testing"

	"verifsim/simkit"
)

func TestProf(t *testing.T) {
	w := World{}
	for i := 0; i < 300; i++ {
		p := w.Generate(simkit.NewRand(simkit.Mix(1, uint64(i))), "C13", "quick", false)
		p.Property = "C13"
		c, _ := simkit.ExecutePlan(t, w, p)
		if c.Harness != "" || len(c.Violations) > 0 {
			t.Log(i, c.Harness, c.Violations)
		}
	}
}
