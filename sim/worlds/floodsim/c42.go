package floodsim

import (
	"fmt"
	"math"

	"github.com/ElrondNetwork/elrond-go/core"
	"github.com/ElrondNetwork/elrond-go/process/throttle/antiflood/floodPreventers"
	"github.com/ElrondNetwork/elrond-go/storage/storageUnit"

	"verifsim/simkit"
)

const maxMsgSize = int64(1) << 40

// ---- generator -----------------------------------------------------------------------------------

// genC42Exact: quotas above 2^24 that no 32-bit float represents (2^e + k*ulp + about half an ulp), no reserved percentage in
// most runs, and per peer a history sized to meet the byte limit exactly: a small first message, one to three large messages
// that fill the quota up to a few bytes, then a tail of tiny messages. Any rounding of the limit shows as accepted bytes
// beyond quota + first message.
func genC42Exact(r *simkit.Rand, p *simkit.Plan) *simkit.Plan {
	p.Knobs["shape"] = 1
	e := uint(r.Range(25, 40))
	ulp := int64(1) << (e - 23)
	q := int64(1)<<e + r.Int63n(1<<23)*ulp
	switch r.Weighted([]int{6, 2, 1}) {
	case 0:
		q += ulp/2 + 1 + r.Int63n(maxI64(1, ulp/2-1)) // just above the midpoint between two floats
	case 1:
		q += 1 + r.Int63n(maxI64(1, ulp/2-1)) // just above a float
	default:
		q += r.Int63n(ulp)
	}
	p.Knobs["max_bytes"] = q
	p.Knobs["base_msgs"] = int64(r.Range(500, 100000))
	p.Knobs["pct_milli"] = 0
	if r.Chance(0.15) {
		p.Knobs["pct_milli"] = int64(r.Range(1, 90)) * 1000
	}
	p.Knobs["fac_num"], p.Knobs["fac_den"], p.Knobs["threshold"] = 0, 1, 0
	nPeers := r.Range(1, 3)
	p.Knobs["n_peers"] = int64(nPeers)
	p.Knobs["cache_cap"] = int64(nPeers + r.Range(0, 4))
	p.Knobs["cache_kind"] = int64(r.Intn(2))
	p.Knobs["n_status"] = int64(r.Intn(2))
	load := func(peer int, size int64) {
		if size < 0 {
			size = 0
		}
		if size > maxMsgSize {
			size = maxMsgSize
		}
		p.Steps = append(p.Steps, simkit.Step{Op: "load", T: peer, I: []int64{size}})
	}
	for round := r.Range(1, 2); round > 0; round-- {
		for peer := 0; peer < nPeers; peer++ {
			first := int64(0)
			if r.Chance(0.5) {
				first = r.Int63n(minI64(ulp/2, 64) + 1)
			}
			load(peer, first)
			remaining := q - first - r.Int63n(minI64(ulp, 200)+1) // leave a small gap below the quota
			for parts := r.Range(1, 3); parts > 0 && remaining > 0; parts-- {
				chunk := remaining
				if parts > 1 {
					chunk = remaining/2 + r.Int63n(remaining/2+1)
				}
				if chunk > maxMsgSize {
					chunk = maxMsgSize
				}
				load(peer, chunk)
				remaining -= chunk
			}
			tiny := int64(1)
			if r.Chance(0.4) {
				tiny = 1 + r.Int63n(minI64(ulp/4+1, 50))
			}
			for n := r.Range(8, 40); n > 0; n-- {
				load(peer, tiny)
			}
		}
		if round > 1 {
			p.Steps = append(p.Steps, simkit.Step{Op: "reset"})
		}
	}
	return p
}

func minI64(a, b int64) int64 {
	if a < b {
		return a
	}
	return b
}

func maxI64(a, b int64) int64 {
	if a > b {
		return a
	}
	return b
}

func genC42(r *simkit.Rand, tier string) *simkit.Plan {
	p := &simkit.Plan{Arm: "faultfree", Knobs: map[string]int64{}}
	if r.Chance(0.2) {
		return genC42Exact(r, p)
	}
	// message quota
	var base int64
	switch r.Weighted([]int{6, 2, 1, 1}) {
	case 0:
		base = int64(r.Range(1, 12))
	case 1:
		base = int64(r.Range(13, 80))
	case 2:
		base = int64(r.Range(1000, 1000000))
	default:
		base = int64(1)<<31 - int64(r.Intn(3))
	}
	p.Knobs["base_msgs"] = base
	// byte quota
	var maxBytes int64
	switch r.Weighted([]int{4, 4, 1, 1}) {
	case 0:
		maxBytes = int64(r.Range(1, 500))
	case 1:
		maxBytes = int64(r.Range(1000, 1000000))
	case 2:
		maxBytes = int64(1)<<40 + r.Int63n(1<<40)
	default:
		maxBytes = int64(1)<<62 - r.Int63n(1000)
	}
	p.Knobs["max_bytes"] = maxBytes
	// reserved percentage in 1/1000 percent; 0 in half of the runs
	if r.Chance(0.5) {
		p.Knobs["pct_milli"] = 0
	} else {
		switch r.Intn(3) {
		case 0:
			p.Knobs["pct_milli"] = int64(r.Range(0, 90)) * 1000
		case 1:
			p.Knobs["pct_milli"] = int64(r.Range(0, 90000))
		default:
			p.Knobs["pct_milli"] = 90000
		}
	}
	// increase factor num/den
	switch r.Weighted([]int{3, 4, 2, 1}) {
	case 0:
		p.Knobs["fac_num"], p.Knobs["fac_den"] = 0, 1
	case 1:
		p.Knobs["fac_num"], p.Knobs["fac_den"] = int64(r.Range(1, 40)), int64(1)<<uint(r.Range(0, 4))
	case 2:
		p.Knobs["fac_num"], p.Knobs["fac_den"] = int64(r.Range(1, 50)), int64(r.Range(3, 30))
	default:
		p.Knobs["fac_num"], p.Knobs["fac_den"] = int64(r.Range(100, 100000)), int64(r.Range(1, 7))
	}
	thr := int64(r.Range(0, 12))
	if r.Chance(0.1) {
		thr = int64(r.Range(13, 50))
	}
	p.Knobs["threshold"] = thr
	nPeers := r.Range(1, 6)
	p.Knobs["n_peers"] = int64(nPeers)
	p.Knobs["cache_cap"] = int64(nPeers + r.Range(0, 10))
	p.Knobs["cache_kind"] = int64(r.Intn(2))
	p.Knobs["n_status"] = int64(r.Intn(3))

	n := r.Range(20, 300)
	wLoad, wReset, wCons := r.Range(8, 40), r.Range(0, 3), r.Range(0, 3)
	q := maxBytes
	if q > maxMsgSize/2 {
		q = maxMsgSize / 2
	}
	sizeW := []int{r.Range(0, 3), r.Range(1, 8), r.Range(0, 4), r.Range(0, 3), r.Range(0, 1), r.Range(0, 4)}
	for i := 0; i < n; i++ {
		switch r.Weighted([]int{wLoad, wReset, wCons}) {
		case 0:
			var size int64
			switch r.Weighted(sizeW) {
			case 0:
				size = 0
			case 1:
				size = r.Int63n(q/8 + 2)
			case 2:
				size = q/2 + r.Int63n(q/2+1)
			case 3:
				size = q + 1 + r.Int63n(q+1)
			case 4:
				size = 2*q + r.Int63n(maxMsgSize-2*q+1)
			default:
				size = int64(r.Range(1, 100))
			}
			if size > maxMsgSize {
				size = maxMsgSize
			}
			p.Steps = append(p.Steps, simkit.Step{Op: "load", T: r.Intn(nPeers), I: []int64{size}})
		case 1:
			p.Steps = append(p.Steps, simkit.Step{Op: "reset"})
		default:
			var cs int64
			switch r.Weighted([]int{1, 6, 2, 1}) {
			case 0:
				cs = int64(r.Range(-2, 0))
			case 1:
				cs = int64(r.Range(1, 60))
			case 2:
				cs = int64(r.Range(61, 2000))
			default:
				cs = int64(r.Range(2001, 100000))
			}
			p.Steps = append(p.Steps, simkit.Step{Op: "consensus", I: []int64{cs}})
		}
	}
	return p
}

// ---- execution -----------------------------------------------------------------------------------

type statusRecorder struct{ resets, quotas int }

func (s *statusRecorder) ResetStatistics() { s.resets++ }
func (s *statusRecorder) AddQuota(_ core.PeerID, _ uint32, _ uint64, _ uint32, _ uint64) {
	s.quotas++
}
func (s *statusRecorder) IsInterfaceNil() bool { return s == nil }

func satAdd(a, b uint64) uint64 {
	if a+b < a {
		return math.MaxUint64
	}
	return a + b
}

func isPow2(x int64) bool { return x > 0 && x&(x-1) == 0 }

type peerModel struct {
	seen      bool
	count     uint64
	bytes     uint64
	firstSize uint64
}

func execC42(c *simkit.Ctx) bool {
	p := c.Plan
	base := uint64(p.Knob("base_msgs", 1))
	maxBytes := uint64(p.Knob("max_bytes", 1))
	facNum, facDen := p.Knob("fac_num", 0), p.Knob("fac_den", 1)
	if facDen < 1 {
		facDen = 1
	}
	thr := p.Knob("threshold", 0)
	nPeers := int(p.Knob("n_peers", 1))
	capacity := p.Knob("cache_cap", int64(nPeers))
	if capacity < int64(nPeers) {
		capacity = int64(nPeers) // precondition: the cacher holds every peer of the run
	}
	cfg := storageUnit.CacheConfig{Name: "verif", Type: storageUnit.LRUCache, Capacity: uint32(capacity)}
	if p.Knob("cache_kind", 0) == 1 {
		cfg.Type, cfg.SizeInBytes = storageUnit.SizeLRUCache, 1<<20
	}
	cacher, err := storageUnit.NewCache(cfg)
	if err != nil {
		c.HarnessErr("NewCache: %v", err)
		return false
	}
	var recs []*statusRecorder
	var handlers []floodPreventers.QuotaStatusHandler
	for i := int64(0); i < p.Knob("n_status", 0); i++ {
		sr := &statusRecorder{}
		recs = append(recs, sr)
		handlers = append(handlers, sr)
	}
	arg := floodPreventers.ArgQuotaFloodPreventer{
		Name:                      "verif",
		Cacher:                    cacher,
		StatusHandlers:            handlers,
		MaxTotalSizePerPeer:       maxBytes,
		PercentReserved:           float32(p.Knob("pct_milli", 0)) / 1000,
		IncreaseFactor:            float32(facNum) / float32(facDen),
		IncreaseThreshold:         uint32(thr),
		BaseMaxNumMessagesPerPeer: uint32(base),
	}
	qfp, err := floodPreventers.NewQuotaFloodPreventer(arg)
	if err != nil {
		c.HarnessErr("NewQuotaFloodPreventer refused generated arguments: %v", err)
		return false
	}
	c.Eventf("new base=%d bytes=%d pct=%v factor=%d/%d thr=%d peers=%d cap=%d", base, maxBytes, arg.PercentReserved, facNum, facDen, thr, nPeers, capacity)

	if p.Knob("shape", 0) == 1 {
		c.Probe("exact_limit_run")
	}
	msgQuota := base // upper bound of the message quota in force
	peers := make([]peerModel, nPeers)
	refusedAfterAccept := false
	for i := range p.Steps {
		st := &p.Steps[i]
		c.CurStep = i
		switch st.Op {
		case "load":
			t := st.T
			if t < 0 || t >= nPeers {
				t = 0
			}
			size := st.Int(0, 0)
			if size < 0 {
				size = 0
			}
			if size > maxMsgSize {
				size = maxMsgSize
			}
			pm := &peers[t]
			first := !pm.seen
			errLoad := qfp.IncreaseLoad(core.PeerID(fmt.Sprintf("peer-%d", t)), uint64(size))
			c.Eventf("%d load peer=%d size=%d -> accepted=%v", i, t, size, errLoad == nil)
			if first {
				pm.seen = true
				pm.firstSize = uint64(size)
				if uint64(size) > maxBytes {
					c.Probe("first_message_oversize")
				}
				if errLoad != nil {
					c.Violate("C42", "first-message-refused", "IncreaseLoad", "the first message of peer %d since the last reset (size %d) was refused: %v", t, size, errLoad)
					break
				}
			}
			if errLoad != nil {
				c.Probe("quota_reached")
				refusedAfterAccept = true
				if size >= 1 && size <= 64 && pm.bytes <= maxBytes && maxBytes-pm.bytes < uint64(size) {
					c.Probe("tiny_message_refused_exactly_at_byte_quota")
				}
				if pm.count == maxU64(1, msgQuota) {
					c.Probe("refused_exactly_at_message_quota")
				}
				c.FP(t, pm.count, pm.bytes)
				break
			}
			pm.count++
			pm.bytes += uint64(size)
			if lim := maxU64(1, msgQuota); pm.count > lim {
				c.Violate("C42", "message-quota-exceeded", "IncreaseLoad", "peer %d: %d messages accepted since the last reset, message quota %d (base %d)", t, pm.count, lim, base)
				break
			}
			if lim := satAdd(maxBytes, pm.firstSize); pm.bytes > lim {
				c.Violate("C42", "byte-quota-exceeded", "IncreaseLoad", "peer %d: %d bytes accepted since the last reset, byte quota %d + first message %d = %d", t, pm.bytes, maxBytes, pm.firstSize, lim)
			}
		case "reset":
			qfp.Reset()
			for k := range peers {
				peers[k] = peerModel{}
			}
			nq := 0
			for _, sr := range recs {
				nq += sr.quotas
			}
			c.Eventf("%d reset (status quotas so far %d)", i, nq)
		case "consensus":
			n := st.Int(0, 0)
			if n > 1<<30 {
				n = 1 << 30
			}
			qfp.ApplyConsensusSize(int(n))
			if n >= 1 && n >= thr {
				over := n - thr
				if isPow2(facDen) && facDen <= 1<<10 && facNum < 1<<12 && over < 1<<11 {
					msgQuota = base + uint64(over*facNum/facDen) // exact in any arithmetic
					c.Probe("consensus_quota_exact")
				} else {
					msgQuota = satAdd(base, uint64(math.Ceil(float64(over)*(float64(facNum)/float64(facDen))*(1+1e-6))))
					c.Probe("consensus_quota_upper_bound")
				}
			}
			c.Eventf("%d consensus n=%d -> message quota bound %d", i, n, msgQuota)
		}
		c.StepsDone++
		if c.Failed("C42") {
			break
		}
	}
	return refusedAfterAccept
}

func maxU64(a, b uint64) uint64 {
	if a > b {
		return a
	}
	return b
}
