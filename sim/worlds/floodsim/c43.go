package floodsim

import (
	"errors"
	"fmt"
	"runtime/debug"
	"sort"
	"strings"
	"sync"
	"testing/synctest"
	"time"

	"github.com/ElrondNetwork/elrond-go/core"
	"github.com/ElrondNetwork/elrond-go/core/throttler"
	"github.com/ElrondNetwork/elrond-go/data/batch"
	"github.com/ElrondNetwork/elrond-go/dataRetriever"
	retrieverMock "github.com/ElrondNetwork/elrond-go/dataRetriever/mock"
	"github.com/ElrondNetwork/elrond-go/dataRetriever/resolvers"
	"github.com/ElrondNetwork/elrond-go/marshal"
	"github.com/ElrondNetwork/elrond-go/p2p"
	"github.com/ElrondNetwork/elrond-go/process"
	"github.com/ElrondNetwork/elrond-go/process/interceptors"
	processMock "github.com/ElrondNetwork/elrond-go/process/mock"
	"github.com/ElrondNetwork/elrond-go/testscommon"
	"github.com/ElrondNetwork/elrond-go/testscommon/p2pmocks"

	"verifsim/simkit"
)

const (
	compSingle = iota
	compMulti
	compResolver
)

var compNames = []string{"SingleDataInterceptor.ProcessReceivedMessage", "MultiDataInterceptor.ProcessReceivedMessage", "TrieNodeResolver.ProcessReceivedMessage"}

// message variants
const (
	varOK = iota
	varUndecodable
	varInvalid
	varOtherShard
	varAntiflood
	varProcessorError
	varWrongVersion // CheckValidity fails with process.ErrInvalidTransactionVersion (the interceptors blacklist the peer)
	varWrongChainID // CheckValidity fails with process.ErrInvalidChainID (same special path)
	numVariants
)

// validityFamily: variants that make CheckValidity of one item fail.
func validityFamily(v int) bool {
	return v == varInvalid || v == varWrongVersion || v == varWrongChainID
}

var errStub = errors.New("floodsim: planned failure")

// ---- generator -----------------------------------------------------------------------------------

func genC43(r *simkit.Rand, tier string) *simkit.Plan {
	p := &simkit.Plan{Arm: "faultfree", Knobs: map[string]int64{}}
	p.Knobs["comp"] = int64(r.Intn(3))
	if r.Chance(0.35) {
		return genC43PoisonBurst(r, p)
	}
	max := r.Range(1, 3)
	p.Knobs["max"] = int64(max)
	nTasks := r.Range(2, 6)
	p.Knobs["n_tasks"] = int64(nTasks)
	need := 0
	for t := 0; t < nTasks; t++ {
		v := varOK
		if r.Chance(0.3) {
			v = r.Range(1, numVariants-1)
		}
		k := r.Range(1, 3)
		p.Knobs[fmt.Sprintf("t%d_var", t)] = int64(v)
		p.Knobs[fmt.Sprintf("t%d_k", t)] = int64(k)
		if r.Chance(0.1) {
			p.Knobs[fmt.Sprintf("t%d_conn", t)] = 1 // the connection of a preferred peer
		}
		if r.Chance(0.15) {
			p.Knobs[fmt.Sprintf("t%d_orig", t)] = 1 // originated by a preferred peer, relayed by whatever the connection is
		}
		need += 4 + 2*k
	}
	// spawn order and release choices
	order := r.Perm(nTasks)
	spawned := 0
	mode := r.Intn(3) // 0: all at once, 1: trickle, 2: mixed
	if mode == 0 {
		for _, t := range order {
			p.Steps = append(p.Steps, simkit.Step{Op: "spawn", I: []int64{int64(t)}})
		}
		spawned = nTasks
	}
	fifoBias := r.Chance(0.3)
	for i := 0; i < need+4 || spawned < nTasks; i++ {
		if spawned < nTasks && (r.Chance(0.35) || i >= need) {
			p.Steps = append(p.Steps, simkit.Step{Op: "spawn", I: []int64{int64(order[spawned])}})
			spawned++
			continue
		}
		idx := int64(r.Intn(8))
		if fifoBias && r.Chance(0.6) {
			idx = 0
		}
		p.Steps = append(p.Steps, simkit.Step{Op: "release", I: []int64{idx}})
	}
	return p
}

// genC43PoisonBurst: first 1-3 messages whose item fails CheckValidity (generic / wrong version / wrong chain id, or another
// early-exit variant) are processed to completion one after the other, then a burst of valid multi-item messages arrives
// whose processing is slow (each is admitted and started, its processing stays parked): a throttler counter that an
// error path released once too often shows as over-admission in the burst.
func genC43PoisonBurst(r *simkit.Rand, p *simkit.Plan) *simkit.Plan {
	p.Knobs["shape"] = 1
	if p.Knobs["comp"] == compResolver && r.Chance(0.7) {
		p.Knobs["comp"] = int64(r.Intn(2))
	}
	max := r.Range(1, 2)
	p.Knobs["max"] = int64(max)
	nPoison := r.Range(1, 3)
	nBurst := r.Range(max+1, max+2)
	if nPoison+nBurst > 6 {
		nBurst = 6 - nPoison
	}
	nTasks := nPoison + nBurst
	p.Knobs["n_tasks"] = int64(nTasks)
	for t := 0; t < nTasks; t++ {
		v, k := varOK, r.Range(1, 3)
		if t < nPoison {
			v = []int{varInvalid, varWrongVersion, varWrongChainID, varWrongVersion, varWrongChainID, varUndecodable, varOtherShard}[r.Intn(7)]
		}
		p.Knobs[fmt.Sprintf("t%d_var", t)] = int64(v)
		p.Knobs[fmt.Sprintf("t%d_k", t)] = int64(k)
		if t >= nPoison+max && r.Chance(0.5) {
			p.Knobs[fmt.Sprintf("t%d_orig", t)] = 1 // arrives when the throttler is full: a preferred peer's message relayed by a regular peer
		}
		if t >= nPoison && r.Chance(0.08) {
			p.Knobs[fmt.Sprintf("t%d_conn", t)] = 1
		}
	}
	last := simkit.Step{Op: "release", I: []int64{-1}} // the goroutine that parked most recently
	for t := 0; t < nPoison; t++ {
		p.Steps = append(p.Steps, simkit.Step{Op: "spawn", I: []int64{int64(t)}})
		for i := 0; i < 5; i++ { // CanProcess, StartProcessing, EndProcessing (+ spare): runs the message to its end
			p.Steps = append(p.Steps, last)
		}
	}
	for t := nPoison; t < nTasks; t++ {
		p.Steps = append(p.Steps, simkit.Step{Op: "spawn", I: []int64{int64(t)}})
		if r.Chance(0.85) {
			p.Steps = append(p.Steps, last, last) // CanProcess, StartProcessing; the processing itself stays parked
		}
	}
	for i := r.Range(0, 12); i > 0; i-- {
		p.Steps = append(p.Steps, simkit.Step{Op: "release", I: []int64{int64(r.Intn(8))}})
	}
	return p
}

// ---- world ---------------------------------------------------------------------------------------

type taskState struct {
	id, variant, k int
	connPref       bool // received over the connection of a preferred peer (exempt from the throttler by design)
	origPref       bool // originated (message.Peer()) by a preferred peer; says nothing about the connection it came over
	spawned, done  bool
	result         string
	logged         bool

	// throttler protocol as seen by the wrapper
	asked, admitted, started, ended bool
	inWork                          bool // parked in / executing a work seam (processor, trie read, send)
	runningAtCheck, windowAtCheck   int
}

type c43world struct {
	mu     sync.Mutex
	parker *simkit.Parker
	real   *throttler.NumGoRoutinesThrottler
	max    int
	comp   int

	taskOf map[uint64]int // goroutine -> task
	tasks  []*taskState

	log                          []string
	violKind                     string
	violMsg                      string
	contended                    bool
	refused                      int
	windowHit                    int
	doubleEnd                    int
	exemptStarts, relayedRefused int
	blacklisted                  int
	maxSeen                      int
	states                       map[[2]int]bool
	panicMsg                     string
	panicSt                      []byte
	harness                      string
}

// taskFor must be called with the lock held.
func (w *c43world) taskFor(gid uint64) *taskState {
	if i, ok := w.taskOf[gid]; ok && i >= 0 && i < len(w.tasks) {
		return w.tasks[i]
	}
	w.harness = "throttler called from a goroutine the harness cannot attribute to a task"
	return &taskState{id: -1}
}

// subject: the bound applies to every task received over a regular (not preferred) connection.
func (t *taskState) subject() bool { return !t.connPref }

// counts must be called with the lock held: tasks from regular connections between start and end; tasks admitted but not started.
func (w *c43world) counts() (running, window int) {
	for _, t := range w.tasks {
		if t.subject() && t.started && (!t.ended || t.inWork) {
			running++ // a task that still works after having called EndProcessing is still running
		}
		if t.subject() && t.asked && t.admitted && !t.started {
			window++
		}
	}
	return
}

func (w *c43world) label(what string) string {
	w.mu.Lock()
	t, ok := w.taskOf[simkit.GoID()]
	w.mu.Unlock()
	if !ok {
		return "t?:" + what
	}
	return fmt.Sprintf("t%d:%s", t, what)
}

func (w *c43world) register(task int) {
	w.mu.Lock()
	w.taskOf[simkit.GoID()] = task
	w.mu.Unlock()
}

// work is a work seam of a task: the goroutine parks there; a task found working after its EndProcessing
// (or without StartProcessing) still counts as running.
func (w *c43world) work(what string) {
	gid := simkit.GoID()
	w.mu.Lock()
	t := w.taskFor(gid)
	t.inWork = true
	if t.subject() && t.started && t.ended {
		running, _ := w.counts()
		w.log = append(w.log, fmt.Sprintf("  t%d works in %s after its EndProcessing, running=%d", t.id, what, running))
		if running > w.max && w.violKind == "" {
			w.violKind = "work-after-end"
			w.violMsg = fmt.Sprintf("task %d is working (%s) after it called EndProcessing; %d tasks run at the same time, max %d", t.id, what, running, w.max)
		}
	}
	w.mu.Unlock()
	w.parker.Gate(w.label(what))
	w.mu.Lock()
	t.inWork = false
	w.mu.Unlock()
}

// ---- throttler wrapper: real NumGoRoutinesThrottler behind parking seams ----

type gatedThrottler struct{ w *c43world }

func (g *gatedThrottler) CanProcess() bool {
	w := g.w
	w.parker.Gate(w.label("CanProcess"))
	ok := w.real.CanProcess()
	gid := simkit.GoID()
	w.mu.Lock()
	defer w.mu.Unlock()
	t := w.taskFor(gid)
	running, window := w.counts()
	w.states[[2]int{running, window}] = true
	if running+window > 0 {
		w.contended = true
	}
	t.asked, t.admitted, t.runningAtCheck, t.windowAtCheck = true, ok, running, window
	if ok && window > 0 {
		w.windowHit++
	}
	if !ok {
		w.refused++
		if t.origPref && !t.connPref {
			w.relayedRefused++
		}
	}
	w.log = append(w.log, fmt.Sprintf("  t%d CanProcess=%v running=%d window=%d", t.id, ok, running, window))
	return ok
}

func (g *gatedThrottler) StartProcessing() {
	w := g.w
	w.parker.Gate(w.label("StartProcessing"))
	w.real.StartProcessing()
	gid := simkit.GoID()
	w.mu.Lock()
	defer w.mu.Unlock()
	t := w.taskFor(gid)
	t.started = true
	running, _ := w.counts()
	if running > w.maxSeen {
		w.maxSeen = running
	}
	w.log = append(w.log, fmt.Sprintf("  t%d StartProcessing returned running=%d asked=%v admitted=%v", t.id, running, t.asked, t.admitted))
	if !t.subject() {
		w.exemptStarts++ // a preferred peer's own connection: started without asking by design, not counted
		return
	}
	if running > w.max && w.violKind == "" {
		switch {
		case !t.asked:
			w.violKind = "started-without-asking"
			w.violMsg = fmt.Sprintf("task %d came over a regular connection (originator preferred: %v) and started without asking the throttler; %d tasks from regular connections run at the same time, max %d", t.id, t.origPref, running, w.max)
		case !t.admitted:
			w.violKind = "started-after-refusal"
			w.violMsg = fmt.Sprintf("task %d started although CanProcess had returned false; %d tasks run at the same time, max %d", t.id, running, w.max)
		case t.runningAtCheck >= w.max:
			w.violKind = "over-admission-sequential"
			w.violMsg = fmt.Sprintf("task %d was admitted (CanProcess true) while %d admitted tasks were already running (max %d); after its StartProcessing %d tasks run", t.id, t.runningAtCheck, w.max, running)
		default:
			w.violKind = "check-then-act"
			w.violMsg = fmt.Sprintf("task %d saw CanProcess true with %d running (%d other admitted tasks between check and start), other tasks started before its StartProcessing: %d tasks run at the same time, max %d", t.id, t.runningAtCheck, t.windowAtCheck, running, w.max)
		}
	}
}

func (g *gatedThrottler) EndProcessing() {
	w := g.w
	gid := simkit.GoID()
	w.mu.Lock()
	t := w.taskFor(gid)
	if t.started && !t.ended {
		t.ended = true // the task has finished its work when it calls EndProcessing
	} else {
		w.doubleEnd++
	}
	running, _ := w.counts()
	w.log = append(w.log, fmt.Sprintf("  t%d EndProcessing called running=%d", t.id, running))
	w.mu.Unlock()
	w.parker.Gate(w.label("EndProcessing"))
	w.real.EndProcessing()
}

func (g *gatedThrottler) IsInterfaceNil() bool { return g == nil }

// ---- stubs ----

type stubData struct {
	w       *c43world
	task    int
	variant int
}

func (d *stubData) CheckValidity() error {
	switch d.variant {
	case varInvalid:
		return errStub
	case varWrongVersion:
		return process.ErrInvalidTransactionVersion
	case varWrongChainID:
		return process.ErrInvalidChainID
	}
	return nil
}
func (d *stubData) IsForCurrentShard() bool { return d.variant != varOtherShard }
func (d *stubData) IsInterfaceNil() bool    { return d == nil }
func (d *stubData) Hash() []byte            { return []byte{byte(d.task)} }
func (d *stubData) Type() string            { return "stub" }
func (d *stubData) Identifiers() [][]byte   { return [][]byte{{byte(d.task)}} }
func (d *stubData) String() string          { return fmt.Sprintf("task %d", d.task) }

type stubFactory struct{ w *c43world }

func (f *stubFactory) Create(buff []byte) (process.InterceptedData, error) {
	if len(buff) < 2 || buff[1] == varUndecodable {
		return nil, errStub
	}
	return &stubData{w: f.w, task: int(buff[0]), variant: int(buff[1])}, nil
}
func (f *stubFactory) IsInterfaceNil() bool { return f == nil }

type stubProcessor struct{ w *c43world }

func (sp *stubProcessor) Validate(data process.InterceptedData, _ core.PeerID) error {
	d := data.(*stubData)
	sp.w.register(d.task) // the interceptor's own goroutine now works for this task
	sp.w.work("Validate")
	if d.variant == varProcessorError {
		return errStub
	}
	return nil
}
func (sp *stubProcessor) Save(data process.InterceptedData, _ core.PeerID, _ string) error {
	sp.w.work("Save")
	return nil
}
func (sp *stubProcessor) RegisterHandler(_ func(topic string, hash []byte, data interface{})) {}
func (sp *stubProcessor) IsInterfaceNil() bool                                                { return sp == nil }

type stubTrie struct{ w *c43world }

func (st *stubTrie) GetSerializedNode(hash []byte) ([]byte, error) {
	st.w.work("GetSerializedNode")
	if len(hash) > 1 && hash[1] == varInvalid {
		return nil, errStub
	}
	return append([]byte("node-"), hash...), nil
}
func (st *stubTrie) GetSerializedNodes(_ []byte, space uint64) ([][]byte, uint64, error) {
	return nil, space, errStub
}
func (st *stubTrie) IsInterfaceNil() bool { return st == nil }

type messageHandler interface {
	ProcessReceivedMessage(message p2p.MessageP2P, fromConnectedPeer core.PeerID) error
}

func (w *c43world) build(c *simkit.Ctx) messageHandler {
	gt := &gatedThrottler{w: w}
	antiflood := func(msg p2p.MessageP2P, _ core.PeerID) error {
		if len(msg.SeqNo()) > 0 && msg.SeqNo()[0] == varAntiflood {
			return errStub
		}
		return nil
	}
	switch w.comp {
	case compSingle, compMulti:
		preferred := &p2pmocks.PeersHolderStub{ContainsCalled: func(pid core.PeerID) bool { return strings.HasPrefix(string(pid), "pref-") }}
		af := &processMock.P2PAntifloodHandlerStub{CanProcessMessageCalled: antiflood, BlacklistPeerCalled: func(_ core.PeerID, _ string, _ time.Duration) {
			w.mu.Lock()
			w.blacklisted++
			w.mu.Unlock()
		}}
		if w.comp == compSingle {
			sdi, err := interceptors.NewSingleDataInterceptor(interceptors.ArgSingleDataInterceptor{
				Topic: "verif", DataFactory: &stubFactory{w}, Processor: &stubProcessor{w}, Throttler: gt, AntifloodHandler: af,
				WhiteListRequest: &testscommon.WhiteListHandlerStub{}, PreferredPeersHolder: preferred, CurrentPeerId: "self",
			})
			if err != nil {
				c.HarnessErr("NewSingleDataInterceptor: %v", err)
				return nil
			}
			return sdi
		}
		mdi, err := interceptors.NewMultiDataInterceptor(interceptors.ArgMultiDataInterceptor{
			Topic: "verif", Marshalizer: &marshal.GogoProtoMarshalizer{}, DataFactory: &stubFactory{w}, Processor: &stubProcessor{w}, Throttler: gt, AntifloodHandler: af,
			WhiteListRequest: &testscommon.WhiteListHandlerStub{}, PreferredPeersHolder: preferred, CurrentPeerId: "self",
		})
		if err != nil {
			c.HarnessErr("NewMultiDataInterceptor: %v", err)
			return nil
		}
		return mdi
	default:
		sender := &retrieverMock.TopicResolverSenderStub{SendCalled: func(_ []byte, _ core.PeerID) error {
			w.work("Send")
			return nil
		}}
		res, err := resolvers.NewTrieNodeResolver(resolvers.ArgTrieNodeResolver{
			SenderResolver: sender, TrieDataGetter: &stubTrie{w}, Marshalizer: &marshal.GogoProtoMarshalizer{},
			AntifloodHandler: &retrieverMock.P2PAntifloodHandlerStub{CanProcessMessageCalled: antiflood}, Throttler: gt,
		})
		if err != nil {
			c.HarnessErr("NewTrieNodeResolver: %v", err)
			return nil
		}
		return res
	}
}

func (t *taskState) originator() string {
	if t.origPref {
		return fmt.Sprintf("pref-originator-%d", t.id)
	}
	return fmt.Sprintf("origin-%d", t.id)
}

func (t *taskState) connection() string {
	if t.connPref {
		return fmt.Sprintf("pref-connection-%d", t.id)
	}
	return fmt.Sprintf("peer-%d", t.id)
}

func (w *c43world) message(t *taskState) p2p.MessageP2P {
	m := &marshal.GogoProtoMarshalizer{}
	msg := &processMock.P2PMessageMock{
		FromField: []byte(t.originator()), PeerField: core.PeerID(t.originator()),
		SeqNoField: []byte{byte(t.variant), byte(t.id)}, TopicField: "verif", SignatureField: []byte("sig"),
	}
	item := func(j int) []byte {
		v := t.variant
		if validityFamily(v) && w.comp == compMulti && j != t.k-1 {
			v = varOK // only the last item of a batch is the bad one: the items before it pass CheckValidity
		}
		return []byte{byte(t.id), byte(v), byte(j)}
	}
	switch w.comp {
	case compSingle:
		msg.DataField = item(0)
	case compMulti:
		if t.variant == varUndecodable {
			msg.DataField = []byte{0xff, 0xff, 0xff, 0xff, 0x01}
			break
		}
		b := &batch.Batch{}
		for j := 0; j < t.k; j++ {
			b.Data = append(b.Data, item(j))
		}
		msg.DataField, _ = m.Marshal(b)
	default:
		if t.variant == varUndecodable {
			msg.DataField = []byte{0xff, 0xff, 0xff, 0xff, 0x01}
			break
		}
		rd := &dataRetriever.RequestData{Type: dataRetriever.HashType, Value: item(0)}
		if t.k > 1 {
			b := &batch.Batch{}
			for j := 0; j < t.k; j++ {
				b.Data = append(b.Data, item(j))
			}
			rd.Type = dataRetriever.HashArrayType
			rd.Value, _ = m.Marshal(b)
		}
		msg.DataField, _ = m.Marshal(rd)
	}
	return msg
}

func (w *c43world) runTask(h messageHandler, t *taskState) {
	defer func() {
		if r := recover(); r != nil {
			w.mu.Lock()
			if w.panicMsg == "" {
				w.panicMsg, w.panicSt = fmt.Sprint(r), debug.Stack()
			}
			t.done, t.result = true, "panic"
			w.mu.Unlock()
		}
	}()
	w.register(t.id)
	err := h.ProcessReceivedMessage(w.message(t), core.PeerID(t.connection()))
	w.mu.Lock()
	t.done = true
	t.result = "nil"
	if err != nil {
		t.result = "error"
	}
	w.mu.Unlock()
}

// flush moves what the goroutines recorded into the deterministic event log (driver only, after Wait).
func (w *c43world) flush(c *simkit.Ctx) {
	w.mu.Lock()
	defer w.mu.Unlock()
	for _, l := range w.log {
		c.Eventf("%s", l)
	}
	w.log = w.log[:0]
	for _, t := range w.tasks {
		if t.done && !t.logged {
			t.logged = true
			c.Eventf("  t%d ProcessReceivedMessage returned %s", t.id, t.result)
		}
	}
	if w.harness != "" {
		c.HarnessErr("%s", w.harness)
	}
	if w.panicMsg != "" {
		simkit.ClassifyPanic(c, w.panicMsg, w.panicSt)
		w.panicMsg = ""
	}
	if w.violKind != "" && !c.Failed("C43") {
		c.Violate("C43", w.violKind, compNames[w.comp], "%s", w.violMsg)
	}
}

func execC43(c *simkit.Ctx) bool {
	p := c.Plan
	w := &c43world{max: int(p.Knob("max", 1)), comp: int(p.Knob("comp", 0)), taskOf: map[uint64]int{}, states: map[[2]int]bool{}}
	if w.max < 1 {
		w.max = 1
	}
	if w.comp < 0 || w.comp > compResolver {
		w.comp = compSingle
	}
	nTasks := int(p.Knob("n_tasks", 2))
	if nTasks < 1 || nTasks > 16 {
		c.HarnessErr("bad n_tasks %d", nTasks)
		return false
	}
	for t := 0; t < nTasks; t++ {
		v := int(p.Knob(fmt.Sprintf("t%d_var", t), 0))
		if v < 0 || v >= numVariants {
			v = varOK
		}
		k := int(p.Knob(fmt.Sprintf("t%d_k", t), 1))
		if k < 1 {
			k = 1
		}
		if k > 4 {
			k = 4
		}
		ts := &taskState{id: t, variant: v, k: k}
		if w.comp != compResolver { // resolvers have no preferred-peer exemption
			ts.connPref = p.Knob(fmt.Sprintf("t%d_conn", t), 0) == 1
			ts.origPref = p.Knob(fmt.Sprintf("t%d_orig", t), 0) == 1
		}
		w.tasks = append(w.tasks, ts)
	}
	c.Eventf("comp=%s max=%d tasks=%d", compNames[w.comp], w.max, nTasks)
	simkit.Bubble(c, func() {
		var err error
		w.real, err = throttler.NewNumGoRoutinesThrottler(int32(w.max))
		if err != nil {
			c.HarnessErr("NewNumGoRoutinesThrottler: %v", err)
			return
		}
		w.parker = simkit.NewParker()
		h := w.build(c)
		if h == nil {
			return
		}
		for i := range p.Steps {
			st := &p.Steps[i]
			c.CurStep = i
			switch st.Op {
			case "spawn":
				t := int(st.Int(0, 0))
				if t < 0 || t >= nTasks || w.tasks[t].spawned {
					continue
				}
				w.tasks[t].spawned = true
				c.Eventf("%d spawn t%d variant=%d k=%d", i, t, w.tasks[t].variant, w.tasks[t].k)
				go w.runTask(h, w.tasks[t])
				synctest.Wait()
			case "release":
				ws := w.parker.Waiting()
				if len(ws) == 0 {
					continue
				}
				idx := int(st.Int(0, 0) % int64(len(ws)))
				if idx < 0 {
					idx += len(ws) // negative: counted from the most recently parked goroutine
				}
				c.Eventf("%d release %d/%d %s", i, idx, len(ws), ws[idx].Label)
				w.parker.Release(idx)
				synctest.Wait()
			default:
				continue
			}
			c.StepsDone++
			w.flush(c)
			if c.Failed("C43") || c.Harness != "" {
				break
			}
		}
		// drain deterministically: always the oldest parked goroutine
		for n := 0; ; n++ {
			ws := w.parker.Waiting()
			if len(ws) == 0 {
				break
			}
			if n > 2000 {
				c.HarnessErr("drain did not terminate")
				w.parker.ReleaseAll()
				break
			}
			w.parker.Release(0)
			synctest.Wait()
		}
		synctest.Wait()
		w.flush(c) // the drain is a deterministic schedule too (always the oldest parked goroutine)
	})
	w.mu.Lock()
	defer w.mu.Unlock()
	if w.refused > 0 {
		c.Probe("tasks_refused")
	}
	if w.windowHit > 0 {
		c.Probe("check_then_act_window_hit")
	}
	if w.maxSeen >= w.max {
		c.Probe("max_reached")
	}
	if w.doubleEnd > 0 {
		c.Probe("end_without_running_task")
	}
	if w.exemptStarts > 0 {
		c.Probe("preferred_connection_started_without_asking")
	}
	if w.relayedRefused > 0 {
		c.Probe("relayed_message_of_preferred_originator_refused_when_full")
	}
	if w.blacklisted > 0 {
		c.Probe("peer_blacklisted_for_wrong_version_or_undecodable")
	}
	if p.Knob("shape", 0) == 1 {
		c.Probe("poison_then_burst_run")
	}
	keys := make([][2]int, 0, len(w.states))
	for k := range w.states {
		keys = append(keys, k)
	}
	sort.Slice(keys, func(i, j int) bool {
		return keys[i][0] < keys[j][0] || (keys[i][0] == keys[j][0] && keys[i][1] < keys[j][1])
	})
	for _, k := range keys {
		c.FP(w.max, k[0], k[1])
	}
	return w.contended
}
