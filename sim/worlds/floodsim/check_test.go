package floodsim

import (
	"testing"

	"verifsim/simkit"
)

func TestCheck(t *testing.T) { simkit.Main(t, World{}) }
