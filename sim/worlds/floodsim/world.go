// Package floodsim is world W13: per-peer flood quotas (C42) and the goroutine throttler under the
// interceptors / resolvers that ask it (C43).
package floodsim

import (
	"fmt"
	"sync"

	logger "github.com/ElrondNetwork/elrond-go-logger"

	"verifsim/simkit"
)

// World implements simkit.World.
type World struct{}

var quietOnce sync.Once

func quiet() { quietOnce.Do(func() { _ = logger.SetLogLevel("*:NONE") }) }

func (World) Name() string         { return "floodsim" }
func (World) Properties() []string { return []string{"C42", "C43"} }

func (World) Real(prop string) []string {
	switch prop {
	case "C42":
		return []string{"process/throttle/antiflood/floodPreventers.quotaFloodPreventer (IncreaseLoad, Reset, ApplyConsensusSize)",
			"storage/storageUnit.NewCache -> storage/lrucache.lruCache (LRU and size-bounded LRU)"}
	case "C43":
		return []string{"core/throttler.NumGoRoutinesThrottler", "process/interceptors.SingleDataInterceptor", "process/interceptors.MultiDataInterceptor",
			"process/interceptors.baseDataInterceptor (preProcessMesage, processInterceptedData)", "dataRetriever/resolvers.TrieNodeResolver + messageProcessor (canProcessMessage, parseReceivedMessage)",
			"marshal.GogoProtoMarshalizer, data/batch.Batch, dataRetriever.RequestData", "the goroutines the interceptors start themselves"}
	}
	return nil
}

func (World) Stub(prop string) []string {
	switch prop {
	case "C42":
		return []string{"QuotaStatusHandler: 0-2 recording stubs", "reset timer: Reset is a plan step"}
	case "C43":
		return []string{"throttler wrapper: delegates to the real NumGoRoutinesThrottler, parks the caller before CanProcess / StartProcessing / EndProcessing and counts running tasks",
			"scheduler: testing/synctest bubble + simkit.Parker; the plan releases one parked goroutine at a time, synctest.Wait() is the barrier",
			"intercepted-data factory, intercepted data, interceptor processor (parks in Validate and Save), antiflood handler (CanProcessMessage refuses planned messages; BlacklistPeer counted), whitelist handler, preferred-peers holder (Contains = planned set of preferred peer ids), trie data getter (parks per node), topic resolver sender (parks in Send), p2p messages"}
	}
	return nil
}

func (World) Assumptions(prop string) []string {
	switch prop {
	case "C42":
		return []string{
			"the cacher holds at least as many entries as there are peers in the run (an evicted peer entry restarts that peer's quota; the property is about the quota logic, not about cache sizing)",
			"message sizes are lengths of in-memory messages: at most 2^40 bytes (no uint64 wrap-around of the per-peer byte counter within one reset interval)",
			"message quota in force = BaseMaxNumMessagesPerPeer until an ApplyConsensusSize(n) with n >= 1 and n >= IncreaseThreshold sets it to base + floor((n - threshold) * IncreaseFactor); other calls leave it unchanged. For factors k/2^j whose products are exact the oracle computes this with integers; for other factors it uses the upper bound base + ceil((n - threshold) * factor * (1 + 1e-6)), never the float32 arithmetic of the code",
			"byte quota = MaxTotalSizePerPeer; the reserved percentage only makes the implementation stricter and is ignored by the oracle (half of the runs set it to 0 so that the bound is tight)",
		}
	case "C43":
		return []string{
			"the bound applies to tasks received over regular connections: a message received over the connection of a preferred peer skips CanProcess by design and is not counted (it still occupies the real counter); a message ORIGINATED by a preferred peer but relayed over a regular connection is counted like any other; no self-to-self messages; the resolver has no exemption",
			"a task is 'running' from the return of StartProcessing to its call of EndProcessing, as seen by the wrapper (attributed per task; a second EndProcessing of the same task is ignored); a task parked at the EndProcessing seam no longer counts; a task found inside a work seam (processor, trie read, send) after its EndProcessing still counts (kind work-after-end)",
			"interleavings are decided at seam granularity (throttler calls, processor calls, trie reads, sends)",
			"classification: the start that pushes the count above max is 'started-without-asking' if that task never called CanProcess, 'started-after-refusal' if that task's CanProcess had returned false, 'over-admission-sequential' if the count was already >= max when its CanProcess returned true, otherwise 'check-then-act' (another task started between its check and its start)",
			"a task whose EndProcessing is never called is not a violation of this property (the count only stays high)",
		}
	}
	return nil
}

func (World) Rule(prop string) string {
	switch prop {
	case "C42":
		return "20 % of the runs: byte quota 2^25..2^41 placed next to / just above the midpoint between two 32-bit floats, no reserved percentage, per peer a small first message + 1-3 large messages filling the quota to within a few bytes + 8-40 tiny messages; other runs: constructor arguments over everything NewQuotaFloodPreventer accepts (base messages 1..2^31, byte quota 1..2^62, reserved 0..90 % (0 in half of the runs), increase factor >= 0 dyadic or arbitrary, threshold 0..50), LRU or size-LRU cacher with capacity >= peers; 20-300 events IncreaseLoad(peer,size) | Reset | ApplyConsensusSize(n) over 1-6 peers, sizes 0 .. beyond the byte quota; non-trivial = some peer was refused after having been accepted (a quota was reached); distinct = hash of full plan; states = (peer, accepted count, accepted bytes) at refusals"
	case "C43":
		return "component = SingleDataInterceptor | MultiDataInterceptor | TrieNodeResolver, max 1-3, 2-6 tasks (goroutines calling ProcessReceivedMessage) with message variants (ok with 1-3 items, undecodable, one item failing CheckValidity with a generic error / process.ErrInvalidTransactionVersion / process.ErrInvalidChainID (the blacklisting path), other shard, refused by antiflood, processor error), per message the connection (regular | preferred peer, 10 %) and the originator (regular | preferred peer, 15 %) are planned independently, steps spawn(task) | release(i-th parked goroutine; negative = from the most recently parked) inside a synctest bubble; 35 % of the runs are poison-then-burst: 1-3 failing messages processed to their end, then max+1..max+2 valid messages admitted one after the other while their processing stays parked; non-trivial = some CanProcess was evaluated while another task was admitted or running; distinct = hash of full plan; states = (running, in-window) pairs seen at CanProcess"
	}
	return ""
}

func (World) Budget(prop, tier string) int {
	q := map[string]int{"C42": 80000, "C43": 60000}[prop]
	if tier == "thorough" {
		return q * 30
	}
	return q
}

func (World) Generate(r *simkit.Rand, prop, tier string, race bool) *simkit.Plan {
	switch prop {
	case "C42":
		return genC42(r, tier)
	case "C43":
		return genC43(r, tier)
	}
	return nil
}

func (World) Execute(c *simkit.Ctx) bool {
	quiet()
	switch c.Plan.Property {
	case "C42":
		return execC42(c)
	case "C43":
		return execC43(c)
	}
	c.HarnessErr("unknown property %s", c.Plan.Property)
	return false
}

// Simplify proposes simpler C43 plans: a lower maximum, fewer tasks, plain messages.
func (World) Simplify(p *simkit.Plan) []*simkit.Plan {
	if p.Property != "C43" {
		return nil
	}
	var out []*simkit.Plan
	if p.Knob("max", 1) > 1 {
		q := p.Clone()
		q.Knobs["max"] = p.Knob("max", 1) - 1
		out = append(out, q)
	}
	if n := p.Knob("n_tasks", 2); n > 2 {
		q := p.Clone()
		q.Knobs["n_tasks"] = n - 1
		out = append(out, q)
	}
	for t := int64(0); t < p.Knob("n_tasks", 2); t++ {
		for _, k := range []string{"var", "k"} {
			name := fmt.Sprintf("t%d_%s", t, k)
			def := int64(0)
			if k == "k" {
				def = 1
			}
			if p.Knob(name, def) != def {
				q := p.Clone()
				q.Knobs[name] = def
				out = append(out, q)
			}
		}
	}
	return out
}
