package forksim

import (
	"fmt"
	"math"
	"time"

	"github.com/ElrondNetwork/elrond-go/core"
	"github.com/ElrondNetwork/elrond-go/data"
	"github.com/ElrondNetwork/elrond-go/data/block"
	"github.com/ElrondNetwork/elrond-go/process"
	processSync "github.com/ElrondNetwork/elrond-go/process/sync"
	"github.com/ElrondNetwork/elrond-go/storage/timecache"

	"verifsim/simkit"
)

// timeSpanForBadHeaders mirrors factory/processComponents.go (unexported there).
const timeSpanForBadHeaders = 2 * time.Minute

// ---- boundary stubs -----------------------------------------------------------------------------------

// roundStub is the logical round clock (consensus.RoundHandler); the driver advances it on "tick" steps.
type roundStub struct {
	idx int64
	dur time.Duration
}

func (r *roundStub) Index() int64                                         { return r.idx }
func (r *roundStub) BeforeGenesis() bool                                  { return false }
func (r *roundStub) UpdateRound(time.Time, time.Time)                     {}
func (r *roundStub) TimeStamp() time.Time                                 { return time.Unix(0, 0) }
func (r *roundStub) TimeDuration() time.Duration                          { return r.dur }
func (r *roundStub) RemainingTime(time.Time, time.Duration) time.Duration { return r.dur }
func (r *roundStub) IsInterfaceNil() bool                                 { return r == nil }

// trackerStub is the part of process.BlockTracker the detectors use: the start header and the
// registration of the self-notarized callback (which the driver later invokes on "notar" steps).
type trackerStub struct {
	process.BlockTracker // nil: any other method would panic outside repository frames => harness error
	start                data.HeaderHandler
	handler              func(shardID uint32, headers []data.HeaderHandler, hashes [][]byte)
}

func (t *trackerStub) GetSelfNotarizedHeader(uint32, uint64) (data.HeaderHandler, []byte, error) {
	return t.start, genesisHash, nil
}
func (t *trackerStub) RegisterSelfNotarizedFromCrossHeadersHandler(h func(uint32, []data.HeaderHandler, [][]byte)) {
	t.handler = h
}
func (t *trackerStub) IsInterfaceNil() bool { return t == nil }

// ---- one detector under test ---------------------------------------------------------------------------

type twin struct {
	name string
	fd   process.ForkDetector
	rh   *roundStub
	bt   *trackerStub
}

type world struct {
	c           *simkit.Ctx
	meta        bool
	genesisTime int64
	roundSec    int64
	baseNonce   uint64
	baseRound   uint64
	tw          [2]*twin

	// the driver's own knowledge (what a node knows about itself)
	ownNonce        []uint64
	ownHash         [][]byte
	rollbackPending [2]bool // per twin: while a shifted delivery is outstanding the twins may consume a request at different checks
	lastStuck       bool

	// cross-batch shifts: batches one twin still has to receive
	pending       []deferred
	shiftAccepted bool
	// highest nonce among the headers each twin accepted (AddHeader returned nil): mirrors highestNonceReceived
	hnr         [2]uint64
	noBlacklist bool // no header of the plan has a wrong timestamp: the blacklist stays empty

	// non-triviality bookkeeping
	permutedAccepted bool
	procAccepted     bool
	checksAfterPerm  int
	lastFinal        uint64
}

// deferred is a batch of received headers that one twin gets some events later than the other.
type deferred struct {
	twin  int
	dueAt int // delivered before the step with this index runs (or at the end of the plan)
	step  *simkit.Step
}

func (w *world) mkHeader(nonce, round uint64, epoch uint32, prev []byte, badTS bool) data.HeaderHandler {
	ts := uint64(w.genesisTime) + (round-w.baseRound)*uint64(w.roundSec)
	if badTS {
		ts += 3
	}
	if w.meta {
		return &block.MetaBlock{Nonce: nonce, Round: round, Epoch: epoch, TimeStamp: ts, PrevHash: prev}
	}
	return &block.Header{Nonce: nonce, Round: round, Epoch: epoch, TimeStamp: ts, PrevHash: prev}
}

func newTwin(w *world, name string) (*twin, error) {
	t := &twin{name: name, rh: &roundStub{idx: int64(w.baseRound), dur: time.Duration(w.roundSec) * time.Second}}
	var start data.HeaderHandler
	if w.meta {
		start = &block.MetaBlock{Nonce: w.baseNonce, Round: w.baseRound}
	} else {
		start = &block.Header{Nonce: w.baseNonce, Round: w.baseRound}
	}
	t.bt = &trackerStub{start: start}
	bl := timecache.NewTimeCache(timeSpanForBadHeaders)
	var err error
	if w.meta {
		t.fd, err = processSync.NewMetaForkDetector(t.rh, bl, t.bt, w.genesisTime)
	} else {
		t.fd, err = processSync.NewShardForkDetector(t.rh, bl, t.bt, w.genesisTime)
	}
	return t, err
}

func errStr(err error) string {
	if err == nil {
		return "ok"
	}
	return err.Error()
}

func stateName(s process.BlockHeaderState) string {
	switch s {
	case process.BHReceived:
		return "received"
	case process.BHProcessed:
		return "processed"
	case process.BHProposed:
		return "proposed"
	case process.BHNotarized:
		return "notarized"
	}
	return fmt.Sprint(int(s))
}

func isStuckSignature(fi *process.ForkInfo) bool {
	return fi.IsDetected && fi.Nonce == math.MaxUint64 && fi.Hash == nil
}

func fiStr(fi *process.ForkInfo) string {
	return fmt.Sprintf("{detected=%v nonce=%d round=%d hash=%x}", fi.IsDetected, fi.Nonce, fi.Round, fi.Hash)
}

// compareFinal is the second half of clause (ii): both twins agree on the final block.
func (w *world) compareFinal(site string) {
	a, b := w.tw[0].fd, w.tw[1].fd
	if a.GetHighestFinalBlockNonce() != b.GetHighestFinalBlockNonce() || !sameBytes(a.GetHighestFinalBlockHash(), b.GetHighestFinalBlockHash()) {
		w.c.Violate("C20", "twin-final-differs", site,
			"after identical histories that differ only in the order of competing received headers inside a batch: final A=(%d,%x) B=(%d,%x)",
			a.GetHighestFinalBlockNonce(), a.GetHighestFinalBlockHash(), b.GetHighestFinalBlockNonce(), b.GetHighestFinalBlockHash())
	}
}

// check calls CheckFork on both twins and applies clauses (i) and (ii).
func (w *world) check(site string) {
	c := w.c
	var fis [2]*process.ForkInfo
	for i, t := range w.tw {
		fis[i] = t.fd.CheckFork()
	}
	a, b := fis[0], fis[1]
	// (ii): identical fork choice on both twins, once both have received the same set of events
	// (a rollback request that only one twin still holds - the other one reported it at a check inside a shift window,
	// where "stuck" has priority in one twin only - makes this report a driver request, not a fork choice)
	requestHeldByOneTwin := w.rollbackPending[0] != w.rollbackPending[1]
	// (the stuck signature selects no nonce; whether consensus counts as stuck depends on probableHighestNonce, which the
	// unchanged detector recomputes in Reset* from the stored headers but not in the self-notarized callback: callback
	// then reset and reset then callback leave different values; see Assumptions)
	stuckByProbableNonce := isStuckSignature(a) != isStuckSignature(b) &&
		w.tw[0].fd.ProbableHighestNonce() != w.tw[1].fd.ProbableHighestNonce()
	if stuckByProbableNonce && len(w.pending) == 0 {
		c.Probe("fork_comparison_skipped_stuck_by_probable_nonce")
	}
	// (a header that one twin accepted and later purged as invalid while the other twin, receiving it after the final
	// checkpoint moved, rejected it before counting it, leaves the twins with different "highest nonce received": the
	// unchanged detector's same-round tie-break and too-late rule read that value; see Assumptions)
	highestNonceDiffers := w.hnr[0] != w.hnr[1]
	if highestNonceDiffers && len(w.pending) == 0 {
		c.Probe("fork_comparison_skipped_highest_received_nonce_differs")
	}
	if len(w.pending) == 0 {
		if !requestHeldByOneTwin && !highestNonceDiffers && !stuckByProbableNonce && (a.IsDetected != b.IsDetected || a.Nonce != b.Nonce || a.Round != b.Round || !sameBytes(a.Hash, b.Hash)) {
			c.Violate("C20", "twin-fork-differs", site,
				"CheckFork differs between twins that received the same events and differ only in the order in which competing received headers arrived: A=%s B=%s",
				fiStr(a), fiStr(b))
		}
		w.compareFinal(site)
	}

	// (i) fork nonce above the final nonce, unless a rollback was requested or the stuck signature is returned
	var exempt [2]string
	for i, t := range w.tw {
		fi := fis[i]
		switch {
		case isStuckSignature(fi):
			exempt[i] = "stuck"
		case w.rollbackPending[i]:
			exempt[i] = "rollback-requested"
			w.rollbackPending[i] = false // one request, one exempt report
		}
		final := t.fd.GetHighestFinalBlockNonce()
		if fi.IsDetected && exempt[i] == "" && fi.Nonce <= final {
			c.Violate("C20", "fork-at-or-below-final", site,
				"twin %s: CheckFork reports a fork at nonce %d (round %d, hash %x) while the highest final nonce is %d; no rollback was requested and this is not the stuck signature",
				t.name, fi.Nonce, fi.Round, fi.Hash, final)
		}
	}
	switch exempt[0] {
	case "stuck":
		c.Probe("forced_fork_stuck_signature")
	case "rollback-requested":
		c.Probe("rollback_request_reported")
	}
	w.lastStuck = isStuckSignature(a) && isStuckSignature(b)
	if a.IsDetected && exempt[0] == "" {
		c.Probe("fork_detected")
		if a.Round == process.MinForkRound && a.Hash != nil {
			c.Probe("fork_triggered_by_notarized")
		}
	}
	if (w.permutedAccepted || w.shiftAccepted) && len(w.pending) == 0 {
		w.checksAfterPerm++
	}
	c.Eventf("  check A=%s B=%s final=%d/%x probable=%d exempt=%q/%q outstanding=%d", fiStr(a), fiStr(b),
		w.tw[0].fd.GetHighestFinalBlockNonce(), w.tw[0].fd.GetHighestFinalBlockHash(), w.tw[0].fd.ProbableHighestNonce(), exempt[0], exempt[1], len(w.pending))
	c.FP(a.IsDetected, a.Nonce-w.baseNonce, a.Round, w.tw[0].fd.GetHighestFinalBlockNonce()-w.baseNonce, len(w.ownNonce))
}

// deliver gives the batch of a recv step to one twin in the given order and returns the accepted received hashes.
func (w *world) deliver(ti int, st *simkit.Step, order []int) map[string]bool {
	c, t := w.c, w.tw[ti]
	nonce := uint64(st.Int(0, 0))
	accepted := map[string]bool{}
	for _, j := range order {
		round, epoch, fl := uint64(st.Int(2+3*j, 0)), uint32(st.Int(3+3*j, 0)), st.Int(4+3*j, 0)
		hash, prev := st.Bytes(2*j), st.Bytes(2*j+1)
		state := process.BHReceived
		if fl&flagProposed != 0 {
			state = process.BHProposed
		}
		err := t.fd.AddHeader(w.mkHeader(nonce, round, epoch, prev, fl&flagBadTimestamp != 0), hash, state, nil, nil)
		c.Eventf("  %s AddHeader(n=%d r=%d e=%d h=%x prev=%x %s) = %s", t.name, nonce, round, epoch, hash, prev, stateName(state), errStr(err))
		if err == nil && state == process.BHReceived {
			accepted[string(hash)] = true
		}
		if err == nil && nonce > w.hnr[ti] {
			w.hnr[ti] = nonce
		}
		if err != nil && ti == 0 {
			c.Probe("rejected:" + err.Error())
		}
		if ti == 0 && state == process.BHReceived && int64(round) < t.rh.idx-process.BlockFinality {
			c.Probe("received_too_late")
		}
	}
	return accepted
}

// deliverDue hands over the shifted batches whose time has come (all of them when si < 0).
func (w *world) deliverDue(si int) (delivered bool) {
	keep := w.pending[:0]
	for _, d := range w.pending {
		if si >= 0 && d.dueAt > si {
			keep = append(keep, d)
			continue
		}
		if d.step.Op == "notar" {
			w.c.Eventf("late delivery to %s of the self-notarized callback", w.tw[d.twin].name)
			w.deliverNotar(d.twin, d.step)
			w.shiftAccepted = true
			w.c.Probe("notarization_shift_delivered")
			w.lastStuck = false
			delivered = true
			continue
		}
		k := (len(d.step.I) - 2) / 3
		if k > 4 {
			k = 4
		}
		w.c.Eventf("late delivery to %s of the batch of step nonce=%d", w.tw[d.twin].name, d.step.Int(0, 0))
		order := nthPerm(0, k)
		if d.twin == 1 {
			order = nthPerm(d.step.Int(1, 0), k)
		}
		if acc := w.deliver(d.twin, d.step, order); len(acc) > 0 {
			w.shiftAccepted = true
			w.c.Probe("cross_batch_shift_delivered_and_accepted")
		}
		w.lastStuck = false
		delivered = true
	}
	w.pending = keep
	return delivered
}

// deliverNotar invokes the self-notarized callback the shard detector registered with the block tracker.
func (w *world) deliverNotar(ti int, st *simkit.Step) {
	t := w.tw[ti]
	if t.bt.handler == nil {
		return
	}
	m := (len(st.I) - 1) / 2
	if m > len(st.B) {
		m = len(st.B)
	}
	shard := core.MetachainShardId
	if st.Int(0, 1) == 0 {
		shard = 1
	}
	var sn []data.HeaderHandler
	var snh [][]byte
	for j := 0; j < m; j++ {
		sn = append(sn, &block.Header{Nonce: uint64(st.Int(1+2*j, 0)), Round: uint64(st.Int(2+2*j, 0))})
		snh = append(snh, st.Bytes(j))
	}
	t.bt.handler(shard, sn, snh)
	w.c.Eventf("  %s self-notarized callback shard=%d n=%d.. (%d headers)", t.name, shard, st.Int(1, 0), m)
}

// notarShiftAllowed: a notarization callback may reach one twin k events later than the other only across recovery
// calls and passive events (ResetProbableHighestNonce, ResetFork, round ticks, CheckFork, SetRollBackNonce), and only
// when no other shifted delivery is outstanding. Header arrivals and processed blocks are excluded from these windows
// because of the order dependence of the unchanged detector between a header and a callback that moves the final
// checkpoint without purging (see Assumptions).
func (w *world) notarShiftAllowed(si, k int) bool {
	p := w.c.Plan
	if k < 1 || len(w.pending) > 0 {
		return false
	}
	for j := si + 1; j <= si+k && j < len(p.Steps); j++ {
		switch p.Steps[j].Op {
		case "resetprob", "resetfork", "tick", "check", "setrb":
		default:
			return false
		}
	}
	return true
}

// shiftAllowed decides whether the batch of step si may reach one twin k events later than the other without
// giving the two twins legitimately different information (see Assumptions): the window must contain only events
// that neither forget headers nor move the final checkpoint without purging, and the round clock may advance only
// if every header of the batch is classified the same way (too late / on time / too early) at both delivery times.
func (w *world) shiftAllowed(si, k int) bool {
	p := w.c.Plan
	if !w.noBlacklist || k < 1 {
		return false
	}
	var ticks int64
	for j := si + 1; j <= si+k && j < len(p.Steps); j++ {
		switch p.Steps[j].Op {
		case "recv", "proc", "check", "setrb", "addnotar":
		case "tick":
			d := p.Steps[j].Int(0, 1)
			if d < 1 {
				d = 1
			}
			if d > 40 {
				d = 40
			}
			ticks += d
		default:
			return false
		}
	}
	if ticks > 0 {
		st := &p.Steps[si]
		idx := w.tw[0].rh.idx
		n := (len(st.I) - 2) / 3
		for j := 0; j < n && j < 4; j++ {
			round := st.Int(2+3*j, 0)
			late0, late1 := round < idx-process.BlockFinality, round < idx+ticks-process.BlockFinality
			early0, early1 := round > idx+1, round > idx+ticks+1
			if late0 != late1 || early0 != early1 {
				return false
			}
		}
	}
	return true
}

func execC20(c *simkit.Ctx) (nontrivial bool) {
	simkit.Bubble(c, func() { nontrivial = run(c) })
	return nontrivial
}

func run(c *simkit.Ctx) bool {
	p := c.Plan
	w := &world{
		c:           c,
		meta:        p.Knob("meta", 0) == 1,
		genesisTime: p.Knob("genesisTime", 1600000000),
		roundSec:    p.Knob("roundSec", 6),
		baseNonce:   uint64(p.Knob("baseNonce", 0)),
		baseRound:   uint64(p.Knob("baseRound", 0)),
	}
	if w.roundSec < 1 {
		w.roundSec = 1
	}
	checkEvery := p.Knob("checkEvery", 0) == 1
	for i, name := range []string{"A", "B"} {
		t, err := newTwin(w, name)
		if err != nil {
			c.HarnessErr("new fork detector: %v", err)
			return false
		}
		w.tw[i] = t
	}
	w.lastFinal = w.baseNonce
	w.hnr = [2]uint64{w.baseNonce, w.baseNonce}
	w.noBlacklist = true
	for si := range p.Steps {
		st := &p.Steps[si]
		switch st.Op {
		case "recv":
			for j := 0; 4+3*j < len(st.I); j++ {
				if st.I[4+3*j]&flagBadTimestamp != 0 {
					w.noBlacklist = false
				}
			}
		case "proc":
			if st.Int(3, 0)&flagBadTimestamp != 0 {
				w.noBlacklist = false
			}
		}
	}
	headHash := func() []byte {
		if len(w.ownHash) == 0 {
			return genesisHash
		}
		return w.ownHash[len(w.ownHash)-1]
	}
	headNonce := func() uint64 {
		if len(w.ownNonce) == 0 {
			return w.baseNonce
		}
		return w.ownNonce[len(w.ownNonce)-1]
	}
	onOwn := func(hash []byte) bool {
		for _, h := range w.ownHash {
			if sameBytes(h, hash) {
				return true
			}
		}
		return false
	}
	popOwn := func() {
		n, h := headNonce(), headHash()
		for _, t := range w.tw {
			t.fd.RemoveHeader(n, h)
		}
		w.ownNonce = w.ownNonce[:len(w.ownNonce)-1]
		w.ownHash = w.ownHash[:len(w.ownHash)-1]
	}

	for si := range p.Steps {
		st := &p.Steps[si]
		c.CurStep = si
		w.deliverDue(si)
		didSomething := true
		switch st.Op {
		case "tick":
			d := st.Int(0, 1)
			if d < 1 {
				d = 1
			}
			if d > 40 {
				d = 40
			}
			for _, t := range w.tw {
				t.rh.idx += d
			}
			time.Sleep(time.Duration(d*w.roundSec) * time.Second) // bubble clock: the blacklist expires in step with the rounds
			c.SimNanos += d * w.roundSec * int64(time.Second)
			c.Eventf("tick +%d -> round %d", d, w.tw[0].rh.idx)

		case "recv":
			k := (len(st.I) - 2) / 3
			if k < 1 || len(st.B) < 2*k {
				didSomething = false
				break
			}
			if k > 4 {
				k = 4
			}
			orders := [2][]int{nthPerm(0, k), nthPerm(st.Int(1, 0), k)}
			// cross-batch shift: T>0 twin B, T<0 twin A receives this batch |T| events later than the other twin
			late := -1
			if st.T != 0 {
				dist := st.T
				late = 1
				if dist < 0 {
					dist, late = -dist, 0
				}
				if dist > 40 {
					dist = 40
				}
				if w.shiftAllowed(si, dist) {
					w.pending = append(w.pending, deferred{twin: late, dueAt: si + dist + 1, step: st})
					c.Probe("cross_batch_shift_applied")
				} else {
					late = -1
				}
			}
			var accepted [2]map[string]bool
			for ti := range w.tw {
				if ti == late {
					c.Eventf("  %s receives this batch later", w.tw[ti].name)
					continue
				}
				accepted[ti] = w.deliver(ti, st, orders[ti])
			}
			if late < 0 {
				sameRound := false
				for a := 0; a < k; a++ {
					for b := a + 1; b < k; b++ {
						if st.Int(2+3*a, 0) == st.Int(2+3*b, 0) && !sameBytes(st.Bytes(2*a), st.Bytes(2*b)) &&
							accepted[0][string(st.Bytes(2*a))] && accepted[0][string(st.Bytes(2*b))] {
							sameRound = true
						}
					}
				}
				differs := false
				for j := range orders[0] {
					differs = differs || orders[0][j] != orders[1][j]
				}
				if differs && len(accepted[0]) >= 2 && len(accepted[1]) >= 2 {
					w.permutedAccepted = true
					c.Probe("permuted_batch_accepted")
				}
				if sameRound {
					c.Probe("competing_same_round_headers")
				}
			}
			if st.Fault != "" {
				c.Fault(st.Fault)
			}

		case "proc":
			if len(st.I) < 4 || len(st.B) < 2 {
				didSomething = false
				break
			}
			nonce, round, epoch := uint64(st.Int(0, 0)), uint64(st.Int(1, 0)), uint32(st.Int(2, 0))
			hash, prev := st.Bytes(0), st.Bytes(1)
			// a node processes a block only on top of its current head
			if nonce != headNonce()+1 || !sameBytes(prev, headHash()) {
				didSomething = false
				break
			}
			m := (len(st.I) - 4) / 2
			if len(st.B)-2 < m {
				m = len(st.B) - 2
			}
			for ti, t := range w.tw {
				var sn []data.HeaderHandler
				var snh [][]byte
				for j := 0; j < m && !w.meta; j++ {
					sn = append(sn, &block.Header{Nonce: uint64(st.Int(4+2*j, 0)), Round: uint64(st.Int(5+2*j, 0))})
					snh = append(snh, st.Bytes(2+j))
				}
				err := t.fd.AddHeader(w.mkHeader(nonce, round, epoch, prev, st.Int(3, 0)&flagBadTimestamp != 0), hash, process.BHProcessed, sn, snh)
				c.Eventf("  %s AddHeader(n=%d r=%d e=%d h=%x processed, %d self-notarized) = %s", t.name, nonce, round, epoch, hash, len(sn), errStr(err))
				if err == nil && nonce > w.hnr[ti] {
					w.hnr[ti] = nonce
				}
				if err == nil {
					w.procAccepted = true
				} else if t.name == "A" {
					c.Probe("rejected_processed:" + err.Error())
				}
			}
			// the block processor commits the block whatever the fork detector answered (errNotCritical)
			w.ownNonce = append(w.ownNonce, nonce)
			w.ownHash = append(w.ownHash, append([]byte(nil), hash...))

		case "notar":
			m := (len(st.I) - 1) / 2
			if m > len(st.B) {
				m = len(st.B)
			}
			if m < 1 || w.meta { // the meta detector does not register a callback
				didSomething = false
				break
			}
			// cross-event shift of a notarization callback over recovery calls: T>0 twin B, T<0 twin A gets it |T| events later
			late := -1
			if st.T != 0 {
				dist := st.T
				late = 1
				if dist < 0 {
					dist, late = -dist, 0
				}
				if dist > 10 {
					dist = 10
				}
				if w.notarShiftAllowed(si, dist) {
					w.pending = append(w.pending, deferred{twin: late, dueAt: si + dist + 1, step: st})
					c.Probe("notarization_shift_applied")
				} else {
					late = -1
				}
			}
			for ti := range w.tw {
				if ti == late {
					c.Eventf("  %s gets this callback later", w.tw[ti].name)
					continue
				}
				w.deliverNotar(ti, st)
			}

		case "addnotar":
			if len(st.I) < 3 || len(st.B) < 2 {
				didSomething = false
				break
			}
			for ti, t := range w.tw {
				err := t.fd.AddHeader(w.mkHeader(uint64(st.Int(0, 0)), uint64(st.Int(1, 0)), uint32(st.Int(2, 0)), st.Bytes(1), false), st.Bytes(0), process.BHNotarized, nil, nil)
				c.Eventf("  %s AddHeader(n=%d h=%x notarized) = %s", t.name, st.Int(0, 0), st.Bytes(0), errStr(err))
				if n := uint64(st.Int(0, 0)); err == nil && n > w.hnr[ti] {
					w.hnr[ti] = n
				}
			}

		case "rollback":
			// sync never rolls back the final block (ErrRollBackBehindFinalHeader)
			if len(w.ownNonce) == 0 || headNonce() <= w.tw[0].fd.GetHighestFinalBlockNonce() {
				didSomething = false
				break
			}
			c.Eventf("  rollback head n=%d h=%x", headNonce(), headHash())
			popOwn()
			c.Probe("rolled_back_head")

		case "remove":
			hash := st.Bytes(0)
			// doJobOnSyncBlockFail removes the header that failed processing: a candidate for the NEXT block, never
			// a nonce the own chain already holds (RemoveHeader drops the checkpoint of that nonce whatever the hash)
			if hash == nil || onOwn(hash) || uint64(st.Int(0, 0)) <= headNonce() {
				didSomething = false
				break
			}
			for _, t := range w.tw {
				t.fd.RemoveHeader(uint64(st.Int(0, 0)), hash)
			}
			c.Eventf("  RemoveHeader(n=%d h=%x)", st.Int(0, 0), hash)

		case "setrb":
			n := uint64(st.Int(0, 0))
			for _, t := range w.tw {
				t.fd.SetRollBackNonce(n)
			}
			w.rollbackPending = [2]bool{true, true}
			c.Eventf("  SetRollBackNonce(%d)", n)

		case "resetprob":
			for _, t := range w.tw {
				t.fd.ResetProbableHighestNonce()
			}
			c.Eventf("  ResetProbableHighestNonce")

		case "resetfork":
			for _, t := range w.tw {
				t.fd.ResetFork()
			}
			c.Eventf("  ResetFork")

		case "forced":
			// baseBootstrap.rollBackOneBlockForced: only after CheckFork returned the stuck signature
			if !w.lastStuck {
				didSomething = false
				break
			}
			if len(w.ownNonce) > 0 && headNonce() > w.tw[0].fd.GetHighestFinalBlockNonce() {
				popOwn()
			}
			for _, t := range w.tw {
				t.fd.ResetFork()
			}
			w.lastStuck = false
			c.Eventf("  forced rollback of one block + ResetFork")
			c.Probe("forced_rollback_done")

		case "restore":
			// storage bootstrapper after a failed reload: block tracker and fork detector go back to the start header
			for _, t := range w.tw {
				t.fd.RestoreToGenesis()
			}
			w.ownNonce, w.ownHash = nil, nil
			w.lastStuck = false
			w.lastFinal = w.baseNonce
			w.hnr = [2]uint64{w.baseNonce, w.baseNonce}
			c.Eventf("  RestoreToGenesis")
			c.Probe("restored_to_genesis")

		case "check":
			if !checkEvery {
				w.check("CheckFork")
			}

		default:
			didSomething = false
		}
		if !didSomething {
			c.Eventf("skip %s", st.Op)
			continue
		}
		c.StepsDone++
		if checkEvery {
			w.check("CheckFork after " + st.Op)
		} else if len(w.pending) == 0 {
			w.compareFinal("after " + st.Op)
		}
		if f := w.tw[0].fd.GetHighestFinalBlockNonce(); f != w.lastFinal {
			if f > w.lastFinal {
				c.Probe("final_advanced")
			}
			w.lastFinal = f
		}
		if c.Failed("C20") {
			break
		}
	}
	if !c.Failed("C20") && len(w.pending) > 0 {
		c.CurStep = len(p.Steps)
		w.deliverDue(-1)
		w.check("CheckFork at the end of the run")
	}
	return (w.permutedAccepted || w.shiftAccepted) && w.procAccepted && w.checksAfterPerm > 0
}
