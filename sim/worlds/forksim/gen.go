package forksim

import (
	"bytes"
	"sort"

	"verifsim/simkit"
)

// Step encodings (every step is self-contained: headers are described by value, never by "result of step k").
//
//	tick      I=[deltaRounds]
//	recv      I=[nonce, permCode, (round, epoch, flags)*k]   B=[(hash, prevHash)*k]    one batch of competing headers of ONE nonce
//	proc      I=[nonce, round, epoch, flags, (snNonce, snRound)*m]  B=[hash, prevHash, snHash*m]   block processor committed a block
//	notar     I=[fromMeta, (nonce, round)*m]  B=[hash*m]        block tracker callback ReceivedSelfNotarizedFromCrossHeaders
//	addnotar  I=[nonce, round, epoch]  B=[hash, prevHash]       AddHeader(..., BHNotarized, ...) (API accepts it; no node path does it)
//	rollback  -                                                 sync rolls back the own chain head: RemoveHeader(head)
//	remove    I=[nonce] B=[hash]                                RemoveHeader of a header that failed processing (not on the own chain)
//	setrb     I=[nonce]                                         SetRollBackNonce
//	restore                                                   RestoreToGenesis (storage bootstrapper after a failed reload); the own chain is empty again
//	resetprob / resetfork / forced / check
//	recv with T=k (k>0: twin B, k<0: twin A) delivers the batch to that twin |k| events later than to the other twin
//	notar with T=k: the same for a notarization callback (only across resetprob / resetfork / tick / check / setrb)
const (
	flagBadTimestamp = 1
	flagProposed     = 2
)

var genesisHash = []byte("genesis")

type gHdr struct {
	id     int
	nonce  uint64
	round  uint64
	epoch  uint32
	hash   []byte
	parent int // -1 = genesis
	bad    bool
}

type gArrival struct {
	t     uint64
	id    int
	fault string
	prop  bool
}

func genC20(r *simkit.Rand, tier string) *simkit.Plan {
	p := &simkit.Plan{Arm: "faultfree", Knobs: map[string]int64{}}
	if r.Chance(0.65) {
		p.Arm = "schedule-faults"
	}
	faults := p.Arm != "faultfree"
	meta := r.Chance(0.4)
	if meta {
		p.Knobs["meta"] = 1
	}
	roundSec := int64(r.Range(4, 6))
	p.Knobs["roundSec"] = roundSec
	p.Knobs["genesisTime"] = 1600000000 + int64(r.Intn(1000))
	var baseNonce, baseRound uint64
	if r.Chance(0.2) {
		baseNonce = uint64(r.Range(1, 40))
		baseRound = baseNonce + uint64(r.Range(0, 30))
	}
	p.Knobs["baseNonce"] = int64(baseNonce)
	p.Knobs["baseRound"] = int64(baseRound)
	checkEvery := r.Chance(0.7)
	if checkEvery {
		p.Knobs["checkEvery"] = 1
	}

	// swarm knobs of this run
	wK := []int{r.Range(1, 6), r.Range(1, 6), r.Range(0, 4)} // 1, 2, 3 competing headers per nonce
	pSameRound := r.Float64() * 0.8
	pEpoch := r.Float64() * 0.25
	pForkEpoch := r.Float64() * 0.3
	pBad := 0.0
	if r.Chance(0.3) {
		pBad = 0.08
	}
	pDelay, pDup, pEarly, pSwap := 0.0, 0.0, 0.0, 0.0
	if faults {
		pDelay = r.Float64() * 0.5
		pDup = r.Float64() * 0.3
		pEarly = r.Float64() * 0.2
		pSwap = r.Float64() * 0.2
	}
	pProc := 0.5 + r.Float64()*0.5
	pSelf := r.Float64() * 0.3
	pRollback := r.Float64() * 0.2
	pSideChain := r.Float64() * 0.4
	pSN := 0.3 + r.Float64()*0.7
	pNotarCb := r.Float64() * 0.5
	pBadNotar := 0.0
	if r.Chance(0.5) {
		pBadNotar = r.Float64() * 0.25
	}
	pMisc := r.Float64() * 0.25
	pShift := 0.0
	if r.Chance(0.6) {
		pShift = 0.03 + r.Float64()*0.2 // few shifts per run: the twins are compared only while none is outstanding
	}
	pEarlyNotar := 0.0
	if r.Chance(0.4) {
		pEarlyNotar = 0.05 + r.Float64()*0.25
	}
	pRestore := 0.0
	if r.Chance(0.15) {
		pRestore = 0.02 + r.Float64()*0.05
	}
	hashLen := r.Range(1, 6)
	snLag := uint64(r.Range(0, 2))

	slowMain := r.Chance(0.35)

	// ---- block tree ----
	n := r.Range(3, 15)
	var hdrs []*gHdr
	levels := make([][]int, n+1)
	used := map[string]bool{string(genesisHash): true}
	newHash := func() []byte {
		for {
			h := r.Bytes(hashLen)
			if !used[string(h)] {
				used[string(h)] = true
				return h
			}
		}
	}
	for lv := 1; lv <= n; lv++ {
		k := r.Weighted(wK) + 1
		for j := 0; j < k; j++ {
			h := &gHdr{id: len(hdrs), nonce: baseNonce + uint64(lv), parent: -1}
			pRound, pEp := baseRound, uint32(0)
			if lv > 1 {
				par := levels[lv-1][0]
				if j > 0 && r.Chance(0.5) {
					par = levels[lv-1][r.Intn(len(levels[lv-1]))]
				}
				if j > 0 && slowMain && len(levels[lv-1]) > 1 && r.Chance(0.7) {
					par = levels[lv-1][1+r.Intn(len(levels[lv-1])-1)] // the side fork continues on its own
				}
				h.parent = par
				pRound, pEp = hdrs[par].round, hdrs[par].epoch
			}
			h.round = pRound + uint64(r.Range(1, 3))
			if slowMain {
				// the main chain misses rounds while a side fork was built quickly: its headers end up with rounds
				// at or below the main chain's previous block (a dead fork once the main chain becomes final)
				if j == 0 {
					h.round = pRound + uint64(r.Range(2, 4))
				} else {
					h.round = pRound + 1
				}
			}
			if j > 0 && r.Chance(pSameRound) {
				if sr := hdrs[levels[lv][0]].round; sr > pRound {
					h.round = sr
				}
			}
			h.epoch = pEp
			if pEp < 3 && ((j == 0 && r.Chance(pEpoch)) || (j > 0 && r.Chance(pForkEpoch))) {
				h.epoch = pEp + 1
			}
			h.bad = r.Chance(pBad)
			h.hash = newHash()
			hdrs = append(hdrs, h)
			levels[lv] = append(levels[lv], h.id)
		}
	}
	// a long silence somewhere (consensus stuck): everything produced after round T0 is shifted
	if r.Chance(0.3) {
		t0 := hdrs[r.Intn(len(hdrs))].round
		shift := uint64(r.Range(11, 18))
		for _, h := range hdrs {
			if h.round > t0 {
				h.round += shift
			}
		}
	}

	// ---- arrival schedule ----
	var arr []gArrival
	for _, h := range hdrs {
		a := gArrival{t: h.round, id: h.id}
		switch {
		case r.Chance(pDelay):
			a.t += uint64(r.Range(1, 4))
			a.fault = "delay"
		case r.Chance(pEarly) && h.round > baseRound+1:
			a.t-- // a header for the next round (clock skew); the detector accepts round <= index+1
			a.fault = "reorder"
		}
		if r.Chance(0.06) {
			a.prop = true
		}
		arr = append(arr, a)
		if r.Chance(pDup) {
			arr = append(arr, gArrival{t: a.t + uint64(r.Range(0, 3)), id: h.id, fault: "duplicate"})
		}
	}
	sort.SliceStable(arr, func(i, j int) bool {
		if arr[i].t != arr[j].t {
			return arr[i].t < arr[j].t
		}
		return hdrs[arr[i].id].nonce < hdrs[arr[j].id].nonce
	})

	// ---- the node: own chain, what it has received so far ----
	received := make([]bool, len(hdrs))
	var own []int
	notarUpTo := baseNonce
	head := func() int {
		if len(own) == 0 {
			return -1
		}
		return own[len(own)-1]
	}
	hdrOf := func(id int) (nonce, round uint64, epoch uint32, hash, prev []byte) {
		h := hdrs[id]
		prev = genesisHash
		if h.parent >= 0 {
			prev = hdrs[h.parent].hash
		}
		return h.nonce, h.round, h.epoch, h.hash, prev
	}
	emit := func(st simkit.Step) { p.Steps = append(p.Steps, st) }
	cur := baseRound
	tickTo := func(t uint64) {
		if t > cur {
			emit(simkit.Step{Op: "tick", I: []int64{int64(t - cur)}})
			cur = t
		}
	}
	selfNotarized := func(upTo uint64) (is []int64, bs []simkit.HexBytes) {
		for _, id := range own {
			h := hdrs[id]
			if h.nonce > notarUpTo && h.nonce <= upTo {
				is = append(is, int64(h.nonce), int64(h.round))
				bs = append(bs, simkit.HexBytes(h.hash))
				notarUpTo = h.nonce
			}
		}
		return
	}
	nodeActs := func() {
		// roll back the head (sync decided so), sometimes two blocks
		for k := 0; k < 2 && len(own) > 0 && r.Chance(pRollback); k++ {
			emit(simkit.Step{Op: "rollback"})
			own = own[:len(own)-1]
		}
		// a lagging node: the metachain's notarization of the NEXT block arrives before the node processed it,
		// often followed by a recovery call (sync failed too often / forced rollback) before the block is processed
		preferred := -1
		if !meta && r.Chance(pEarlyNotar) {
			for _, h := range hdrs {
				if h.parent == head() && h.round <= cur && !h.bad {
					preferred = h.id
					break
				}
			}
			if preferred >= 0 {
				h := hdrs[preferred]
				st := simkit.Step{Op: "notar", I: []int64{1, int64(h.nonce), int64(h.round)}, B: []simkit.HexBytes{h.hash}}
				nReset := 0
				if r.Chance(0.75) {
					nReset = r.Range(1, 2)
				}
				if nReset > 0 && r.Chance(0.7) {
					st.T = nReset + r.Intn(2)
					if r.Chance(0.5) {
						st.T = -st.T
					}
				}
				emit(st)
				for ; nReset > 0; nReset-- {
					emit(simkit.Step{Op: []string{"resetprob", "resetprob", "resetfork"}[r.Intn(3)]})
				}
				if st.T != 0 && r.Chance(0.3) {
					emit(simkit.Step{Op: "check"})
				}
			}
		}
		// process the next block(s)
		for k := r.Range(1, 2); k > 0 && (r.Chance(pProc) || preferred >= 0); k-- {
			var cands []int
			if preferred >= 0 && hdrs[preferred].parent == head() {
				cands = append(cands, preferred)
			}
			preferred = -1
			for _, h := range hdrs {
				if h.parent != head() || h.round > cur || h.bad {
					continue
				}
				if received[h.id] || r.Chance(pSelf) {
					cands = append(cands, h.id)
				}
			}
			if len(cands) == 0 {
				break
			}
			id := cands[0]
			if r.Chance(pSideChain) {
				id = cands[r.Intn(len(cands))]
			}
			nonce, round, epoch, hash, prev := hdrOf(id)
			st := simkit.Step{Op: "proc", I: []int64{int64(nonce), int64(round), int64(epoch), 0}, B: []simkit.HexBytes{hash, prev}}
			if !meta && r.Chance(pSN) && nonce > snLag {
				is, bs := selfNotarized(nonce - 1 - snLag)
				st.I = append(st.I, is...)
				st.B = append(st.B, bs...)
			}
			emit(st)
			own = append(own, id)
		}
		if !meta && len(own) > 0 && r.Chance(pNotarCb) {
			is, bs := selfNotarized(hdrs[head()].nonce - uint64(r.Intn(2)))
			if len(bs) > 0 {
				emit(simkit.Step{Op: "notar", I: append([]int64{1}, is...), B: bs})
			}
		}
		if !meta && len(own) > 0 && r.Chance(pBadNotar) {
			// the metachain (or a fork of it) notarized a header that competes with the own chain
			oh := hdrs[own[r.Intn(len(own))]]
			for _, h := range hdrs {
				if h.nonce == oh.nonce && h.id != oh.id {
					from := int64(1)
					if r.Chance(0.1) {
						from = 0 // callback for another shard: must be ignored
					}
					emit(simkit.Step{Op: "notar", I: []int64{from, int64(h.nonce), int64(h.round)}, B: []simkit.HexBytes{h.hash}})
					break
				}
			}
		}
		if r.Chance(pMisc) {
			switch r.Intn(7) {
			case 0:
				nn := baseNonce + uint64(r.Range(0, n))
				emit(simkit.Step{Op: "setrb", I: []int64{int64(nn)}})
			case 1:
				emit(simkit.Step{Op: "resetprob"})
			case 2:
				emit(simkit.Step{Op: "resetfork"})
			case 3, 4:
				// a received header that is not on the own chain failed processing
				var cands []int
				for _, h := range hdrs {
					onOwn := false
					for _, o := range own {
						onOwn = onOwn || o == h.id
					}
					headNonce := baseNonce
					if head() >= 0 {
						headNonce = hdrs[head()].nonce
					}
					if received[h.id] && !onOwn && h.nonce > headNonce {
						cands = append(cands, h.id)
					}
				}
				if len(cands) > 0 {
					h := hdrs[cands[r.Intn(len(cands))]]
					emit(simkit.Step{Op: "remove", I: []int64{int64(h.nonce)}, B: []simkit.HexBytes{h.hash}})
				}
			case 5:
				if !meta {
					h := hdrs[r.Intn(len(hdrs))]
					nonce, round, epoch, hash, prev := hdrOf(h.id)
					emit(simkit.Step{Op: "addnotar", I: []int64{int64(nonce), int64(round), int64(epoch)}, B: []simkit.HexBytes{hash, prev}})
				}
			case 6:
				emit(simkit.Step{Op: "check"})
			}
		}
		if !checkEvery && r.Chance(0.5) {
			emit(simkit.Step{Op: "check"})
		}
		if r.Chance(pRestore) {
			// storage bootstrap gave up: everything goes back to the start header; the node starts again from there
			emit(simkit.Step{Op: "restore"})
			own = own[:0]
			notarUpTo = baseNonce
			for i := range received {
				received[i] = false
			}
		}
	}

	for i := 0; i < len(arr); {
		t := arr[i].t
		if t > cur+10 {
			// silence: walk to a round in which the detector may declare consensus stuck
			stuckAt := ((cur + 11 + 4) / 5) * 5
			if stuckAt < t {
				tickTo(stuckAt)
				emit(simkit.Step{Op: "check"})
				if r.Chance(0.7) {
					emit(simkit.Step{Op: "forced"})
					if len(own) > 0 {
						own = own[:len(own)-1] // the executor only rolls back when the detector really reported "stuck"; generator hint only
					}
				}
				if r.Chance(0.5) {
					emit(simkit.Step{Op: "check"})
				}
			}
		}
		tickTo(t)
		// batches of this round, one per nonce
		j := i
		for j < len(arr) && arr[j].t == t {
			j++
		}
		for a := i; a < j; {
			b := a
			nonce := hdrs[arr[a].id].nonce
			for b < j && hdrs[arr[b].id].nonce == nonce && b-a < 4 {
				b++
			}
			st := simkit.Step{Op: "recv", I: []int64{int64(nonce), 0}}
			k := b - a
			for _, x := range arr[a:b] {
				_, round, epoch, hash, prev := hdrOf(x.id)
				fl := int64(0)
				if hdrs[x.id].bad {
					fl |= flagBadTimestamp
				}
				if x.prop {
					fl |= flagProposed
				}
				st.I = append(st.I, int64(round), int64(epoch), fl)
				st.B = append(st.B, hash, prev)
				if x.fault != "" && st.Fault == "" {
					st.Fault = x.fault
				}
				if !x.prop {
					received[x.id] = true
				}
			}
			if k > 1 {
				st.I[1] = int64(1 + r.Intn(factorial(k)-1)) // never the identity: twin B sees another order
			}
			if r.Chance(pShift) {
				// cross-batch order: one twin gets this batch 1-5 events later than the other
				st.T = r.Range(1, 3)
				if r.Chance(0.5) {
					st.T = r.Range(4, 30) // long enough to cross the processing of several blocks
				}
				if r.Chance(0.5) {
					st.T = -st.T
				}
			}
			emit(st)
			a = b
		}
		i = j
		nodeActs()
	}
	// a few quiet rounds at the end: late duplicates, last blocks, final checks
	for k := r.Range(0, 3); k > 0; k-- {
		tickTo(cur + uint64(r.Range(1, 2)))
		nodeActs()
	}
	emit(simkit.Step{Op: "check"})

	// reorder fault: swap neighbouring recv steps
	if pSwap > 0 {
		for i := 1; i < len(p.Steps); i++ {
			if p.Steps[i].Op == "recv" && p.Steps[i-1].Op == "recv" && r.Chance(pSwap) {
				p.Steps[i], p.Steps[i-1] = p.Steps[i-1], p.Steps[i]
				if p.Steps[i-1].Fault == "" {
					p.Steps[i-1].Fault = "reorder"
				}
			}
		}
	}
	if len(p.Steps) > 60 {
		p.Steps = p.Steps[:60]
	}
	if !faults {
		for i := range p.Steps {
			p.Steps[i].Fault = ""
		}
	}
	return p
}

func factorial(k int) int {
	f := 1
	for i := 2; i <= k; i++ {
		f *= i
	}
	return f
}

// nthPerm decodes a Lehmer code into a permutation of [0,k).
func nthPerm(code int64, k int) []int {
	if code < 0 {
		code = 0
	}
	idx := make([]int, k)
	for i := range idx {
		idx[i] = i
	}
	out := make([]int, 0, k)
	c := int(code % int64(factorial(k)))
	for i := k; i >= 1; i-- {
		f := factorial(i - 1)
		q := c / f
		c %= f
		out = append(out, idx[q])
		idx = append(idx[:q], idx[q+1:]...)
	}
	return out
}

func sameBytes(a, b []byte) bool { return bytes.Equal(a, b) }
