// Package forksim is world W6: the shard and meta fork detectors (C20) driven by a generated block tree,
// a faulty arrival schedule and two twin detectors that see competing received headers in different orders.
package forksim

import (
	logger "github.com/ElrondNetwork/elrond-go-logger"

	"verifsim/simkit"
)

func init() { _ = logger.SetLogLevel("*:NONE") }

// World implements simkit.World.
type World struct{}

func (World) Name() string         { return "forksim" }
func (World) Properties() []string { return []string{"C20"} }

func (World) Real(string) []string {
	return []string{
		"process/sync.shardForkDetector (NewShardForkDetector, AddHeader, ReceivedSelfNotarizedFromCrossHeaders, computeFinalCheckpoint)",
		"process/sync.metaForkDetector (NewMetaForkDetector, AddHeader)",
		"process/sync.baseForkDetector (CheckFork, computeForkInfo, shouldSignalFork, RemoveHeader, RestoreToGenesis, removePastOrInvalidRecords, ResetFork, ResetProbableHighestNonce, SetRollBackNonce, isConsensusStuck, checkBlockBasicValidity)",
		"process.AddHeaderToBlackList + storage/timecache.TimeCache (header blacklist, 2 minutes as in factory/processComponents.go)",
		"data/block.Header, data/block.MetaBlock",
	}
}

func (World) Stub(string) []string {
	return []string{
		"consensus.RoundHandler: logical round clock advanced by 'tick' steps (Index, TimeDuration)",
		"process.BlockTracker: returns the start header and records the self-notarized callback, which the driver invokes on 'notar' steps",
		"clock: testing/synctest bubble clock, advanced by roundDuration per round tick (only the blacklist TimeCache reads it)",
		"network: header arrival schedule with delay / duplicate / reorder (early and swapped deliveries) is part of the plan",
		"block processor + sync loop: the driver keeps the own chain (process on top of head, RemoveHeader on rollback, never behind final, forced rollback + ResetFork only after the stuck signature, RestoreToGenesis empties the own chain)",
		"header hashes are plan-provided byte strings (the detector never hashes)",
	}
}

func (World) Assumptions(string) []string {
	return []string{
		"clause (i) is exempted for exactly one CheckFork result per SetRollBackNonce call ('rollback explicitly requested') and for results with the stuck signature IsDetected && Nonce==MaxUint64 && Hash==nil ('consensus is stuck'), as baseBootstrap.isForcedRollBackOneBlock reads it",
		"clause (ii) compares two detectors whose histories are identical except for the order of the competing RECEIVED/PROPOSED headers inside one batch of one nonce; processed, notarized and removal events are applied in the same order to both (the order of conflicting notarization callbacks is not permuted)",
		"cross-batch variant of clause (ii): a batch of received headers may reach one twin 1-5 events later than the other (recv step with T!=0); the twins are compared (CheckFork verdict, final nonce/hash) only when no such delivery is outstanding, i.e. when both have received the same set of events under the same round clock; clause (i) is applied to each twin at every check",
		"a shift is applied only if it cannot give the twins legitimately different information; excluded (the batch is then delivered to both twins at once): (a) windows containing an event that forgets headers or recomputes the final checkpoint without purging - RemoveHeader/rollback, ResetFork, ResetProbableHighestNonce, forced rollback, RestoreToGenesis and the self-notarized callback; (b) windows with round ticks that change a header's own classification (received-too-late: round < index-1; too early: round > index+1) between the two delivery times; (c) plans in which any header has a wrong timestamp (the blacklist is stateful: a child is rejected only if it arrives after its blacklisted parent)",
		"observed on the UNCHANGED shard detector and therefore excluded by (a): a header that arrives before a self-notarized callback moves the final checkpoint past it (roundDif < nonceDif) stays stored until the next processed block purges it and CheckFork may select it as fork, while the same header arriving after the callback is rejected by checkBlockBasicValidity (ErrHigherNonceInBlock/ErrLowerRoundInBlock); windows containing processed blocks are NOT excluded because doJobOnBHProcessed purges with the same criterion that AddHeader rejects with",
		"also observed on the UNCHANGED detector and excluded: highestNonceReceived keeps the nonce of a header that was accepted and later purged as invalid, while the same header arriving after the final checkpoint moved is rejected before it is counted; shouldSignalFork's same-round tie-break (!higherNonceReceived) and computeForkInfo's too-late rule read that value. The driver mirrors it from observable results (highest nonce for which AddHeader returned nil, per twin) and does not compare the fork verdicts (final nonce/hash still are) while the two values differ",
		"notarization shift: a self-notarized callback (also for the block the node is about to process: a lagging node) may reach one twin 1-10 events later than the other, but only across ResetProbableHighestNonce / ResetFork / round ticks / CheckFork / SetRollBackNonce and only while no other shifted delivery is outstanding; header arrivals and processed blocks are excluded from these windows because of the header-vs-callback order dependence described above",
		"third order dependence of the UNCHANGED detector, excluded narrowly: the callback does not update probableHighestNonce while Reset* recomputes it from the stored headers (notarized entries included), so callback-then-reset and reset-then-callback leave different values and isConsensusStuck (isSyncing) may differ; fork verdicts are not compared at a check where exactly one twin returns the stuck signature and ProbableHighestNonce() differs between the twins (final nonce/hash still are)",
		"RemoveHeader for a header that failed processing is issued only for nonces above the own head (doJobOnSyncBlockFail removes the candidate for the next block): RemoveHeader drops the checkpoint of its nonce whatever the hash, so removing a foreign hash at a nonce the own chain holds would un-checkpoint the own block and make Reset* forget its processed entry",
		"a SetRollBackNonce request is tracked per twin (inside a shift window one twin may be 'stuck', which has priority, and report the request one check later); the fork verdicts are not compared at a check where only one twin still holds the request",
		"RestoreToGenesis empties the driver's own chain; a rollback request made before the restore stays 'requested' (the unchanged detector keeps rollBackNonce across RestoreToGenesis), a restore itself requests nothing",
		"clause (ii) also demands equal GetHighestFinalBlockNonce/Hash on the twins (DESIGN.md C20): the final checkpoint bounds which nonces CheckFork may select",
		"the driver respects what a node can do: at most one processed header per nonce at a time (a competing block is processed only after RemoveHeader of the head), no rollback at or below the final nonce",
		"AddHeader(BHNotarized) ('addnotar', rare) is accepted by the API although no node path issues it; it is applied identically to both twins",
	}
}

func (World) Rule(string) string {
	return "block tree of 3-15 nonces (optionally starting from a non-zero start header), 1-3 competing headers per nonce with parent links, rounds increasing with nonce (same-round competitors, a silent gap of 11-18 rounds in 30% of the runs), epochs 0-3 with epoch-change forks, 1-6 byte hashes, a few headers with a wrong timestamp; " +
		"<=60 events: round ticks, batches of received/proposed headers of one nonce (twin B gets every batch of >=2 headers in a different, never identical, order), processed headers with self-notarized lists, self-notarized callbacks (also for competing headers and foreign shards), rollback of the head, RemoveHeader, SetRollBackNonce, ResetProbableHighestNonce, ResetFork, forced rollback after the stuck signature, RestoreToGenesis (15% of runs), CheckFork after every event (70% of runs) or on explicit check steps; " +
		"in 40% of the shard runs the notarization of the next block arrives before the node processed it, usually followed by 1-2 recovery calls (ResetProbableHighestNonce / ResetFork) and shifted across them between the twins; in 60% of the runs up to 23% of the batches reach one of the twins 1-5 events later than the other (cross-batch order); arm schedule-faults adds delay (1-4 rounds), duplicate and reorder (early arrival, swapped batches) to the arrival schedule; shard or meta detector per run; " +
		"non-trivial = a permuted batch with >=2 accepted competing headers or an accepted shifted batch, an accepted processed header and a twin comparison at a CheckFork afterwards; distinct = hash of full plan"
}

func (World) Budget(prop, tier string) int {
	q := 60000
	if tier == "thorough" {
		return q * 30
	}
	return q
}

func (World) Generate(r *simkit.Rand, prop, tier string, race bool) *simkit.Plan {
	return genC20(r, tier)
}

func (World) Execute(c *simkit.Ctx) bool {
	if c.Plan.Property != "C20" {
		c.HarnessErr("unknown property %s", c.Plan.Property)
		return false
	}
	return execC20(c)
}
