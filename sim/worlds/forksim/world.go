// Package forksim is world W6: the shard and meta fork detectors (C20) driven by a generated block tree,
// a faulty arrival schedule and two twin detectors that see competing received headers in different orders.
package forksim

import (
	logger "github.com/ElrondNetwork/elrond-go-logger"

	"verifsim/simkit"
)

func init() { _ = logger.SetLogLevel("*:NONE") }

// World implements simkit.World.
type World struct{}

func (World) Name() string         { return "forksim" }
func (World) Properties() []string { return []string{"C20"} }

func (World) Real(string) []string {
	return []string{
		"process/sync.shardForkDetector (NewShardForkDetector, AddHeader, ReceivedSelfNotarizedFromCrossHeaders, computeFinalCheckpoint)",
		"process/sync.metaForkDetector (NewMetaForkDetector, AddHeader)",
		"process/sync.baseForkDetector (CheckFork, computeForkInfo, shouldSignalFork, RemoveHeader, ResetFork, ResetProbableHighestNonce, SetRollBackNonce, isConsensusStuck, checkBlockBasicValidity)",
		"process.AddHeaderToBlackList + storage/timecache.TimeCache (header blacklist, 2 minutes as in factory/processComponents.go)",
		"data/block.Header, data/block.MetaBlock",
	}
}

func (World) Stub(string) []string {
	return []string{
		"consensus.RoundHandler: logical round clock advanced by 'tick' steps (Index, TimeDuration)",
		"process.BlockTracker: returns the start header and records the self-notarized callback, which the driver invokes on 'notar' steps",
		"clock: testing/synctest bubble clock, advanced by roundDuration per round tick (only the blacklist TimeCache reads it)",
		"network: header arrival schedule with delay / duplicate / reorder (early and swapped deliveries) is part of the plan",
		"block processor + sync loop: the driver keeps the own chain (process on top of head, RemoveHeader on rollback, never behind final, forced rollback + ResetFork only after the stuck signature)",
		"header hashes are plan-provided byte strings (the detector never hashes)",
	}
}

func (World) Assumptions(string) []string {
	return []string{
		"clause (i) is exempted for exactly one CheckFork result per SetRollBackNonce call ('rollback explicitly requested') and for results with the stuck signature IsDetected && Nonce==MaxUint64 && Hash==nil ('consensus is stuck'), as baseBootstrap.isForcedRollBackOneBlock reads it",
		"clause (ii) compares two detectors whose histories are identical except for the order of the competing RECEIVED/PROPOSED headers inside one batch of one nonce; processed, notarized and removal events are applied in the same order to both (the order of conflicting notarization callbacks is not permuted)",
		"clause (ii) also demands equal GetHighestFinalBlockNonce/Hash on the twins (DESIGN.md C20): the final checkpoint bounds which nonces CheckFork may select",
		"the driver respects what a node can do: at most one processed header per nonce at a time (a competing block is processed only after RemoveHeader of the head), no rollback at or below the final nonce",
		"AddHeader(BHNotarized) ('addnotar', rare) is accepted by the API although no node path issues it; it is applied identically to both twins",
	}
}

func (World) Rule(string) string {
	return "block tree of 3-15 nonces (optionally starting from a non-zero start header), 1-3 competing headers per nonce with parent links, rounds increasing with nonce (same-round competitors, a silent gap of 11-18 rounds in 30% of the runs), epochs 0-3 with epoch-change forks, 1-6 byte hashes, a few headers with a wrong timestamp; " +
		"<=60 events: round ticks, batches of received/proposed headers of one nonce (twin B gets every batch of >=2 headers in a different, never identical, order), processed headers with self-notarized lists, self-notarized callbacks (also for competing headers and foreign shards), rollback of the head, RemoveHeader, SetRollBackNonce, ResetProbableHighestNonce, ResetFork, forced rollback after the stuck signature, CheckFork after every event (70% of runs) or on explicit check steps; " +
		"arm schedule-faults adds delay (1-4 rounds), duplicate and reorder (early arrival, swapped batches) to the arrival schedule; shard or meta detector per run; " +
		"non-trivial = a permuted batch with >=2 accepted competing headers, an accepted processed header and a CheckFork after the permuted batch; distinct = hash of full plan"
}

func (World) Budget(prop, tier string) int {
	q := 60000
	if tier == "thorough" {
		return q * 30
	}
	return q
}

func (World) Generate(r *simkit.Rand, prop, tier string, race bool) *simkit.Plan {
	return genC20(r, tier)
}

func (World) Execute(c *simkit.Ctx) bool {
	if c.Plan.Property != "C20" {
		c.HarnessErr("unknown property %s", c.Plan.Property)
		return false
	}
	return execC20(c)
}
