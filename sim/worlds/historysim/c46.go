package historysim

import (
	"bytes"
	"fmt"
	"strings"
	"sync"

	logger "github.com/ElrondNetwork/elrond-go-logger"
	"github.com/ElrondNetwork/elrond-go/core"
	"github.com/ElrondNetwork/elrond-go/core/dblookupext"
	"github.com/ElrondNetwork/elrond-go/data"
	"github.com/ElrondNetwork/elrond-go/data/block"
	"github.com/ElrondNetwork/elrond-go/data/smartContractResult"
	"github.com/ElrondNetwork/elrond-go/hashing"
	"github.com/ElrondNetwork/elrond-go/hashing/blake2b"
	"github.com/ElrondNetwork/elrond-go/hashing/sha256"
	"github.com/ElrondNetwork/elrond-go/marshal"
	"github.com/ElrondNetwork/elrond-go/storage"

	"verifsim/simkit"
)

var quietOnce sync.Once

// ---- simulator-owned storer: storage.Storer over one SimDisk, epoch-addressed and static key spaces ----

type epochStorer struct{ disk *simkit.SimDisk }

var _ storage.Storer = (*epochStorer)(nil)

func staticKey(k []byte) []byte { return append([]byte("s/"), k...) }
func epochKey(k []byte, e uint32) []byte {
	return append([]byte(fmt.Sprintf("e%d/", e)), k...)
}

func (s *epochStorer) Put(key, data []byte) error           { return s.disk.Put(staticKey(key), data) }
func (s *epochStorer) Get(key []byte) ([]byte, error)       { return s.disk.Get(staticKey(key)) }
func (s *epochStorer) Has(key []byte) error                 { return s.disk.Has(staticKey(key)) }
func (s *epochStorer) Remove(key []byte) error              { return s.disk.Remove(staticKey(key)) }
func (s *epochStorer) SearchFirst(k []byte) ([]byte, error) { return s.Get(k) }
func (s *epochStorer) PutInEpoch(key, data []byte, epoch uint32) error {
	return s.disk.Put(epochKey(key, epoch), data)
}
func (s *epochStorer) GetFromEpoch(key []byte, epoch uint32) ([]byte, error) {
	return s.disk.Get(epochKey(key, epoch))
}
func (s *epochStorer) GetBulkFromEpoch(keys [][]byte, epoch uint32) (map[string][]byte, error) {
	res := map[string][]byte{}
	for _, k := range keys {
		if v, err := s.GetFromEpoch(k, epoch); err == nil {
			res[string(k)] = v
		}
	}
	return res, nil
}
func (s *epochStorer) ClearCache()                                   {}
func (s *epochStorer) DestroyUnit() error                            { return s.disk.Destroy() }
func (s *epochStorer) GetOldestEpoch() (uint32, error)               { return 0, nil }
func (s *epochStorer) RangeKeys(h func(key []byte, val []byte) bool) { s.disk.RangeKeys(h) }
func (s *epochStorer) Close() error                                  { return nil }
func (s *epochStorer) IsInterfaceNil() bool                          { return s == nil }

// ---- miniblocks ---------------------------------------------------------------------------------------

const metaShard = core.MetachainShardId

const (
	dirIntra = iota
	dirOut
	dirIn
	dirToMeta
	dirFromMeta
	dirIrrelevant
)

func shardsOf(dir int, self uint32) (snd, rcv uint32) {
	other := (self + 1) % 3
	switch dir {
	case dirOut:
		return self, other
	case dirIn:
		return other, self
	case dirToMeta:
		return self, metaShard
	case dirFromMeta:
		return metaShard, self
	case dirIrrelevant:
		return other, (self + 2) % 3
	}
	return self, self
}

var mbTypes = []block.Type{block.TxBlock, block.SmartContractResultBlock, block.InvalidBlock}

type recInfo struct {
	block        int64
	hash         []byte
	epoch        uint32
	nonce, round uint64
	step         int
}

type notif struct {
	nonce uint64
	hash  []byte
}

const (
	nsNone = iota
	nsPending
	nsApplied
	nsLost
)

type notarState struct {
	state   int
	val     notif
	order   string // "record-then-notify" | "notify-then-record"
	retried bool   // its write failed in an OnNotarizedBlocks call; it must be applied by a later one
}

type mbModel struct {
	id       int
	mb       *block.MiniBlock
	hash     []byte
	snd, rcv uint32

	cur          *recInfo  // most recent record (what the lookup must name)
	history      []recInfo // every record ever attempted with this miniblock
	tainted      bool      // a put_error fired in a RecordBlock that contained it and no lookup confirmed the latest record since
	idempotentOK bool      // a re-record of cur's block is a repeated record of the same thing (no Restart, no fault in between)
	notar        [2]notarState
	seen         [2][]notif
}

// txModel: one transaction hash. A transaction can be packed into different miniblocks by competing blocks; the lookup
// must follow the most recent record that contained it.
type txModel struct {
	hash      []byte
	owner     *mbModel   // miniblock of the most recent record that contained the transaction
	hist      []*mbModel // every miniblock it was ever recorded in
	stale     bool       // the write of its index entry failed (or its miniblock's record failed): the entry may be an older one
	viaRepeat bool       // its owner was restored by a repeated record of an older block (fork choice flipped back after a re-pack)
}

func buildMb(id int, dir, ntx, typ int, self uint32, m marshal.Marshalizer, h hashing.Hasher, prefix string) *mbModel {
	var txs [][]byte
	for j := 0; j < ntx; j++ {
		txs = append(txs, h.Compute(fmt.Sprintf("%s-%d-%d", prefix, id, j)))
	}
	return buildMbTxs(id, dir, typ, txs, self, m, h)
}

func buildMbTxs(id int, dir, typ int, txs [][]byte, self uint32, m marshal.Marshalizer, h hashing.Hasher) *mbModel {
	snd, rcv := shardsOf(dir, self)
	mb := &block.MiniBlock{SenderShardID: snd, ReceiverShardID: rcv, Type: mbTypes[typ%len(mbTypes)], TxHashes: txs}
	hash, _ := core.CalculateHash(m, h, mb)
	return &mbModel{id: id, mb: mb, hash: hash, snd: snd, rcv: rcv}
}

// repackTxs: the transactions of a competing block's re-packed version of base (same direction and type, other composition).
func repackTxs(base [][]byte, mode int, own []byte) [][]byte {
	var txs [][]byte
	switch {
	case mode == 1 && len(base) >= 2:
		txs = append(txs, base[:len(base)-1]...) // one transaction left out, another one packed instead
	case mode == 2:
		txs = append(txs, base[0]) // only the first transaction again
	default:
		txs = append(txs, base...) // one more transaction packed after the rollback
	}
	return append(txs, own)
}

// sides says which notarization sides a miniblock header found in the data of shard `container` stands for.
func sides(snd, rcv, container, self uint32) (src, dst bool) {
	if snd != self && rcv != self {
		return false, false
	}
	if snd == rcv || rcv == metaShard {
		return true, true
	}
	if container == snd {
		return true, false
	}
	if container == rcv {
		return false, true
	}
	return false, false
}

// ---- generator ----------------------------------------------------------------------------------------

func genC46(r *simkit.Rand, tier string) *simkit.Plan {
	p := &simkit.Plan{Arm: "faultfree", Knobs: map[string]int64{}}
	p.Knobs["self"] = int64(r.Intn(2))
	p.Knobs["hasher"] = int64(r.Intn(2))
	p.Knobs["scrs"] = int64(r.Intn(2))
	nMb := r.Range(2, 4)
	p.Knobs["n_mb"] = int64(nMb)
	dirs := make([]int, nMb)
	for i := 0; i < nMb; i++ {
		dirs[i] = r.Weighted([]int{4, 2, 3, 1, 1})
		p.Knobs[fmt.Sprintf("mb%d_dir", i)] = int64(dirs[i])
		p.Knobs[fmt.Sprintf("mb%d_ntx", i)] = int64(r.Range(1, 3))
		p.Knobs[fmt.Sprintf("mb%d_type", i)] = int64(r.Intn(3))
	}
	// re-packed miniblocks: the last one or two miniblocks carry transactions of an earlier one in another composition
	repackOf := make([]int, nMb)
	for i := range repackOf {
		repackOf[i] = -1
	}
	if r.Chance(0.5) {
		for i := nMb - 1; i >= 1 && i >= nMb-2; i-- {
			if i == nMb-1 || r.Chance(0.3) {
				base := r.Intn(i)
				if repackOf[base] >= 0 {
					continue
				}
				repackOf[i] = base
				p.Knobs[fmt.Sprintf("mb%d_repack_of", i)] = int64(base + 1)
				p.Knobs[fmt.Sprintf("mb%d_repack_mode", i)] = int64(r.Intn(3))
			}
		}
	}
	// a block never holds a miniblock together with its re-packed version (a transaction is in a block once)
	cleanMask := func(mask int64) int64 {
		for i, b := range repackOf {
			if b >= 0 && mask&(1<<uint(i)) != 0 && mask&(1<<uint(b)) != 0 {
				if r.Chance(0.5) {
					mask &^= 1 << uint(i)
				} else {
					mask &^= 1 << uint(b)
				}
			}
		}
		return mask
	}
	// blocks: heights (slots) with competing headers
	nBlocks := r.Range(2, 6)
	nSlots := r.Range(1, 3)
	epoch0 := r.Range(0, 4)
	boundary := r.Range(0, nSlots) // slots >= boundary are in the next epoch (boundary==nSlots: one epoch only)
	type blk struct {
		slot, epoch, round int
		mask               int64
	}
	blocks := make([]blk, nBlocks)
	for b := 0; b < nBlocks; b++ {
		slot := r.Intn(nSlots)
		if b == 0 {
			slot = 0
		}
		if b == 1 && r.Chance(0.7) {
			slot = blocks[0].slot
		}
		ep := epoch0
		if slot >= boundary {
			ep++
		}
		if r.Chance(0.15) { // a competing epoch-start block / a block of the fork that stayed in the old epoch
			ep += r.Range(0, 2) - 1
			if ep < 0 {
				ep = 0
			}
		}
		var mask int64
		if b > 0 && r.Chance(0.7) {
			mask = blocks[r.Intn(b)].mask
			if r.Chance(0.5) {
				mask ^= 1 << uint(r.Intn(nMb))
			}
			for i, base := range repackOf { // the competing block packs the same transactions differently
				if base >= 0 && r.Chance(0.5) {
					hasI, hasB := mask&(1<<uint(i)) != 0, mask&(1<<uint(base)) != 0
					if hasI != hasB {
						mask ^= 1<<uint(i) | 1<<uint(base)
					}
				}
			}
		} else {
			mask = int64(r.Range(1, (1<<uint(nMb))-1))
		}
		mask = cleanMask(mask)
		if mask == 0 {
			mask = 1 << uint(r.Intn(nMb))
		}
		blocks[b] = blk{slot: slot, epoch: ep, round: 100 + 7*slot + b, mask: mask}
	}
	recordStep := func(b int) simkit.Step {
		bl := blocks[b]
		return simkit.Step{Op: "record", I: []int64{int64(b), int64(bl.epoch), int64(10 + bl.slot), int64(bl.round), bl.mask}}
	}
	// meta blocks
	nMeta := r.Range(1, 4)
	metas := make([]simkit.Step, nMeta)
	nonce := int64(50 + r.Intn(3))
	for k := 0; k < nMeta; k++ {
		if k > 0 && !r.Chance(0.25) {
			nonce++
		}
		st := simkit.Step{Op: "notify", I: []int64{int64(k), nonce}}
		ne := r.Range(1, 3)
		used := map[[2]int64]bool{}
		for e := 0; e < ne; e++ {
			var mbID, kind int64
			switch {
			case r.Chance(0.1):
				mbID = -1 // irrelevant to this shard
			case r.Chance(0.1):
				mbID = int64(nMb + r.Intn(2)) // relevant but never recorded
			default:
				mbID = int64(r.Intn(nMb))
			}
			kind = int64(r.Intn(2))
			if used[[2]int64{mbID, kind}] {
				continue
			}
			used[[2]int64{mbID, kind}] = true
			st.I = append(st.I, kind, mbID)
		}
		metas[k] = st
	}
	// event multiset, then a random order
	var steps []simkit.Step
	for b := 0; b < nBlocks; b++ {
		steps = append(steps, recordStep(b))
		for r.Chance(0.25) {
			steps = append(steps, recordStep(b)) // fork choice flips back / repeated commit
		}
	}
	for k := 0; k < nMeta; k++ {
		steps = append(steps, metas[k])
		if r.Chance(0.2) {
			steps = append(steps, metas[k])
		}
	}
	for n := r.Range(0, 4); n > 0; n-- {
		steps = append(steps, simkit.Step{Op: "notify"}) // later unrelated notification
	}
	for n := r.Weighted([]int{5, 3, 1}); n > 0; n-- {
		steps = append(steps, simkit.Step{Op: "restart"})
	}
	perm := r.Perm(len(steps))
	out := make([]simkit.Step, len(steps))
	for i, j := range perm {
		out[i] = steps[j]
	}
	if r.Chance(0.5) {
		// realistic ordering arm: records in block order, everything else where the permutation put it
		var recs []simkit.Step
		for _, s := range steps {
			if s.Op == "record" {
				recs = append(recs, s)
			}
		}
		k := 0
		for i := range out {
			if out[i].Op == "record" {
				out[i] = recs[k]
				k++
			}
		}
	}
	if r.Chance(0.7) {
		out = append(out, simkit.Step{Op: "notify"})
	}
	if r.Chance(0.3) {
		p.Arm = "faults"
		p.Faults = []string{"put_error"}
		var recs, nots []int
		for i := range out {
			if out[i].Op == "record" {
				recs = append(recs, i)
			}
			if out[i].Op == "notify" {
				nots = append(nots, i)
			}
		}
		notifyFault := false
		for n := r.Range(1, 2); n > 0; n-- {
			if len(nots) > 0 && (len(recs) == 0 || r.Chance(0.45)) {
				// transient write error: every write of patched metadata fails during this one OnNotarizedBlocks call
				out[nots[r.Intn(len(nots))]].Fault = "put_error"
				notifyFault = true
				continue
			}
			if len(recs) == 0 {
				continue
			}
			i := recs[r.Intn(len(recs))]
			out[i].Fault = "put_error"
			out[i].T = r.Intn(4)
			out[i].FaultAt = r.Intn(r.Range(1, 6))
		}
		if notifyFault {
			out = append(out, simkit.Step{Op: "notify"}) // faults have stopped: one more notification call
		}
	}
	p.Steps = out
	return p
}

// ---- execution ----------------------------------------------------------------------------------------

type world struct {
	c      *simkit.Ctx
	self   uint32
	marsh  marshal.Marshalizer
	hasher hashing.Hasher
	disks  [4]*simkit.SimDisk
	repo   dblookupext.HistoryRepository
	mbs    []*mbModel         // recorded-able miniblocks
	ghosts map[int64]*mbModel // relevant or irrelevant miniblocks that are never recorded
	scrs   bool
	txs    map[string]*txModel
	txList []*txModel // in order of first record (deterministic iteration)

	competing, asserted, notarAsserted int
}

func (w *world) tx(hash []byte) *txModel {
	if t, ok := w.txs[string(hash)]; ok {
		return t
	}
	t := &txModel{hash: hash}
	w.txs[string(hash)] = t
	w.txList = append(w.txList, t)
	return t
}

func (w *world) newRepo() bool {
	args := dblookupext.HistoryRepositoryArguments{
		SelfShardID:                 w.self,
		MiniblocksMetadataStorer:    &epochStorer{w.disks[0]},
		MiniblockHashByTxHashStorer: &epochStorer{w.disks[1]},
		EpochByHashStorer:           &epochStorer{w.disks[2]},
		EventsHashesByTxHashStorer:  &epochStorer{w.disks[3]},
		Marshalizer:                 w.marsh,
		Hasher:                      w.hasher,
	}
	repo, err := dblookupext.NewHistoryRepository(args)
	if err != nil {
		w.c.HarnessErr("NewHistoryRepository: %v", err)
		return false
	}
	w.repo = repo
	return true
}

func (w *world) ghost(id int64) *mbModel {
	if g, ok := w.ghosts[id]; ok {
		return g
	}
	var g *mbModel
	if id < 0 {
		g = buildMb(int(id), dirIrrelevant, 1, 0, w.self, w.marsh, w.hasher, "irrelevant")
	} else {
		g = buildMb(int(id), []int{dirIn, dirIntra}[id%2], 1, 0, w.self, w.marsh, w.hasher, "ghost")
	}
	w.ghosts[id] = g
	return g
}

func execC46(c *simkit.Ctx) bool {
	quietOnce.Do(func() { _ = logger.SetLogLevel("*:NONE") })
	p := c.Plan
	w := &world{c: c, self: uint32(p.Knob("self", 0)), marsh: &marshal.GogoProtoMarshalizer{}, ghosts: map[int64]*mbModel{}, scrs: p.Knob("scrs", 0) == 1, txs: map[string]*txModel{}}
	if p.Knob("hasher", 0) == 1 {
		w.hasher = sha256.NewSha256()
	} else {
		w.hasher = blake2b.NewBlake2b()
	}
	for i, n := range []string{"miniblocksMetadata", "miniblockHashByTxHash", "epochByHash", "resultsHashesByTxHash"} {
		w.disks[i] = simkit.NewSimDisk(n, c)
	}
	nMb := int(p.Knob("n_mb", 2))
	if nMb < 1 || nMb > 8 {
		c.HarnessErr("bad n_mb %d", nMb)
		return false
	}
	for i := 0; i < nMb; i++ {
		dir := int(p.Knob(fmt.Sprintf("mb%d_dir", i), 0))
		if dir < 0 || dir > dirFromMeta {
			dir = dirIntra
		}
		ntx := int(p.Knob(fmt.Sprintf("mb%d_ntx", i), 1))
		if ntx < 1 {
			ntx = 1
		}
		typ := int(p.Knob(fmt.Sprintf("mb%d_type", i), 0))
		if base := int(p.Knob(fmt.Sprintf("mb%d_repack_of", i), 0)) - 1; base >= 0 && base < i {
			b := w.mbs[base]
			txs := repackTxs(b.mb.TxHashes, int(p.Knob(fmt.Sprintf("mb%d_repack_mode", i), 0)), w.hasher.Compute(fmt.Sprintf("tx-%d-own", i)))
			m := buildMbTxs(i, 0, 0, txs, w.self, w.marsh, w.hasher)
			// same shards and type as the miniblock whose transactions it re-packs
			m.mb.SenderShardID, m.mb.ReceiverShardID, m.mb.Type, m.snd, m.rcv = b.snd, b.rcv, b.mb.Type, b.snd, b.rcv
			m.hash, _ = core.CalculateHash(w.marsh, w.hasher, m.mb)
			w.mbs = append(w.mbs, m)
			continue
		}
		w.mbs = append(w.mbs, buildMb(i, dir, ntx, typ, w.self, w.marsh, w.hasher, "tx"))
	}
	if !w.newRepo() {
		return false
	}
	for i := range p.Steps {
		st := &p.Steps[i]
		c.CurStep = i
		switch st.Op {
		case "record":
			w.record(i, st)
		case "notify":
			w.notify(i, st)
		case "restart":
			w.restart()
		}
		c.StepsDone++
		w.check()
		if c.Failed("C46") || c.Harness != "" {
			break
		}
	}
	return w.competing > 0 && w.asserted > 0
}

func (w *world) record(step int, st *simkit.Step) {
	c := w.c
	if len(st.I) < 5 {
		return
	}
	bID, epoch, nonce, round, mask := st.I[0], uint32(st.I[1]), uint64(st.I[2]), uint64(st.I[3]), st.I[4]
	hdrHash := w.hasher.Compute(fmt.Sprintf("hdr-%d", bID))
	hdr := &block.Header{Nonce: nonce, Epoch: epoch, Round: round, ShardID: w.self}
	body := &block.Body{}
	var in []*mbModel
	for _, m := range w.mbs {
		if mask&(1<<uint(m.id)) != 0 {
			body.MiniBlocks = append(body.MiniBlocks, m.mb)
			in = append(in, m)
		}
	}
	if len(in) == 0 {
		return
	}
	var scrs map[string]data.TransactionHandler
	if w.scrs {
		scrs = map[string]data.TransactionHandler{
			string(w.hasher.Compute(fmt.Sprintf("scr-%d", bID))): &smartContractResult.SmartContractResult{OriginalTxHash: in[0].mb.TxHashes[0]},
		}
	}
	// the harness watches the writes of this call at the disk seam: the n-th write on a disk is the one a fault hits
	var puts [4][][]byte
	for d := range w.disks {
		d := d
		w.disks[d].Gate = func(op string, key []byte) {
			if op == "put" {
				puts[d] = append(puts[d], append([]byte(nil), key...))
			}
		}
	}
	firedBefore := c.Faults["put_error"]
	if st.Fault == "put_error" && st.T >= 0 && st.T < 4 {
		w.disks[st.T].Arm("put_error", st.FaultAt)
	}
	err := w.repo.RecordBlock(hdrHash, hdr, body, scrs, nil)
	for _, d := range w.disks {
		d.Disarm()
		d.Gate = nil
	}
	fired := c.Faults["put_error"] > firedBefore
	// which object did the failed write belong to?
	wholeBlock := false             // the header's epoch entry: RecordBlock gives up before any miniblock
	failedMb := map[*mbModel]bool{} // a miniblock's epoch entry or metadata: that miniblock is not (fully) recorded
	failedTx := map[string]bool{}   // a transaction's index entry: that transaction may keep its old entry
	what := "-"
	if fired && st.FaultAt >= 0 && st.FaultAt < len(puts[st.T]) {
		key := puts[st.T][st.FaultAt]
		if i := bytes.IndexByte(key, '/'); i >= 0 {
			key = key[i+1:] // storer key space prefix ("s/", "e<epoch>/")
		}
		switch st.T {
		case 0, 2:
			if bytes.Equal(key, hdrHash) {
				wholeBlock, what = true, "header epoch entry"
			}
			for _, m := range in {
				if bytes.Equal(key, m.hash) {
					failedMb[m] = true
					what = fmt.Sprintf("miniblock %d %s", m.id, []string{"metadata", "", "epoch entry"}[st.T])
				}
			}
		case 1:
			failedTx[string(key)] = true
			what = "tx index entry"
		default:
			what = "results hashes"
		}
		if what == "-" {
			c.HarnessErr("cannot attribute the failed write %x on disk %d", key, st.T)
			return
		}
	} else if fired {
		c.HarnessErr("fault fired but the write log has no write %d on disk %d", st.FaultAt, st.T)
		return
	}
	c.Eventf("%d record block=%d epoch=%d nonce=%d round=%d mask=%b fault_fired=%v (%s) err=%v", step, bID, epoch, nonce, round, mask, fired, what, err)
	if fired {
		c.Probe("record_fault_hit_" + strings.Fields(what)[0])
	}
	rec := recInfo{block: bID, hash: hdrHash, epoch: epoch, nonce: nonce, round: round, step: step}
	for mi, m := range in {
		m.history = append(m.history, rec)
		failed := wholeBlock || failedMb[m] // this miniblock's own writes did not all succeed
		if fired && !failed && mi > 0 {
			for _, prev := range in[:mi] {
				if failedMb[prev] {
					c.Probe("miniblock_recorded_after_failed_earlier_miniblock")
				}
			}
		}
		sameAsLast := !failed && m.cur != nil && m.cur.block == bID && m.cur.epoch == epoch && m.idempotentOK // skipped for sure
		for _, h := range m.mb.TxHashes {
			t := w.tx(h)
			known := false
			for _, x := range t.hist {
				known = known || x == m
			}
			if !known {
				t.hist = append(t.hist, m)
			}
			// the block recorded now is the most recent one that contains the transaction
			if t.owner != nil && t.owner != m {
				w.competing++
				if sameAsLast {
					c.Probe("repacked_tx_recommitted_by_repeated_record")
				} else if !failed {
					c.Probe("tx_repacked_into_other_miniblock")
				}
			}
			t.viaRepeat = sameAsLast && t.owner != m || (t.viaRepeat && t.owner == m && sameAsLast)
			t.owner = m
			// its index entry is written by every record whose miniblock writes succeed (also by a repeated one)
			t.stale = failed || failedTx[string(h)]
		}
		if failed {
			// a failed record may be missing: until a fault-free record of the miniblock (or a lookup that shows this record)
			r := rec
			m.cur = &r
			m.tainted = true
			m.idempotentOK = false
			for s := range m.notar {
				if m.notar[s].state != nsNone {
					m.notar[s].state = nsLost
				}
			}
			continue
		}
		// all writes of this miniblock succeeded (or it was a repetition the repository skips): it IS recorded, whatever failed
		// before. From the unchanged code: the dedup mark is removed before the writes and set only after the metadata write
		// succeeded, so a held mark implies written metadata; hence after a fault-free record of block X the miniblock names X.
		wasTainted := m.tainted
		m.tainted = false
		if sameAsLast {
			c.Probe("repeated_record_of_same_block")
			m.cur.step = step // the same block, committed again now
			continue
		}
		if wasTainted {
			c.Probe("fault_free_record_after_failed_record")
		}
		if m.cur != nil && m.cur.block != bID {
			w.competing++
			if m.cur.epoch == epoch {
				c.Probe("competing_block_recorded_same_epoch")
			} else {
				c.Probe("competing_block_recorded_cross_epoch")
			}
		}
		for s := range m.notar {
			switch m.notar[s].state {
			case nsApplied:
				// the rewritten metadata starts without notarization data; whether the consumed notification
				// must carry over is not said by the statement: counted, not asserted
				m.notar[s].state = nsLost
				c.Probe("notarization_wiped_by_rerecord")
			case nsPending:
				m.notar[s].order = "notify-then-record"
				if m.cur == nil {
					c.Probe("notification_before_record")
				}
			}
		}
		r := rec
		m.cur = &r
		m.idempotentOK = true
	}
}

func (w *world) notify(step int, st *simkit.Step) {
	c := w.c
	firedBefore := c.Faults["put_error"]
	if st.Fault == "put_error" {
		w.disks[0].ArmAll("put_error") // transient: every write of patched metadata fails during this call
	}
	defer w.disks[0].Disarm()
	if len(st.I) < 2 {
		w.repo.OnNotarizedBlocks(metaShard, []data.HeaderHandler{}, [][]byte{})
		w.disks[0].Disarm()
		c.Eventf("%d notify (no headers) write_failures=%d", step, c.Faults["put_error"]-firedBefore)
		if c.Faults["put_error"] > firedBefore {
			w.writeFailed()
			return // nothing could be written: every due notification has to stay pending
		}
		w.consume()
		return
	}
	metaID, nonce := st.I[0], uint64(st.I[1])
	if nonce < 1 {
		nonce = 1
	}
	metaHash := w.hasher.Compute(fmt.Sprintf("meta-%d", metaID))
	mbk := &block.MetaBlock{Nonce: nonce, Round: nonce + 1000}
	type ent struct {
		m         *mbModel
		container uint32
	}
	var own, shardInfo []ent
	for j := 2; j+1 < len(st.I); j += 2 {
		kind, id := st.I[j], st.I[j+1]
		var m *mbModel
		if id >= 0 && id < int64(len(w.mbs)) {
			m = w.mbs[id]
		} else {
			m = w.ghost(id)
		}
		container := m.snd
		if kind == 1 {
			container = m.rcv
		}
		h := block.MiniBlockHeader{Hash: m.hash, SenderShardID: m.snd, ReceiverShardID: m.rcv, Type: m.mb.Type, TxCount: uint32(len(m.mb.TxHashes))}
		if container == metaShard {
			mbk.MiniBlockHeaders = append(mbk.MiniBlockHeaders, h)
			own = append(own, ent{m, container})
		} else {
			mbk.ShardInfo = append(mbk.ShardInfo, block.ShardData{ShardID: container, ShardMiniBlockHeaders: []block.MiniBlockHeader{h}})
			shardInfo = append(shardInfo, ent{m, container})
		}
	}
	w.repo.OnNotarizedBlocks(metaShard, []data.HeaderHandler{mbk}, [][]byte{metaHash})
	w.disks[0].Disarm()
	writeFailed := c.Faults["put_error"] > firedBefore
	c.Eventf("%d notify meta=%d nonce=%d own=%d shardinfo=%d write_failures=%d", step, metaID, nonce, len(own), len(shardInfo), c.Faults["put_error"]-firedBefore)
	for _, e := range append(own, shardInfo...) {
		src, dst := sides(e.m.snd, e.m.rcv, e.container, w.self)
		for s, on := range []bool{src, dst} {
			if !on {
				continue
			}
			n := notif{nonce: nonce, hash: metaHash}
			e.m.seen[s] = append(e.m.seen[s], n)
			ns := &e.m.notar[s]
			ns.val = n
			if e.m.tainted {
				ns.state = nsLost
				continue
			}
			ns.state = nsPending
			ns.order = "record-then-notify"
			if e.m.cur == nil {
				ns.order = "notify-then-record"
			}
		}
	}
	if writeFailed {
		w.writeFailed()
		return // nothing could be written: every due notification has to stay pending until the next call
	}
	w.consume()
}

// writeFailed: an OnNotarizedBlocks call in which no patched metadata could be written just ended.
func (w *world) writeFailed() {
	w.c.Probe("notification_write_failed_kept_pending")
	for _, m := range w.mbs {
		for s := range m.notar {
			if m.notar[s].state == nsPending && m.cur != nil && !m.tainted {
				m.notar[s].retried = true
			}
		}
	}
}

// consume: an OnNotarizedBlocks call just ended; every pending notification of a miniblock that has a record is due.
func (w *world) consume() {
	for _, m := range w.mbs {
		for s := range m.notar {
			if m.notar[s].state == nsPending && m.cur != nil && !m.tainted {
				m.notar[s].state = nsApplied
				if m.notar[s].order == "notify-then-record" {
					w.c.Probe("pending_notification_consumed_later")
				}
				if m.notar[s].retried {
					m.notar[s].retried = false
					w.c.Probe("notification_applied_after_write_failure")
				}
			}
		}
	}
}

func (w *world) restart() {
	w.c.Probe("restart")
	w.c.Eventf("%d restart", w.c.CurStep)
	for _, m := range w.mbs {
		m.idempotentOK = false
		for s := range m.notar {
			if m.notar[s].state == nsPending {
				m.notar[s].state = nsLost
				w.c.Probe("pending_notification_lost_by_restart")
			}
		}
	}
	w.newRepo()
}

func matches(md *dblookupext.MiniblockMetadata, r *recInfo) bool {
	return bytes.Equal(md.HeaderHash, r.hash) && md.HeaderNonce == r.nonce && md.Epoch == r.epoch && md.Round == r.round
}

// recordedAs finds the record (of any miniblock the transaction was ever recorded in) that md repeats.
func recordedAs(t *txModel, md *dblookupext.MiniblockMetadata) (*mbModel, *recInfo) {
	for _, m := range t.hist {
		if !bytes.Equal(md.MiniblockHash, m.hash) {
			continue
		}
		for k := len(m.history) - 1; k >= 0; k-- {
			if matches(md, &m.history[k]) {
				return m, &m.history[k]
			}
		}
	}
	return nil, nil
}

func (w *world) check() {
	c := w.c
	const site = "GetMiniblockMetadataByTxHash"
	ownedOK, ownedBad := map[*mbModel]int{}, map[*mbModel]int{}
	for ti, t := range w.txList {
		m := t.owner
		if m == nil || m.cur == nil {
			continue
		}
		relaxed := m.tainted || t.stale
		md, err := w.repo.GetMiniblockMetadataByTxHash(t.hash)
		if err != nil {
			ownedBad[m]++
			c.Eventf("  tx%d (mb%d) -> err", ti, m.id)
			if !relaxed {
				c.Violate("C46", "lookup-fails", site, "tx %d of miniblock %d (recorded in block %d at step %d): lookup failed: %v", ti, m.id, m.cur.block, m.cur.step, err)
				return
			}
			continue
		}
		c.Eventf("  tx%d (mb%d) -> mb=%x hdr=%x epoch=%d nonce=%d round=%d src=%d dst=%d", ti, m.id, md.MiniblockHash[:3], md.HeaderHash[:4], md.Epoch, md.HeaderNonce, md.Round,
			md.NotarizedAtSourceInMetaNonce, md.NotarizedAtDestinationInMetaNonce)
		c.FP(ti, md.MiniblockHash, md.HeaderHash, md.NotarizedAtSourceInMetaNonce, md.NotarizedAtDestinationInMetaNonce)
		if !bytes.Equal(md.MiniblockHash, m.hash) || !matches(md, m.cur) {
			ownedBad[m]++
			oldMb, stale := recordedAs(t, md)
			switch {
			case stale == nil && !bytes.Equal(md.MiniblockHash, m.hash):
				c.Violate("C46", "wrong-miniblock", site, "tx %d: metadata of miniblock %x returned, which never held this transaction (expected miniblock %d = %x)", ti, md.MiniblockHash, m.id, m.hash)
				return
			case stale == nil:
				c.Violate("C46", "wrong-header", site, "tx %d of miniblock %d: lookup names header %x epoch %d nonce %d round %d, which was never recorded with this miniblock (latest record: block %d header %x epoch %d nonce %d round %d)",
					ti, m.id, md.HeaderHash[:4], md.Epoch, md.HeaderNonce, md.Round, m.cur.block, m.cur.hash[:4], m.cur.epoch, m.cur.nonce, m.cur.round)
				return
			case relaxed:
				// a failed record may be missing: an older record is acceptable
			default:
				cls := "competing-cross-epoch"
				if stale.epoch == m.cur.epoch {
					cls = "competing-same-epoch"
				}
				if oldMb != m {
					cls = "repacked-in-competing-block"
					if t.viaRepeat {
						cls = "repeated-record-after-repack"
					}
				}
				c.Violate("C46", "names-dropped-block", site+"/"+cls, "tx %d: lookup names block %d (miniblock %d, header %x, epoch %d, recorded at step %d) but the most recent record of the transaction is block %d (miniblock %d, header %x, epoch %d, step %d)",
					ti, stale.block, oldMb.id, stale.hash[:4], stale.epoch, stale.step, m.cur.block, m.id, m.cur.hash[:4], m.cur.epoch, m.cur.step)
				return
			}
			if oldMb != m {
				continue // the metadata of another miniblock: its notarization data is not this miniblock's
			}
		} else {
			ownedOK[m]++
			if !relaxed {
				w.asserted++
			}
			if t.stale && !m.tainted {
				t.stale = false // the lookup shows the latest record: the entry is in place
			}
		}
		// notarization data (md is metadata of miniblock m here)
		got := [2]notif{{md.NotarizedAtSourceInMetaNonce, md.NotarizedAtSourceInMetaHash}, {md.NotarizedAtDestinationInMetaNonce, md.NotarizedAtDestinationInMetaHash}}
		for s, name := range []string{"source", "destination"} {
			if got[s].nonce != 0 || len(got[s].hash) != 0 {
				founded := false
				for _, n := range m.seen[s] {
					if n.nonce == got[s].nonce && bytes.Equal(n.hash, got[s].hash) {
						founded = true
					}
				}
				if !founded {
					c.Violate("C46", "notarization-unfounded", site+"/"+name, "tx %d of miniblock %d reports notarization at %s in meta nonce %d hash %x, but no delivered meta block notarized this miniblock at %s with these coordinates",
						ti, m.id, name, got[s].nonce, got[s].hash, name)
					return
				}
			}
			ns := &m.notar[s]
			if ns.state != nsApplied || relaxed {
				continue
			}
			w.notarAsserted++
			c.Probe("notarization_asserted_" + ns.order)
			if got[s].nonce == 0 && len(got[s].hash) == 0 {
				c.Violate("C46", "notarization-missing", site+"/"+ns.order, "tx %d of miniblock %d: record (step %d) and notarizing meta block (nonce %d) were both seen and a fault-free notification call followed, but notarization at %s is not reported",
					ti, m.id, m.cur.step, ns.val.nonce, name)
				return
			}
			if got[s].nonce != ns.val.nonce || !bytes.Equal(got[s].hash, ns.val.hash) {
				c.Violate("C46", "notarization-stale", site+"/"+ns.order, "tx %d of miniblock %d: notarization at %s reports meta nonce %d hash %x, the latest delivered notarizing meta block is nonce %d hash %x",
					ti, m.id, name, got[s].nonce, got[s].hash, ns.val.nonce, ns.val.hash)
				return
			}
		}
	}
	for _, m := range w.mbs {
		// a failed record is confirmed only by transactions that must name it (never vacuously)
		if m.tainted && ownedOK[m] > 0 && ownedBad[m] == 0 {
			m.tainted = false
			c.Probe("failed_record_confirmed_by_lookup")
		}
	}
}
