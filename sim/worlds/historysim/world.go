// Package historysim is world W14: the transaction-lookup history repository (C46) over simulator-owned disks.
package historysim

import (
	"verifsim/simkit"
)

// World implements simkit.World.
type World struct{}

func (World) Name() string         { return "historysim" }
func (World) Properties() []string { return []string{"C46"} }

func (World) Real(prop string) []string {
	return []string{"core/dblookupext.historyRepository (RecordBlock, OnNotarizedBlocks, GetMiniblockMetadataByTxHash, pending-notification maps)",
		"core/dblookupext.epochByHashIndex", "core/dblookupext.eventsHashesByTxHash",
		"storage/lrucache.lruCache (deduplication cache, 1000 entries)", "core/container.MutexMap",
		"marshal.GogoProtoMarshalizer", "hashing/blake2b | hashing/sha256", "core.CalculateHash",
		"data/block.Header, MetaBlock, ShardData, MiniBlockHeader, Body, MiniBlock", "data/smartContractResult.SmartContractResult"}
}

func (World) Stub(prop string) []string {
	return []string{"the four storers (miniblock metadata, miniblock-hash-by-tx-hash, epoch-by-hash, results-hashes-by-tx-hash): a 60-line storage.Storer over one simkit.SimDisk each; PutInEpoch/GetFromEpoch address a per-epoch key space, Put/Get a static one; no cache in front, so a Restart loses nothing that was put",
		"block processor: the driver calls RecordBlock / OnNotarizedBlocks synchronously in plan order (the node calls OnNotarizedBlocks on a goroutine; the interleaving with RecordBlock is a plan decision at call granularity)",
		"Restart: a new historyRepository over the same four disks"}
}

func (World) Assumptions(prop string) []string {
	return []string{
		"miniblocks are identified by the hash the repository itself computes (core.CalculateHash with the same marshalizer and hasher); a transaction can be re-packed by a competing block into a miniblock of other composition (same shards and type), never twice into one block; the lookup of a transaction must name the block and miniblock of the most recent record that contained the transaction",
		"a repeated record of a block (fork choice flips back) makes that block the most recent one for all its transactions, also for those a competing block had re-packed in between (site repeated-record-after-repack; probe repacked_tx_recommitted_by_repeated_record counts the reach)",
		"a header hash determines its header (epoch, nonce, round): re-recording a header hash always presents the same header",
		"no PeerBlock miniblocks and no meta block with nonce 0 are generated (the repository documents that it ignores both)",
		"notarization fields are asserted only when (a) the miniblock has a record on disk and the notarizing meta block was delivered, (b) an OnNotarizedBlocks call happened at or after the later of the two (bounded progress: pending notifications are consumed only inside OnNotarizedBlocks), (c) no Restart fell between the delivery and that call (pending notifications are memory-only), (d) no later record of the miniblock in a DIFFERENT block (or the same block after a Restart emptied the dedup cache) rewrote the metadata; case (d) is only counted (probe notarization_wiped_by_rerecord) because the statement does not say whether a notification consumed by a dropped block's record must carry over",
		"a notarization field that is set must equal a (meta nonce, meta hash) pair that was delivered for that miniblock and side",
		"put_error in RecordBlock hits exactly ONE write (the n-th write of the call on one disk; the harness watches the writes at the disk seam and attributes the failed one by its key). Narrow relaxation: the header's epoch entry failed -> every miniblock of that block may be missing; a miniblock's own epoch entry or metadata write failed -> only that miniblock may be missing (its lookups may fail or name any block recorded with that transaction); a transaction's index entry failed -> only that transaction may keep an older entry; results-hashes write failed -> nothing is relaxed. Miniblocks of the block whose own writes all succeeded ARE recorded, whatever failed before them",
		"the relaxation ends with the next fault-free record that contains the miniblock / transaction (or earlier, when a lookup shows the latest record): after a fault-free record of block X, repeated or not, every miniblock of X must name X. Justification from the unchanged code: the dedup mark is removed before the writes and set only after the metadata write succeeded, so a held mark implies written metadata, and every record re-writes the transaction index",
		"put_error during OnNotarizedBlocks: every write of patched metadata fails for the duration of ONE call (not a single n-th write: the order in which one call applies several pending notifications follows Go map iteration and would not replay); the repository keeps such notifications pending, so after the next fault-free OnNotarizedBlocks call they must be reported (unless a Restart fell in between)",
		"dedup cache (1000 entries) never evicts inside a run (at most 4 miniblocks x few epochs)",
	}
}

func (World) Rule(prop string) string {
	return "2-4 miniblocks (1-3 tx hashes each; intra-shard, outgoing, incoming, to-meta, from-meta), in half of the runs 1-2 further miniblocks that re-pack transactions of another one (one more tx / one tx swapped / only the first tx); 2-6 shard blocks over 1-3 heights and 1-3 epochs with competing blocks sharing miniblocks or holding the re-packed version (same epoch and across epochs), 1-4 meta blocks (some competing) whose shard data name the miniblocks at source/destination plus unknown and irrelevant miniblocks; 6-45 steps record(block) | notify(meta) | notify() | restart in random order with re-records (fork flips back) and duplicate notifications; arm faults: 1-2 steps with a put_error: a record step (exactly the n-th write of the call on one of the four disks, n 0-5) or a notify step (all metadata writes of that call), followed by a fault-free notify. After every step every tx of every recorded miniblock is looked up. non-trivial = a miniblock was recorded in two different blocks and at least one lookup was asserted; distinct = hash of full plan; states = (tx, header hash, notarization nonces) tuples"
}

func (World) Budget(prop, tier string) int {
	if tier == "thorough" {
		return 60000 * 30
	}
	return 60000
}

func (World) Generate(r *simkit.Rand, prop, tier string, race bool) *simkit.Plan {
	return genC46(r, tier)
}

func (World) Execute(c *simkit.Ctx) bool {
	if c.Plan.Property != "C46" {
		c.HarnessErr("unknown property %s", c.Plan.Property)
		return false
	}
	return execC46(c)
}
