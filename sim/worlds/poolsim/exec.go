package poolsim

import (
	"fmt"
	"hash/fnv"
	"sort"
	"strings"
	"testing/synctest"

	"github.com/ElrondNetwork/elrond-go/data/transaction"
	"github.com/ElrondNetwork/elrond-go/process"
	"github.com/ElrondNetwork/elrond-go/storage/txcache"

	"verifsim/simkit"
)

// ---------------------------------------------------------------------------------------------
// stub at the boundary: the gas schedule
// ---------------------------------------------------------------------------------------------

const (
	stubMinGasPrice       = uint64(1000)
	stubMinGasLimit       = uint64(1)
	stubProcessingDivisor = uint64(100)
	txGasLimit            = uint64(10)
)

type gasStub struct{}

func (gasStub) SplitTxGasInCategories(tx process.TransactionWithFeeHandler) (uint64, uint64) {
	return tx.GetGasLimit(), 0
}
func (gasStub) GasPriceForProcessing(tx process.TransactionWithFeeHandler) uint64 {
	return tx.GetGasPrice() / stubProcessingDivisor
}
func (gasStub) GasPriceForMove(tx process.TransactionWithFeeHandler) uint64 { return tx.GetGasPrice() }
func (gasStub) MinGasPrice() uint64                                         { return stubMinGasPrice }
func (gasStub) MinGasLimit() uint64                                         { return stubMinGasLimit }
func (gasStub) MinGasPriceForProcessing() uint64                            { return stubMinGasPrice / stubProcessingDivisor }
func (gasStub) IsInterfaceNil() bool                                        { return false }

// ---------------------------------------------------------------------------------------------
// model of what the statement of C26 calls "its account nonce" and "its grace period"
// ---------------------------------------------------------------------------------------------

const (
	nonceUnknown = 0 // the pool holds no account nonce for the sender's list
	nonceKnown   = 1
	nonceMaybe   = 2 // the list may have been evicted and re-created inside one AddTx: no obligation
	manyFailures = 1 << 30
)

type senderModel struct {
	known  int
	acct   uint64
	lo, hi int // interval that contains the number of consecutive failed selections
}

func (m *senderModel) bump(certain bool) {
	if certain && m.lo < manyFailures {
		m.lo++
	}
	if m.hi < manyFailures {
		m.hi++
	}
}

// ---------------------------------------------------------------------------------------------

type runState struct {
	c     *simkit.Ctx
	prop  string
	cache *txcache.TxCache

	nSenders   int
	evict      bool
	countThr   uint64
	bytesThr   int
	evictBatch int
	sndCount   int
	sndBytes   int64
	levelStep  int64
	prices     [maxSenders]int64

	offered map[string]bool // every hash ever offered
	offList []string        // same, in first-offer order
	model   map[string]*senderModel
	snap    []txcache.VerifSender // per-sender lists after the previous step

	inLists map[string]string // scratch of checkC25

	limitsBound bool // C25 non-trivial
	gapSelected bool // C26 non-trivial
	stop        bool
}

const siteSelect = "SelectTransactions"

func senderKey(s int64) string { return fmt.Sprintf("sender-%02d", s) }

func senderID(key string) string { return strings.TrimPrefix(key, "sender-") }

func run(c *simkit.Ctx) bool {
	p := c.Plan
	st := &runState{c: c, prop: p.Property, offered: map[string]bool{}, model: map[string]*senderModel{}}
	st.nSenders = int(p.Knob("senders", 1))
	if st.nSenders < 1 || st.nSenders > maxSenders {
		return false
	}
	st.evict = p.Knob("evict", 0) != 0
	st.countThr = uint64(p.Knob("count_thr", 4))
	st.bytesThr = int(p.Knob("bytes_thr", 1<<30))
	st.evictBatch = int(p.Knob("evict_senders", 1))
	st.sndCount = int(p.Knob("snd_count", 8))
	st.sndBytes = p.Knob("snd_bytes", 1000)
	st.levelStep = p.Knob("level_step", 1)
	for s := 0; s < maxSenders; s++ {
		st.prices[s] = p.Knob(fmt.Sprintf("price_s%d", s), 1200)
	}
	cfg := txcache.ConfigSourceMe{Name: "poolsim", NumChunks: uint32(p.Knob("chunks", 1)), EvictionEnabled: st.evict,
		NumBytesThreshold: uint32(st.bytesThr), NumBytesPerSenderThreshold: uint32(st.sndBytes), CountThreshold: uint32(st.countThr),
		CountPerSenderThreshold: uint32(st.sndCount), NumSendersToPreemptivelyEvict: uint32(st.evictBatch)}
	cache, err := txcache.NewTxCache(cfg, gasStub{})
	if err != nil {
		return false // not an accepted configuration: outside the property
	}
	st.cache = cache
	c.Eventf("config %+v", cfg)

	for i := range p.Steps {
		step := &p.Steps[i]
		c.CurStep = i
		switch step.Op {
		case "add":
			st.doAdd(i, step)
		case "remove":
			st.doRemove(i, step)
		case "select":
			st.doSelect(i, step)
		case "notify":
			st.doNotify(i, step)
		case "clear":
			st.doClear(i)
		default:
			continue
		}
		c.StepsDone++
		if st.stop || c.Failed(st.prop) {
			break
		}
	}
	if st.prop == "C25" {
		return st.limitsBound
	}
	return st.gapSelected
}

// ---------------------------------------------------------------------------------------------
// helpers over snapshots
// ---------------------------------------------------------------------------------------------

func findSender(snap []txcache.VerifSender, key string) *txcache.VerifSender {
	for i := range snap {
		if snap[i].Sender == key {
			return &snap[i]
		}
	}
	return nil
}

func totalTxs(snap []txcache.VerifSender) int {
	n := 0
	for i := range snap {
		n += len(snap[i].Txs)
	}
	return n
}

// hasTie reports whether two senders share a score bucket (their relative order is Go map order).
func hasTie(snap []txcache.VerifSender) bool {
	var seen [txcache.VerifNumScoreBuckets]bool
	for i := range snap {
		if !snap[i].InScoreBucket || snap[i].ScoreBucket >= txcache.VerifNumScoreBuckets {
			continue
		}
		if seen[snap[i].ScoreBucket] {
			return true
		}
		seen[snap[i].ScoreBucket] = true
	}
	return false
}

// evictionDependsOnMapOrder replays the shape of the pool-level eviction (batches of senders in ascending score
// order while a threshold is exceeded) over the snapshot and reports whether a batch boundary would cut through a
// group of senders that share a score bucket. It is only a determinism guard, never part of an oracle.
func (st *runState) evictionDependsOnMapOrder() (willEvict bool, ambiguous bool) {
	if !st.evict {
		return false, false
	}
	bytes, txs, senders := st.cache.NumBytes(), st.cache.CountTx(), st.cache.CountSenders()
	exceeded := func() bool {
		return bytes > st.bytesThr || senders > st.countThr || txs > st.countThr
	}
	if !exceeded() {
		return false, false
	}
	order := make([]*txcache.VerifSender, 0, len(st.snap))
	for i := range st.snap {
		if st.snap[i].InScoreBucket {
			order = append(order, &st.snap[i])
		}
	}
	sort.SliceStable(order, func(a, b int) bool { return order[a].ScoreBucket < order[b].ScoreBucket })
	n := len(order)
	for pos := 0; exceeded() && pos < n; pos += st.evictBatch {
		end := pos + st.evictBatch
		if end > n {
			end = n
		}
		if end < n && order[end-1].ScoreBucket == order[end].ScoreBucket {
			return true, true
		}
		evictedTxs := 0
		for _, s := range order[pos:end] {
			for _, t := range s.Txs {
				bytes -= int(t.Size)
				evictedTxs++
			}
			txs -= uint64(len(s.Txs))
			senders--
		}
		if evictedTxs == 0 || end-pos < st.evictBatch {
			break
		}
	}
	return true, false
}

func (st *runState) summary() string {
	return fmt.Sprintf("txs=%d bytes=%d senders=%d", st.cache.CountTx(), st.cache.NumBytes(), st.cache.CountSenders())
}

// ---------------------------------------------------------------------------------------------
// after every step: read the lists, maintain the model, check C25
// ---------------------------------------------------------------------------------------------

// afterStep quiesces the pool, reads the per-sender lists, checks the C25 invariants and keeps the C26 model in
// step with senders that appeared or disappeared. addSender/addHash are the sender key and hash of an AddTx step
// ("" otherwise); addMayReplace says that this AddTx ran the pool-level eviction first.
func (st *runState) afterStep(site string, addSender string, addHash string, addMayReplace bool) {
	if site == siteSelect {
		// the only operation that spawns a goroutine (`go cache.doAfterSelection()`: sweeping + diagnose)
		synctest.Wait()
	}
	c := st.c
	pre := st.snap
	post := st.cache.VerifSenders()
	st.snap = post

	// C26 model: lists that vanished lose everything the pool knew about them
	for i := range pre {
		if findSender(post, pre[i].Sender) == nil {
			delete(st.model, pre[i].Sender)
		}
	}
	for i := range post {
		key := post[i].Sender
		was := findSender(pre, key)
		if was == nil {
			st.model[key] = &senderModel{}
			continue
		}
		if key == addSender && addMayReplace {
			survivor := false
			old := map[string]bool{}
			for _, t := range was.Txs {
				if string(t.Hash) != addHash { // the offered transaction itself proves nothing: it is (re-)added after the eviction
					old[string(t.Hash)] = true
				}
			}
			for _, t := range post[i].Txs {
				if old[string(t.Hash)] {
					survivor = true
				}
			}
			if !survivor {
				st.model[key] = &senderModel{known: nonceMaybe, lo: 0, hi: manyFailures}
				c.Probe("model_list_maybe_replaced")
			}
		}
	}
	// harness self-check (probe only): the pool's own records lie inside the model
	for i := range post {
		m := st.model[post[i].Sender]
		if m == nil {
			continue
		}
		f := int(post[i].NumFailedSelections)
		if f < m.lo || f > m.hi || (m.known == nonceKnown && (!post[i].AccountNonceKnown || post[i].AccountNonce != m.acct)) ||
			(m.known == nonceUnknown && post[i].AccountNonceKnown) {
			c.Probe("anomaly_model_vs_pool_records")
		}
	}

	st.checkC25(site, post, addSender)

	h := fnv.New64a()
	for i := range post {
		fmt.Fprintf(h, "%s:", post[i].Sender)
		for _, t := range post[i].Txs {
			h.Write(t.Hash)
			h.Write([]byte{','})
		}
	}
	c.FP(h.Sum64())
}

func (st *runState) checkC25(site string, snap []txcache.VerifSender, addSender string) {
	c := st.c
	if st.inLists == nil {
		st.inLists = map[string]string{}
	}
	clear(st.inLists)
	inLists := st.inLists
	var totalBytes int64
	broken := false
	for i := range snap {
		s := &snap[i]
		if len(s.Txs) == 0 {
			c.Probe("empty_sender_list")
		}
		var sBytes int64
		dupNonce := false
		for j, t := range s.Txs {
			h := string(t.Hash)
			if other, dup := inLists[h]; dup {
				c.Violate("C25", "duplicate-hash", site, "hash %s is listed twice (sender lists %s and %s)", h, senderID(other), senderID(s.Sender))
				broken = true
			}
			inLists[h] = s.Sender
			sBytes += t.Size
			if j > 0 {
				prev := s.Txs[j-1]
				if t.Nonce < prev.Nonce {
					c.Violate("C25", "list-not-ordered-by-nonce", site, "sender %s: nonce %d is listed after nonce %d (list %s)", senderID(s.Sender), t.Nonce, prev.Nonce, fmtList(s))
				} else if t.Nonce == prev.Nonce {
					dupNonce = true
					if t.GasPrice > prev.GasPrice {
						c.Violate("C25", "equal-nonce-not-ordered-by-gas-price", site, "sender %s nonce %d: gas price %d is listed after gas price %d (list %s)", senderID(s.Sender), t.Nonce, t.GasPrice, prev.GasPrice, fmtList(s))
					}
				}
			}
		}
		if dupNonce {
			c.Probe("duplicate_nonce_in_list")
		}
		totalBytes += sBytes
		if s.TotalBytesCounter != sBytes {
			c.Probe("anomaly_sender_bytes_counter") // internal counter, not in the statement
		}
		if s.Sender == addSender {
			if len(s.Txs) > st.sndCount {
				c.Violate("C25", "sender-count-limit-exceeded", site, "after AddTx sender %s holds %d transactions, CountPerSenderThreshold=%d (list %s)", senderID(s.Sender), len(s.Txs), st.sndCount, fmtList(s))
			}
			if sBytes > st.sndBytes {
				c.Violate("C25", "sender-bytes-limit-exceeded", site, "after AddTx sender %s holds %d bytes in %d transactions, NumBytesPerSenderThreshold=%d (list %s)", senderID(s.Sender), sBytes, len(s.Txs), st.sndBytes, fmtList(s))
			}
			if len(s.Txs) == st.sndCount {
				c.Probe("sender_at_count_limit")
			}
		}
	}

	// found by hash == held in the lists, over everything ever offered plus whatever the hash index enumerates
	universe := st.offList
	extra := []string{}
	for _, k := range st.cache.Keys() {
		if !st.offered[string(k)] {
			extra = append(extra, string(k))
		}
	}
	if len(extra) > 0 {
		sort.Strings(extra)
		universe = append(append([]string{}, universe...), extra...)
	}
	for _, h := range universe {
		_, found := st.cache.GetByTxHash([]byte(h))
		_, listed := inLists[h]
		if found && !listed {
			c.Violate("C25", "found-by-hash-but-in-no-list", site, "GetByTxHash(%s) finds a transaction that no sender list holds", h)
			broken = true
		} else if !found && listed {
			c.Violate("C25", "listed-but-not-found-by-hash", site, "sender %s lists %s but GetByTxHash does not find it", senderID(inLists[h]), h)
			broken = true
		}
	}
	if got := st.cache.CountTx(); got != uint64(len(inLists)) {
		c.Violate("C25", "tx-count-mismatch", site, "CountTx()=%d, the sender lists hold %d transactions", got, len(inLists))
		broken = true
	}
	if got := st.cache.NumBytes(); int64(got) != totalBytes {
		c.Violate("C25", "byte-count-mismatch", site, "NumBytes()=%d, the pooled transactions add up to %d bytes (%d transactions)", got, totalBytes, len(inLists))
		broken = true
	}
	if got := st.cache.CountSenders(); got != uint64(len(snap)) {
		c.Violate("C25", "sender-count-mismatch", site, "CountSenders()=%d, the pool holds %d sender lists", got, len(snap))
		broken = true
	}
	if broken {
		st.stop = true // the determinism guards rely on consistent indexes
	}
}

func fmtList(s *txcache.VerifSender) string {
	var b strings.Builder
	b.WriteByte('[')
	for i, t := range s.Txs {
		if i > 0 {
			b.WriteByte(' ')
		}
		fmt.Fprintf(&b, "n%d/p%d/%dB", t.Nonce, t.GasPrice, t.Size)
	}
	b.WriteByte(']')
	return b.String()
}

// ---------------------------------------------------------------------------------------------
// operations
// ---------------------------------------------------------------------------------------------

func (st *runState) wrap(t txTuple) *txcache.WrappedTransaction {
	price := st.prices[t.sender] + t.level*st.levelStep
	return &txcache.WrappedTransaction{
		Tx:     &transaction.Transaction{SndAddr: []byte(senderKey(t.sender)), Nonce: uint64(t.nonce), GasPrice: uint64(price), GasLimit: txGasLimit},
		TxHash: []byte(t.hash()),
		Size:   t.size,
	}
}

func validTuple(t txTuple, nSenders int) bool {
	return t.sender >= 0 && int(t.sender) < nSenders && t.nonce >= 0 && t.level >= 0 && t.level < 3 && t.size >= 1 && t.size <= 400
}

func (st *runState) doAdd(i int, step *simkit.Step) {
	c := st.c
	t := tupleOf(step)
	if !validTuple(t, st.nSenders) {
		return
	}
	key := senderKey(t.sender)
	willEvict, ambiguous := st.evictionDependsOnMapOrder()
	if ambiguous {
		c.Probe("add_skipped_tie")
		c.Eventf("%d add %s skipped: eviction would depend on map order", i, t.hash())
		return
	}
	h := t.hash()
	if !st.offered[h] {
		st.offered[h] = true
		st.offList = append(st.offList, h)
	}
	_, wasPooled := st.cache.GetByTxHash([]byte(h))
	pre := st.snap
	ok, added := st.cache.AddTx(st.wrap(t))
	st.afterStep("AddTx", key, h, willEvict)
	post := st.snap
	_, pooled := st.cache.GetByTxHash([]byte(h))
	c.Eventf("%d add %s -> ok=%v added=%v pooled=%v %s", i, h, ok, added, pooled, st.summary())

	// probes: what did the add drop?
	if wasPooled {
		c.Probe("re_add_of_pooled_tx")
	}
	lostOwn, lostOther, lostSenders := 0, 0, 0
	for k := range pre {
		now := findSender(post, pre[k].Sender)
		if now == nil && pre[k].Sender != key {
			lostSenders++
		}
		have := map[string]bool{}
		if now != nil {
			for _, x := range now.Txs {
				have[string(x.Hash)] = true
			}
		}
		for _, x := range pre[k].Txs {
			if !have[string(x.Hash)] {
				if pre[k].Sender == key {
					lostOwn++
				} else {
					lostOther++
				}
			}
		}
	}
	if willEvict {
		c.Probe("pool_eviction_ran")
	}
	if lostOther > 0 || lostSenders > 0 {
		c.Probe("pool_eviction_removed_senders")
		st.limitsBound = true
	}
	if lostOwn > 0 || (added && !pooled && !wasPooled) {
		c.Probe("sender_limit_evicted")
		st.limitsBound = true
	}
	if added && !pooled && !wasPooled {
		c.Probe("added_tx_evicted_itself")
	}
}

func (st *runState) doRemove(i int, step *simkit.Step) {
	t := tupleOf(step)
	h := t.hash()
	if !st.offered[h] {
		st.offered[h] = true
		st.offList = append(st.offList, h)
	}
	removed := st.cache.RemoveTxByHash([]byte(h))
	st.afterStep("RemoveTxByHash", "", "", false)
	if removed {
		st.c.Probe("removed_pooled_tx")
	}
	st.c.Eventf("%d remove %s -> %v %s", i, h, removed, st.summary())
}

func (st *runState) doNotify(i int, step *simkit.Step) {
	s, nonce := step.Int(0, 0), step.Int(1, 0)
	if s < 0 || int(s) >= st.nSenders || nonce < 0 {
		return
	}
	key := senderKey(s)
	st.cache.NotifyAccountNonce([]byte(key), uint64(nonce))
	if m := st.model[key]; m != nil && findSender(st.snap, key) != nil {
		m.known, m.acct = nonceKnown, uint64(nonce)
	} else {
		st.c.Probe("notify_dropped")
	}
	st.afterStep("NotifyAccountNonce", "", "", false)
	st.c.Eventf("%d notify %s nonce=%d %s", i, senderID(key), nonce, st.summary())
}

func (st *runState) doClear(i int) {
	if totalTxs(st.snap) > 0 {
		st.c.Probe("clear_nonempty")
	}
	st.cache.Clear()
	st.afterStep("Clear", "", "", false)
	st.c.Eventf("%d clear %s", i, st.summary())
}

func intersects(lo, hi, a, b int) bool { return lo <= b && a <= hi }

func (st *runState) doSelect(i int, step *simkit.Step) {
	c := st.c
	n, batch := int(step.Int(0, 0)), int(step.Int(1, 1))
	if n < 0 || batch < 0 {
		return
	}
	pre := st.snap
	pooled := totalTxs(pre)
	if hasTie(pre) && n <= pooled {
		n = pooled + 1
		c.Probe("select_widened_tie")
	}
	res := st.cache.SelectTransactions(n, batch)

	// --- C26 ---
	site := siteSelect
	if len(res) > n {
		c.Violate("C26", "more-than-requested", site, "SelectTransactions(%d,%d) returned %d transactions", n, batch, len(res))
	}
	owner := map[string]int{} // hash -> index in pre
	for k := range pre {
		for _, t := range pre[k].Txs {
			owner[string(t.Hash)] = k
		}
	}
	picked := make([]map[string]bool, len(pre))
	pickedOrder := make([][]string, len(pre))
	seen := map[string]bool{}
	for _, w := range res {
		if w == nil || w.Tx == nil {
			c.Violate("C26", "not-pooled", site, "SelectTransactions(%d,%d) returned a nil entry", n, batch)
			continue
		}
		h := string(w.TxHash)
		if seen[h] {
			c.Violate("C26", "selected-twice", site, "SelectTransactions(%d,%d) returned %s twice", n, batch, h)
			continue
		}
		seen[h] = true
		k, ok := owner[h]
		if !ok {
			c.Violate("C26", "not-pooled", site, "SelectTransactions(%d,%d) returned %s which is not in the pool", n, batch, h)
			continue
		}
		if picked[k] == nil {
			picked[k] = map[string]bool{}
		}
		picked[k][h] = true
		pickedOrder[k] = append(pickedOrder[k], h)
	}
	full := len(res) >= n
	if full && pooled > len(res) {
		c.Probe("select_count_bound")
	}
	parts := []string{}
	anyGap := false
	for k := range pre {
		s := &pre[k]
		cnt := len(picked[k])
		parts = append(parts, fmt.Sprintf("%s:%d", senderID(s.Sender), cnt))
		if len(s.Txs) == 0 {
			// an empty list has no lowest pooled nonce, hence no initial gap: a visited sender starts over
			if m := st.model[s.Sender]; m != nil && m.known != nonceMaybe {
				if !full {
					m.lo, m.hi = 0, 0
				} else {
					m.lo = 0
				}
			} else if m != nil {
				m.lo = 0
			}
			continue
		}
		// the selected transactions are the first ones of the list
		for j := 0; j < cnt; j++ {
			if !picked[k][string(s.Txs[j].Hash)] {
				c.Violate("C26", "not-first-of-list", site, "SelectTransactions(%d,%d): sender %s gave %v, which are not the first %d of its list %s", n, batch, senderID(s.Sender), pickedOrder[k], cnt, fmtList(s))
				break
			}
			if pickedOrder[k][j] != string(s.Txs[j].Hash) {
				c.Probe("anomaly_result_order")
			}
		}
		// consecutive selected nonces never skip a value
		for j := 1; j < cnt; j++ {
			if s.Txs[j].Nonce > s.Txs[j-1].Nonce+1 {
				c.Violate("C26", "selected-across-nonce-gap", site, "SelectTransactions(%d,%d): sender %s gave nonces %d and then %d (list %s): the values between were skipped", n, batch, senderID(s.Sender), s.Txs[j-1].Nonce, s.Txs[j].Nonce, fmtList(s))
				break
			}
		}
		listHasGap := false
		for j := 1; j < len(s.Txs); j++ {
			if s.Txs[j].Nonce > s.Txs[j-1].Nonce+1 {
				listHasGap = true
			}
		}
		if listHasGap {
			c.Probe("select_with_middle_gap")
			if cnt > 0 {
				anyGap = true
			}
			if s.Txs[0].Nonce == 0 && len(s.Txs) > 1 && s.Txs[1].Nonce > 1 {
				c.Probe("select_gap_right_after_nonce_0")
			}
		}
		// initial gap and grace period
		m := st.model[s.Sender]
		if m == nil {
			c.HarnessErr("no model for sender %s", s.Sender)
			return
		}
		reached := !full || cnt > 0
		switch {
		case m.known == nonceKnown && s.Txs[0].Nonce > m.acct:
			c.Probe("select_with_initial_gap")
			grace := intersects(m.lo+1, m.hi+1, txcache.VerifSenderGracePeriodLowerBound, txcache.VerifSenderGracePeriodUpperBound)
			if cnt > 1 || (cnt == 1 && !grace) {
				c.Violate("C26", "initial-gap-sender-selected", site,
					"SelectTransactions(%d,%d): sender %s gave %d transaction(s) although its lowest pooled nonce %d is above its account nonce %d (consecutive failed selections before this one: %d..%d, grace window %d..%d; list %s)",
					n, batch, senderID(s.Sender), cnt, s.Txs[0].Nonce, m.acct, m.lo, minInt(m.hi, 99), txcache.VerifSenderGracePeriodLowerBound, txcache.VerifSenderGracePeriodUpperBound, fmtList(s))
			}
			if cnt == 1 {
				c.Probe("grace_period_used")
				anyGap = true
			}
			if m.lo+1 > txcache.VerifSenderGracePeriodUpperBound {
				c.Probe("grace_period_exceeded")
			}
			m.bump(reached)
		case m.known == nonceMaybe:
			m.lo = 0
		default:
			if reached {
				m.lo, m.hi = 0, 0
			} else {
				m.lo = 0
			}
		}
	}
	if anyGap && len(res) > 0 {
		st.gapSelected = true
	}

	preSenders := len(pre)
	st.afterStep(site, "", "", false)
	if len(st.snap) < preSenders {
		c.Probe("sweep_removed_sender")
		st.limitsBound = true
	}
	c.Eventf("%d select n=%d batch=%d -> %d [%s] %s", i, n, batch, len(res), strings.Join(parts, " "), st.summary())
}

func minInt(a, b int) int {
	if a < b {
		return a
	}
	return b
}
