package poolsim

import (
	"fmt"

	"verifsim/simkit"
)

const maxSenders = 6

// txTuple identifies one transaction of a plan: everything its hash is derived from.
type txTuple struct {
	sender, nonce, level, size, variant int64
}

func (t txTuple) ints() []int64 { return []int64{t.sender, t.nonce, t.level, t.size, t.variant} }

func tupleOf(st *simkit.Step) txTuple {
	return txTuple{st.Int(0, 0), st.Int(1, 0), st.Int(2, 0), st.Int(3, 1), st.Int(4, 0)}
}

func (t txTuple) hash() string {
	return fmt.Sprintf("h-%d-%d-%d-%d-%d", t.sender, t.nonce, t.level, t.size, t.variant)
}

func generate(r *simkit.Rand, prop string) *simkit.Plan {
	p := &simkit.Plan{Arm: "faultfree", Knobs: map[string]int64{}}
	k := p.Knobs

	nS := []int{1, 2, 2, 3, 3, 3, 4, 4, 5, 6, 6}[r.Intn(11)]
	k["senders"] = int64(nS)
	k["chunks"] = int64(r.Range(1, 4))

	// pool-level eviction with tiny thresholds
	if r.Chance(0.6) {
		k["evict"] = 1
		k["count_thr"] = int64(r.Range(4, 20))
		if r.Chance(0.6) {
			k["bytes_thr"] = int64(r.Range(100, 3000))
		} else {
			k["bytes_thr"] = 1 << 30
		}
		k["evict_senders"] = int64(r.Range(1, 3))
	} else {
		k["evict"] = 0
	}

	// per-sender limits
	k["snd_count"] = int64(r.Range(1, 8))
	k["snd_bytes"] = int64(r.Range(50, 1000))

	// sizes: upper bound biased so that sometimes the count limit, sometimes the byte limit binds
	maxSize := []int{1, 10, 30, 60, 120, 250, 400}[r.Intn(7)]
	sizeNearLimit := r.Chance(0.3)

	// gas prices: per-sender base price (distinct unless "flat"), 1-3 levels above it
	levels := r.Range(1, 3)
	k["levels"] = int64(levels)
	k["level_step"] = int64(r.Range(1, 40))
	flat := r.Chance(0.05)
	used := map[int]bool{}
	for s := 0; s < maxSenders; s++ {
		price := 1200
		if !flat {
			for {
				price = r.Range(650, 1950)
				if !used[price] {
					break
				}
			}
			used[price] = true
		}
		k[fmt.Sprintf("price_s%d", s)] = int64(price)
	}

	maxNonce := r.Range(2, 12)
	nSteps := r.Range(20, 200)

	// swarm weights
	w := []int{r.Range(4, 12), r.Range(0, 4), r.Range(1, 4), r.Range(0, 3), 0}
	if r.Chance(0.15) {
		w[4] = 1
	}
	ops := []string{"add", "remove", "select", "notify", "clear"}

	next := make([]int, nS) // next sequential nonce per sender
	lowest := make([]int, nS)
	for s := range next {
		if r.Chance(0.5) {
			next[s] = 0
		} else {
			next[s] = r.Range(0, 4)
		}
		lowest[s] = next[s]
	}
	var added []txTuple
	bySender := make([][]txTuple, nS)

	pickSize := func() int {
		if sizeNearLimit && r.Chance(0.3) {
			lim := int(k["snd_bytes"])
			v := lim/r.Range(1, 4) + r.Range(-3, 3)
			if v < 1 {
				v = 1
			}
			if v > 400 {
				v = 400
			}
			return v
		}
		return r.Range(1, maxSize)
	}

	for len(p.Steps) < nSteps {
		op := ops[r.Weighted(w)]
		switch op {
		case "add":
			s := r.Intn(nS)
			var t txTuple
			c := r.Intn(100)
			switch {
			case c < 10 && len(added) > 0: // exact re-add of an earlier transaction
				t = added[r.Intn(len(added))]
			case c < 25 && len(bySender[s]) > 0: // same nonce as an earlier one, other hash / gas price
				o := bySender[s][r.Intn(len(bySender[s]))]
				t = txTuple{int64(s), o.nonce, int64(r.Intn(levels)), int64(pickSize()), int64(r.Intn(3))}
			case c < 45: // anywhere
				t = txTuple{int64(s), int64(r.Range(0, maxNonce)), int64(r.Intn(levels)), int64(pickSize()), int64(r.Intn(3))}
			default: // sequential, sometimes skipping one
				if next[s] > maxNonce {
					next[s] = r.Range(0, 2)
				}
				t = txTuple{int64(s), int64(next[s]), int64(r.Intn(levels)), int64(pickSize()), int64(r.Intn(3))}
				next[s]++
				if r.Chance(0.12) {
					next[s]++
				}
			}
			if int(t.nonce) < lowest[t.sender] {
				lowest[t.sender] = int(t.nonce)
			}
			added = append(added, t)
			bySender[t.sender] = append(bySender[t.sender], t)
			p.Steps = append(p.Steps, simkit.Step{Op: "add", I: t.ints()})
		case "remove":
			var t txTuple
			if len(added) > 0 && r.Chance(0.9) {
				// mostly recent or low-nonce transactions (what a committed block would remove)
				if r.Chance(0.5) {
					t = added[len(added)-1-r.Intn(min(len(added), 8))]
				} else {
					t = added[r.Intn(len(added))]
				}
			} else {
				t = txTuple{int64(r.Intn(nS)), int64(r.Range(0, maxNonce)), 0, 1, 7} // never added (variant 7)
			}
			p.Steps = append(p.Steps, simkit.Step{Op: "remove", I: t.ints()})
		case "select":
			burst := 1
			if r.Chance(0.3) {
				burst = r.Range(2, 4)
			}
			for b := 0; b < burst && len(p.Steps) < nSteps; b++ {
				var n int
				switch r.Intn(10) {
				case 0, 1, 2, 3:
					n = r.Range(0, 5)
				case 4, 5, 6, 7:
					n = r.Range(6, 20)
				default:
					n = 50
				}
				batch := r.Range(1, 4)
				switch r.Intn(30) {
				case 0:
					batch = 0
				case 1, 2, 3, 4, 5:
					batch = 10
				}
				p.Steps = append(p.Steps, simkit.Step{Op: "select", I: []int64{int64(n), int64(batch)}})
			}
		case "notify":
			s := r.Intn(nS)
			var n int
			if r.Chance(0.6) {
				n = lowest[s] + r.Range(-1, 1)
				if n < 0 {
					n = 0
				}
			} else {
				n = r.Range(0, maxNonce)
			}
			p.Steps = append(p.Steps, simkit.Step{Op: "notify", I: []int64{int64(s), int64(n)}})
		case "clear":
			p.Steps = append(p.Steps, simkit.Step{Op: "clear"})
			for s := range lowest {
				lowest[s] = next[s]
			}
		}
	}
	return p
}
