// Package poolsim is world W8: the transaction pool storage/txcache.TxCache (C25 index consistency,
// C26 selection respects nonce order). One generator and one execution serve both properties; both
// oracles are evaluated in every run, the run stops at the first violation of the property under check.
package poolsim

import (
	"fmt"
	"runtime/debug"

	"github.com/ElrondNetwork/elrond-go/storage/txcache"

	"verifsim/simkit"
)

// Every run builds a fresh pool (two hundred small maps) on a heap of a few hundred kB: with the default GC
// target the collector would run every few runs and dominate the wall time. Harness-only tuning.
func init() { debug.SetGCPercent(1600) }

// World implements simkit.World.
type World struct{}

func (World) Name() string         { return "poolsim" }
func (World) Properties() []string { return []string{"C25", "C26"} }

func (World) Real(prop string) []string {
	return []string{"storage/txcache.TxCache", "storage/txcache.txListBySenderMap", "storage/txcache.txListForSender",
		"storage/txcache.txByHashMap", "storage/txcache eviction.go + sweeping.go (doEviction, evictSendersAndTheirTxs, sweepSweepable, the real `go doAfterSelection()` goroutine)",
		"storage/txcache.defaultScoreComputer + feeComputationHelper", "storage/txcache/maps.BucketSortedMap", "storage/txcache/maps.ConcurrentMap",
		"data/transaction.Transaction"}
}

func (World) Stub(prop string) []string {
	return []string{
		fmt.Sprintf("TxGasHandler: constant price schedule (MinGasPrice %d, MinGasLimit %d, MinGasPriceForProcessing %d, move gas = gas limit, processing gas = 0, price = the transaction's own gas price)", stubMinGasPrice, stubMinGasLimit, stubMinGasPrice/stubProcessingDivisor),
		"scheduler/clock: each run is one testing/synctest bubble; synctest.Wait() after every SelectTransactions (the only operation that spawns a goroutine) runs the sweeping goroutine to completion before state is read and before the next step",
	}
}

func (World) Assumptions(prop string) []string {
	common := []string{
		"a transaction hash determines sender, nonce, gas price and size (the harness derives the hash from them); the same hash is never offered with different content or another sender",
		"operations are issued by one driver; the only concurrent activity is the pool's own after-selection goroutine, quiesced with synctest.Wait() before state is read (interleavings of callers are not part of C25/C26)",
		"Go map iteration order cannot be seeded and txcache orders senders of one score bucket by it. The harness keeps the run independent of it: when two senders share a score bucket (read through the verif accessor) a SelectTransactions whose requested count could bind is issued with count = pooled transactions + 1 (probe select_widened_tie), and an AddTx whose pool-level eviction would cut through a group of tied senders is skipped (probe add_skipped_tie). Sender base gas prices are drawn distinct so ties are the exception (5% of the plans use one price for all senders on purpose)",
		"per-sender lists, score buckets and (for probes only) the pool's own account-nonce/failed-selection records are read through storage/txcache/verifHooks.go (build tag verif, read-only)",
	}
	switch prop {
	case "C25":
		return append(common,
			"`sender count matches the actual contents` is read as CountSenders() == number of per-sender lists held by the pool; a list left empty by per-sender eviction still counts (probe empty_sender_list), the statement does not forbid keeping it",
			"`found by hash` is evaluated over every hash ever offered in the run plus everything Keys() returns",
			"per-sender limits are the configured CountPerSenderThreshold / NumBytesPerSenderThreshold, bytes recomputed from the sizes of the listed transactions; they are demanded only right after an AddTx and only for the sender of that transaction",
			"Clear() is treated as a removal of everything (it is part of the generated histories; counts must match the empty contents afterwards)",
			"pool-level thresholds (CountThreshold, NumBytesThreshold) are not demanded: the statement only speaks of per-sender limits")
	case "C26":
		return append(common,
			"`pooled`, `first ones of its list` are evaluated against the per-sender lists read right before the call",
			"`first ones` is checked as a set (the k selected transactions of a sender are exactly the first k of its list); the order inside the result is not demanded (probe anomaly_result_order)",
			"`never skip a value`: nonces of consecutive selected transactions of one sender differ by 0 or 1; several transactions with the same nonce may all be selected (the statement speaks of skipped values, not of duplicates)",
			"`its account nonce` is the last value given to NotifyAccountNonce while the sender had a list in the pool and that list has lived on since; a notification for a sender without a list is not retained by the pool (probe notify_dropped) and puts no obligation on later selections; when an AddTx may have evicted and re-created the sender's list in one call the model treats the account nonce as unknown (no obligation)",
			fmt.Sprintf("grace period: the window [%d,%d] of consecutive failed selections is imported from the code (senderGracePeriodLowerBound/UpperBound through the verif accessor). The model counts failed selections from the selection history as an interval: when the result is full a sender that gave nothing may or may not have been visited, so its counter becomes uncertain by one; one transaction is accepted iff the interval meets the window", txcache.VerifSenderGracePeriodLowerBound, txcache.VerifSenderGracePeriodUpperBound),
			"a sender whose account nonce is unknown to the pool has no initial-gap obligation")
	}
	return common
}

func (World) Rule(prop string) string {
	gen := "20-200 steps of add/remove/select/notify/clear over 1-6 senders, nonces 0-12 (sequential runs, gaps, duplicate nonces with other hash/gas price, exact re-adds), 1-3 gas price levels, sizes 1-400 B; knobs: chunks 1-4, pool eviction on/off with CountThreshold 4-20, NumBytesThreshold 100-3000 or unbounded, NumSendersToPreemptivelyEvict 1-3, per-sender count limit 1-8, per-sender byte limit 50-1000; swarm op weights per run; everything NewTxCache accepts; "
	switch prop {
	case "C25":
		return gen + "invariants checked after every step; non-trivial = at least one AddTx made the pool drop transactions (per-sender limit or pool eviction) or a sweep removed a sender; distinct = hash of full plan"
	case "C26":
		return gen + "oracle on every SelectTransactions(n, batch) with n 0-50, batch 0-10; non-trivial = at least one selection returned a transaction while some sender had a nonce gap (initial or in the middle); distinct = hash of full plan"
	}
	return gen
}

func (World) Budget(prop, tier string) int {
	q := map[string]int{"C25": 80000, "C26": 80000}[prop]
	if tier == "thorough" {
		return q * 30
	}
	return q
}

func (World) Generate(r *simkit.Rand, prop, tier string, race bool) *simkit.Plan {
	return generate(r, prop)
}

func (World) Execute(c *simkit.Ctx) bool {
	switch c.Plan.Property {
	case "C25", "C26":
	default:
		c.HarnessErr("unknown property %s", c.Plan.Property)
		return false
	}
	nontrivial := false
	simkit.Bubble(c, func() { nontrivial = run(c) })
	return nontrivial
}
