package prunesim

import (
	"bytes"
	"fmt"
	"math/big"
	"os"
	"sort"
	"testing/synctest"
	"time"

	logger "github.com/ElrondNetwork/elrond-go-logger"
	"github.com/ElrondNetwork/elrond-go/config"
	"github.com/ElrondNetwork/elrond-go/core/queue"
	"github.com/ElrondNetwork/elrond-go/data"
	dblock "github.com/ElrondNetwork/elrond-go/data/block"
	"github.com/ElrondNetwork/elrond-go/data/state"
	procblock "github.com/ElrondNetwork/elrond-go/process/block"

	"verifsim/simkit"
	"verifsim/triekit"
)

func addr(i int) []byte {
	a := bytes.Repeat([]byte{0x33}, 32)
	a[0] = byte(i + 1)
	a[31] = byte(0x40 + i%2)
	return a
}

func storeKey(i int) []byte { return []byte{byte(0x10 + i), 0xaa, 0xbb} }

func code(k int) []byte { return bytes.Repeat([]byte{byte(0xc0 + k)}, 20+k) }

type acct struct {
	nonce   uint64
	balance int64
	code    int
	storage map[int]int64
}

type model map[int]*acct

func (m model) clone() model {
	o := model{}
	for k, a := range m {
		b := *a
		b.storage = map[int]int64{}
		for sk, sv := range a.storage {
			b.storage[sk] = sv
		}
		o[k] = &b
	}
	return o
}

type blockRec struct {
	root  []byte
	m     model
	final bool
	dead  bool
}

type pending struct {
	kind   string
	root   []byte
	m      model
	opsAt  int
	blocks int
}

type run struct {
	c           *simkit.Ctx
	bubble      bool
	disk, ewl   *simkit.SimDisk
	se          *triekit.StateEnv
	q           interface{ Add([]byte) []byte }
	qIdx        []int
	qSize       int
	blocks      []blockRec // chain; blocks[0] is genesis (empty state)
	allRoots    map[string]int
	m           model
	blockedBy   int
	restarted   bool
	faultFired  bool
	parker      *simkit.Parker
	dirty       bool // uncommitted, unreverted changes are in place (step "dirty")
	pendings    []pending
	snapDone    int
	snapStarted int
	failNext    bool
	abandoned   bool
	lastSnapIx  int
	snapDoneIx  int // block of the last COMPLETED snapshot
	mutOps      int // commits + prune calls, to tell whether something ran concurrently with a snapshot
	nAcc        int

	prunesAfterChange, rollbacks, bufferedPrunes, verifiedConcurrent int
	rollbackWhileBlocked, recreatedInBlock                           bool
	interRoots                                                       map[string]bool // intermediate roots taken as "old root" by blocks built on the empty trie
	valueQuirk                                                       bool            // such a value is also a committed root
	pendingInter                                                     string
	rewrittenThenRemoved, pendingRTR                                 bool
}

func (r *run) open(root []byte) bool {
	p := r.c.Plan
	cfg := config.TrieStorageManagerConfig{PruningBufferLen: uint32(p.Knob("buflen", 50)), SnapshotsBufferLen: uint32(p.Knob("snapbuf", 10)), MaxSnapshots: uint32(p.Knob("maxsnap", 2))}
	var gate func(op string, key []byte)
	if r.bubble {
		gate = func(op string, key []byte) { r.parker.Gate(op) }
	}
	se, err := triekit.NewStateEnvGated(r.disk, r.ewl, int(p.Knob("cache", 8)), uint(p.Knob("max_level", 5)), uint(p.Knob("ewl", 100)), cfg, uint64(p.Knob("holder", 0)), root, gate, int(p.Knob("delay", 0)))
	if err != nil {
		r.c.Violate("C09", "live-root-unreadable", "RecreateTrie", "cannot reopen the accounts DB on the head root %x: %v", root, err)
		return false
	}
	r.se = se
	r.qSize = int(p.Knob("queue", 0))
	r.q = queue.NewSliceQueue(uint(r.qSize))
	r.qIdx = nil
	return true
}

func execute(c *simkit.Ctx, bubble bool) bool {
	if lv := os.Getenv("VERIF_LOGLEVEL"); lv != "" { // debugging aid for replays: the repository's own trace log
		_ = logger.SetLogLevel(lv)
	}
	r := &run{c: c, bubble: bubble, m: model{}, allRoots: map[string]int{}, interRoots: map[string]bool{}}
	if bubble {
		r.parker = simkit.NewParker()
		// transient read error seen by one background worker during a CHECKPOINT (armed by a release step): that
		// checkpoint is abandoned by the code and not judged; every later snapshot/checkpoint must still be complete
		driver := simkit.GoID()
		triekit.FailGet = func(key []byte) error {
			if r.failNext && simkit.GoID() != driver {
				r.failNext = false
				r.abandoned = true
				c.Fault("worker_get_error")
				return simkit.ErrInjected
			}
			return nil
		}
		defer func() { triekit.FailGet = nil }()
	}
	r.disk, r.ewl = simkit.NewSimDisk("trie", c), simkit.NewSimDisk("ewl", c)
	if !r.open(nil) {
		return false
	}
	r.blocks = []blockRec{{root: nil, m: model{}, final: true}}
	for i := range c.Plan.Steps {
		for j := 0; j+2 < len(c.Plan.Steps[i].I); j += 3 {
			if a := int(c.Plan.Steps[i].I[j]) + 1; a > r.nAcc && (c.Plan.Steps[i].Op == "block" || c.Plan.Steps[i].Op == "abort") {
				r.nAcc = a
			}
		}
	}
	prop := c.Plan.Property
	for i := range c.Plan.Steps {
		c.CurStep = i
		r.step(&c.Plan.Steps[i])
		c.StepsDone++
		if bubble {
			synctest.Wait()
			if c.Plan.Knob("drain_each", 0) == 1 {
				r.drain() // forced checkpoints (tiny hashes holder) are run to completion after the step that triggered them
			}
			r.verifyPendings()
		}
		if !c.Failed(prop) && c.Harness == "" {
			r.checkLive()
		}
		if c.Failed(prop) || c.Harness != "" {
			break
		}
	}
	c.CurStep = len(c.Plan.Steps)
	r.cleanDirty()
	if bubble {
		r.drain()
		if !c.Failed(prop) && c.Harness == "" {
			r.verifyPendings()
			if len(r.pendings) > 0 {
				c.Probe("snapshot_unfinished_at_end")
			}
		}
	}
	if !c.Failed(prop) && c.Harness == "" && prop == "C09" {
		r.finalGarbageCheck()
	}
	if bubble {
		r.parker.ReleaseAll()
	}
	if bubble {
		// workers still sleep BatchDelaySeconds after they left pruning-buffering mode: let them end
		time.Sleep(time.Duration(c.Plan.Knob("delay", 0)+1) * time.Second)
		synctest.Wait()
	}
	r.se.Close()
	if bubble {
		synctest.Wait()
	}
	if prop == "C09" {
		return r.prunesAfterChange > 0 && (r.rollbacks > 0 || r.bufferedPrunes > 0)
	}
	return r.verifiedConcurrent > 0
}

func (r *run) head() *blockRec { return &r.blocks[len(r.blocks)-1] }

func (r *run) recurring() bool {
	if r.valueQuirk {
		return true
	}
	for _, n := range r.allRoots {
		if n >= 2 {
			return true
		}
	}
	return false
}

// applyMutations performs the account changes of a block on the real accounts DB and on m. It returns false
// when an operation failed (then the caller aborts the block).
func (r *run) applyMutations(st *simkit.Step, m model, bumpNonce bool) bool {
	adb := r.se.ADB
	muts := append([]int64(nil), st.I...)
	if bumpNonce {
		muts = append(muts, 7, mNonce, 0) // account 7 is a pure counter: never removed, so no state root value recurs
	}
	removedHere := map[int]bool{}
	headEmpty := len(r.head().root) == 0 || bytes.Equal(r.head().root, triekit.EmptyHash)
	interDone := false
	storedHere := map[int]bool{}
	r.pendingInter, r.pendingRTR = "", false
	for j := 0; j+2 < len(muts); j += 3 {
		ai, kind, arg := int(muts[j]), muts[j+1], muts[j+2]
		a := addr(ai)
		if kind == mRemove {
			if m[ai] == nil {
				continue
			}
			if err := adb.RemoveAccount(a); err != nil {
				r.c.Probe("remove_failed")
				return false
			}
			delete(m, ai)
			removedHere[ai] = true
			if storedHere[ai] {
				r.pendingRTR = true // storage rewritten and the account removed inside one block (counts if the block is committed)
			}
			continue
		}
		if kind == mStore {
			storedHere[ai] = true
		}
		if removedHere[ai] {
			r.recreatedInBlock = true // removed and created again inside one block
		}
		acc, err := adb.LoadAccount(a)
		if err != nil {
			return false
		}
		ua := acc.(state.UserAccountHandler)
		ma := m[ai]
		if ma == nil {
			ma = &acct{storage: map[int]int64{}}
		}
		switch kind {
		case mNonce:
			ua.IncreaseNonce(1)
			ma.nonce++
		case mBalance:
			d := arg - ma.balance
			if d >= 0 {
				_ = ua.AddToBalance(big.NewInt(d))
			} else {
				_ = ua.SubFromBalance(big.NewInt(-d))
			}
			ma.balance = arg
		case mStore:
			k, v := int(arg/8)%5, arg%8
			var val []byte
			if v != 0 {
				val = []byte(fmt.Sprintf("value-%d", v))
			}
			_ = ua.DataTrieTracker().SaveKeyValue(storeKey(k), val)
			if v == 0 {
				delete(ma.storage, k)
			} else {
				ma.storage[k] = v
			}
		case mCode:
			sel := int(arg % 3)
			if sel == 0 {
				ua.SetCode(nil)
			} else {
				ua.SetCode(code(sel))
			}
			ma.code = sel
		}
		if err := adb.SaveAccount(ua); err != nil {
			return false
		}
		m[ai] = ma
		if !interDone && headEmpty && j+3 < len(muts) {
			interDone = true
			// A block built on the EMPTY trie: patriciaMerkleTrie takes its "old root" at the first modification that finds
			// a non-nil root, i.e. the intermediate root after this first insertion, and Commit files the block's old hashes
			// under that VALUE. If the value is also a committed root (tiny states), that root's waiting-list entry is
			// overwritten: the known finding recurring-root-value with the value recurring as an intermediate state.
			if rh, err := adb.RootHash(); err == nil {
				r.pendingInter = string(rh) // counts only if this block is committed
			}
		}
	}
	return true
}

func (r *run) arm(st *simkit.Step) {
	switch st.Fault {
	case "get_error":
		r.disk.Arm("get_error", st.FaultAt)
	case "remove_error":
		r.disk.Arm("remove_error", st.FaultAt)
	case "ewl_get_error":
		// every read of the spill DB fails for the duration of the step: ShouldKeepHash visits the waiting-list
		// entries in Go map order, so "only the n-th read" would not replay
		r.ewl.ArmAll("get_error")
	}
}

func (r *run) disarm(before int) {
	r.disk.Disarm()
	r.ewl.Disarm()
	if r.c.Faults["get_error"]+r.c.Faults["remove_error"] > before {
		r.faultFired = true
	}
}

func (r *run) step(st *simkit.Step) {
	c := r.c
	adb := r.se.ADB
	tsm := r.se.TSM
	if r.dirty && st.Op != "rollback" {
		r.cleanDirty()
	}
	switch st.Op {
	case "dirty":
		// changes of a block that is being executed when the head is rolled back: applied, neither committed nor
		// reverted. Only a rollback may follow (RecreateTrie of the parent drops them); anything else aborts them first.
		m := r.m.clone()
		r.applyMutations(st, m, false)
		r.dirty = true
		c.Eventf("%d uncommitted changes left in place", c.CurStep)
	case "stalesnapshot":
		// a late snapshot request for a root that was pruned meanwhile: it is refused (the root cannot be loaded) and
		// must leave no trace that later snapshots or checkpoints could trip over
		if !r.bubble || len(r.pendings) > 0 || int(adb.GetNumCheckpoints()) < r.snapStarted {
			return
		}
		// Only roots older than the last completed snapshot: TakeSnapshot starts with checkpointHashesHolder.RemoveCommitted(root),
		// which for a root committed AFTER the last snapshot drops the holder's entries up to that root although the snapshot is then
		// refused; on the unchanged tree the next checkpoint is incomplete after that (DESIGN.md 11.6; not how the node requests snapshots).
		var cand []int
		for i := 1; i < len(r.blocks)-1 && i < r.snapDoneIx; i++ {
			if _, onDisk := r.disk.RawGet(r.blocks[i].root); r.blocks[i].dead && !onDisk && len(r.blocks[i].root) > 0 && r.allRoots[string(r.blocks[i].root)] == 1 {
				cand = append(cand, i)
			}
		}
		if len(cand) == 0 {
			return
		}
		i := cand[int(st.Int(0, 0))%len(cand)]
		r.snapStarted++
		adb.SnapshotState(r.blocks[i].root)
		r.pendings = append(r.pendings, pending{kind: "stale", root: r.blocks[i].root, opsAt: r.mutOps, blocks: i})
		c.Eventf("%d snapshot of the pruned root %x (block #%d) requested", c.CurStep, r.blocks[i].root, i)
	case "block", "abort":
		m := r.m.clone()
		ok := r.applyMutations(st, m, st.Op == "block" && c.Plan.Knob("monotone", 0) == 1)
		if !ok || st.Op == "abort" {
			if err := adb.RevertToSnapshot(0); err != nil {
				c.Violate("C09", "live-root-unreadable", "RevertToSnapshot(0)", "aborting a block: the head root %x cannot be recreated: %v", r.head().root, err)
				return
			}
			c.Eventf("%d %s aborted (ok=%v)", c.CurStep, st.Op, ok)
			return
		}
		rh, err := adb.Commit()
		if err != nil {
			c.HarnessErr("Commit failed: %v", err)
			return
		}
		r.mutOps++
		r.m = m
		if !bytes.Equal(rh, r.head().root) { // an unchanged state is not a recurrence of a root value
			r.allRoots[string(rh)]++
		}
		if r.pendingRTR {
			r.rewrittenThenRemoved = true
		}
		if r.pendingInter != "" {
			r.interRoots[r.pendingInter] = true
			if r.allRoots[r.pendingInter] > 0 && r.pendingInter != string(rh) {
				r.valueQuirk = true
			}
		}
		if r.interRoots[string(rh)] && r.pendingInter != string(rh) {
			r.valueQuirk = true
		}
		r.blocks = append(r.blocks, blockRec{root: rh, m: m.clone()})
		c.Eventf("%d block #%d root %x", c.CurStep, len(r.blocks)-1, rh)
		c.FPBytes(rh)
	case "emptyblock":
		// a block without any state change: the node still calls Commit
		if len(r.head().root) == 0 {
			return // nothing committed yet
		}
		rh, err := adb.Commit()
		if err != nil {
			c.HarnessErr("Commit failed: %v", err)
			return
		}
		if !bytes.Equal(rh, r.head().root) {
			c.HarnessErr("an empty block changed the root: %x -> %x", r.head().root, rh)
			return
		}
		r.mutOps++
		r.blocks = append(r.blocks, blockRec{root: rh, m: r.m.clone()})
		c.Eventf("%d empty block #%d root %x", c.CurStep, len(r.blocks)-1, rh)
		c.Probe("empty_block")
	case "finalize":
		idx := -1
		for i := 1; i < len(r.blocks)-1; i++ {
			if !r.blocks[i].final {
				idx = i
				break
			}
		}
		if idx < 0 {
			return
		}
		r.finalize(idx, st)
	case "rollback":
		h := len(r.blocks) - 1
		if h < 1 || r.blocks[h].final {
			r.cleanDirty()
			return
		}
		if r.dirty {
			r.dirty = false
			c.Probe("rollback_with_uncommitted_changes")
		}
		cur, prev := r.blocks[h].root, r.blocks[h-1].root
		before := c.Faults["get_error"] + c.Faults["remove_error"]
		if err := adb.RecreateTrie(prev); err != nil {
			c.Violate("C09", r.kind(), "RecreateTrie", "rollback of block #%d: the previous block's root %x (never pruned, not rolled back) cannot be recreated: %v", h, prev, err)
			return
		}
		r.arm(st)
		procblock.VerifPruneStateOnRollback(adb, &dblock.Header{Nonce: uint64(h), RootHash: cur}, &dblock.Header{Nonce: uint64(h - 1), RootHash: prev})
		if !bytes.Equal(cur, prev) {
			r.mutOps++
			if tsm.IsPruningBlocked() {
				r.bufferedPrunes++
				r.rollbackWhileBlocked = true
			}
		}
		r.disarm(before)
		r.blocks = r.blocks[:h]
		r.m = r.head().m.clone()
		r.rollbacks++
		c.Eventf("%d rollback of block #%d (%x -> %x)", c.CurStep, h, cur, prev)
		c.Probe("rollback")
	case "blockpr":
		tsm.EnterPruningBufferingMode()
		r.blockedBy++
		c.Eventf("%d pruning blocked (%d)", c.CurStep, r.blockedBy)
	case "unblockpr":
		if r.blockedBy > 0 {
			tsm.ExitPruningBufferingMode()
			r.blockedBy--
			c.Eventf("%d pruning unblocked (%d)", c.CurStep, r.blockedBy)
		}
	case "restart":
		if r.bubble {
			return
		}
		_ = adb.RevertToSnapshot(0)
		r.se.Close()
		c.Fault("close_reopen")
		r.restarted = true
		r.blockedBy = 0
		c.Eventf("%d restart on %x", c.CurStep, r.head().root)
		// the pruning queue and the waiting list's in-memory bookkeeping are gone: the node restarts on a final
		// block, and only that root (and what is committed from now on) is promised to stay retrievable
		for i := range r.blocks {
			r.blocks[i].final = true
			if i < len(r.blocks)-1 {
				r.blocks[i].dead = true
			}
		}
		r.open(r.head().root)
	case "snapshot", "checkpoint":
		if !r.bubble {
			return
		}
		if st.Op == "checkpoint" && r.snapDone == 0 {
			return
		}
		if len(r.pendings) > 0 || int(adb.GetNumCheckpoints()) < r.snapStarted {
			// one snapshot/checkpoint at a time (the property quantifies over commits and prunes running next to ONE
			// snapshot), and the previous worker must have ended (it still sleeps and writes its counter afterwards)
			return
		}
		// candidates: final, live, not older than the last snapshot/checkpoint
		var cand []int
		for i := 1; i < len(r.blocks); i++ {
			if r.blocks[i].final && !r.blocks[i].dead && i >= r.lastSnapIx && len(r.blocks[i].root) > 0 && !bytes.Equal(r.blocks[i].root, triekit.EmptyHash) {
				cand = append(cand, i)
			}
		}
		if len(cand) == 0 {
			return
		}
		i := cand[int(st.Int(0, 0))%len(cand)]
		r.lastSnapIx = i
		r.snapStarted++
		b := r.blocks[i]
		if st.Op == "snapshot" {
			adb.SnapshotState(b.root)
		} else {
			adb.SetStateCheckpoint(b.root)
		}
		r.pendings = append(r.pendings, pending{kind: st.Op, root: b.root, m: b.m.clone(), opsAt: r.mutOps, blocks: i})
		c.Eventf("%d %s of block #%d root %x requested", c.CurStep, st.Op, i, b.root)
	case "release":
		if !r.bubble {
			return
		}
		w := r.parker.Waiting()
		if len(w) == 0 {
			return
		}
		k := int(st.Int(0, 0)) % len(w)
		if st.Fault == "get_error" && len(r.pendings) > 0 && r.pendings[0].kind == "checkpoint" {
			r.failNext = true
		}
		lbl := ""
		for _, x := range w {
			lbl += x.Label + " "
		}
		c.Eventf("%d release %d/%d (%s) all=[%s]", c.CurStep, k, len(w), w[k].Label, lbl)
		r.parker.Release(k)
	case "tick":
		if !r.bubble {
			return
		}
		time.Sleep(time.Second)
		c.SimNanos += int64(time.Second)
	}
}

// cleanDirty aborts uncommitted changes left by a "dirty" step that was not followed by a rollback.
func (r *run) cleanDirty() {
	if !r.dirty {
		return
	}
	r.dirty = false
	if err := r.se.ADB.RevertToSnapshot(0); err != nil {
		r.c.Violate("C09", "live-root-unreadable", "RevertToSnapshot(0)", "aborting a block: the head root %x cannot be recreated: %v", r.head().root, err)
	}
}

func (r *run) kind() string {
	if r.recurring() {
		return "recurring-root-value"
	}
	return "live-root-unreadable"
}

// finalize mirrors baseProcessor.updateStateStorage for block idx.
func (r *run) finalize(idx int, st *simkit.Step) {
	c := r.c
	adb := r.se.ADB
	r.blocks[idx].final = true
	root, prev := r.blocks[idx].root, r.blocks[idx-1].root
	// the REAL baseProcessor.updateStateStorage decides what is queued, cancelled and pruned (through the verif hook);
	// the lines below only keep the model's books: which block the protocol prunes at this point
	before := c.Faults["get_error"] + c.Faults["remove_error"]
	r.arm(st)
	hdr := &dblock.Header{Nonce: uint64(idx), RootHash: root}
	procblock.VerifUpdateStateStorage(0, hdr, root, prev, adb, r.q)
	r.disarm(before)
	if bytes.Equal(root, prev) {
		c.Eventf("%d finalize #%d: state unchanged", c.CurStep, idx)
		return
	}
	// which block's root does the protocol prune now (FIFO of the configured size, by position)
	pruneIdx := -1
	if r.qSize == 0 {
		pruneIdx = idx - 1
	} else {
		r.qIdx = append(r.qIdx, idx-1)
		if len(r.qIdx) > r.qSize {
			pruneIdx = r.qIdx[0]
			r.qIdx = r.qIdx[1:]
		}
	}
	if pruneIdx < 0 {
		c.Eventf("%d finalize #%d: root %x queued", c.CurStep, idx, prev)
		return
	}
	r.mutOps++
	r.prunesAfterChange++
	if r.se.TSM.IsPruningBlocked() {
		r.bufferedPrunes++
		c.Probe("prune_buffered")
	}
	for i := 0; i <= pruneIdx && i < len(r.blocks); i++ {
		r.blocks[i].dead = true
	}
	c.Eventf("%d finalize #%d: prune root %x of block #%d", c.CurStep, idx, r.blocks[pruneIdx].root, pruneIdx)
}

func sortedInts(m map[int]*acct) []int {
	ks := make([]int, 0, len(m))
	for k := range m {
		ks = append(ks, k)
	}
	sort.Ints(ks)
	return ks
}

// walkState walks the main trie of root and the data trie of every account in m; returns the set of nodes.
func (r *run) walkState(db triekit.RawDB, root []byte, m model) (map[string]bool, error) {
	res, err := triekit.Walk(db, root)
	if err != nil {
		return nil, fmt.Errorf("main trie: %w", err)
	}
	nodes := res.Nodes
	for _, ai := range sortedInts(m) {
		raw, ok := res.Leaves[string(addr(ai))]
		if !ok {
			return nil, fmt.Errorf("account %d has no leaf in the main trie", ai)
		}
		ua := state.NewEmptyUserAccount()
		if err := triekit.Marshalizer.Unmarshal(ua, raw); err != nil {
			return nil, fmt.Errorf("account %d does not decode: %v", ai, err)
		}
		if ua.GetNonce() != m[ai].nonce || ua.GetBalance().Cmp(big.NewInt(m[ai].balance)) != 0 {
			return nil, fmt.Errorf("account %d holds nonce %d balance %s, block state has nonce %d balance %d", ai, ua.GetNonce(), ua.GetBalance(), m[ai].nonce, m[ai].balance)
		}
		if len(ua.GetRootHash()) == 0 {
			if len(m[ai].storage) > 0 {
				return nil, fmt.Errorf("account %d has no data trie but %d storage keys in the block state", ai, len(m[ai].storage))
			}
			continue
		}
		dres, err := triekit.Walk(db, ua.GetRootHash())
		if err != nil {
			return nil, fmt.Errorf("data trie of account %d: %w", ai, err)
		}
		if len(dres.Leaves) != len(m[ai].storage) {
			return nil, fmt.Errorf("data trie of account %d has %d leaves, block state has %d keys", ai, len(dres.Leaves), len(m[ai].storage))
		}
		for n := range dres.Nodes {
			nodes[n] = true
		}
	}
	return nodes, nil
}

// checkLive is the C09 oracle: every live root is fully retrievable from the trie disk.
func (r *run) checkLive() {
	for i := len(r.blocks) - 1; i >= 0; i-- {
		b := &r.blocks[i]
		if b.dead || len(b.root) == 0 {
			continue
		}
		if _, err := r.walkState(r.disk, b.root, b.m); err != nil {
			what := "non-final"
			if b.final {
				what = "final, prune not issued"
			}
			if i == len(r.blocks)-1 {
				what = "current head"
			}
			site := "trie disk"
			if r.rollbackWhileBlocked {
				// a rollback issued while pruning was blocked leaves a buffered cancel for the parent root; when a new
				// block is committed on that parent, the late cancel evicts the NEW block's old-hashes entry
				site = "after-rollback-while-pruning-blocked"
			} else if r.recreatedInBlock {
				// an account removed and created again inside one block with the same storage: the block's new hashes list data-trie
				// nodes that existed before the block; rolling that block back deletes them although the parent still needs them
				site = "after-account-removed-and-recreated-in-one-block"
			} else if r.rewrittenThenRemoved {
				// storage of an account rewritten (a node obsoleted and created again) and the account removed inside one block:
				// the node is in the old AND new hashes of that commit, MarkForEviction's duplicate filter drops it from both, so it
				// is never listed as obsolete; a later block that creates it again and is rolled back deletes it under older live roots
				site = "after-account-storage-rewritten-and-account-removed-in-one-block"
			}
			r.c.Violate("C09", r.kind(), site, "root %x of block #%d (%s) is not retrievable after step %d %s: %v", b.root, i, what, r.c.CurStep, stepName(r.c), err)
			return
		}
	}
}

func stepName(c *simkit.Ctx) string {
	if c.CurStep < len(c.Plan.Steps) {
		return c.Plan.Steps[c.CurStep].Op
	}
	return "end"
}

// finalGarbageCheck: second sentence of C09, in runs where it can be decided.
func (r *run) finalGarbageCheck() {
	if r.bubble || r.restarted || r.faultFired || r.c.Plan.Arm != "monotone" || r.c.Plan.Knob("buflen", 0) < 1000 {
		return // restarts, faults and an overflowing pruning buffer legitimately leave garbage behind
	}
	for r.blockedBy > 0 {
		r.se.TSM.ExitPruningBufferingMode()
		r.blockedBy--
	}
	noFault := &simkit.Step{}
	for i := 1; i < len(r.blocks)-1; i++ {
		if !r.blocks[i].final {
			r.finalize(i, noFault)
		}
	}
	// a last prune call drains the pruning buffer: finalize needs a successor, so commit two more blocks
	for k := 0; k < 2; k++ {
		m := r.m.clone()
		if !r.applyMutations(&simkit.Step{}, m, true) {
			return
		}
		rh, err := r.se.ADB.Commit()
		if err != nil {
			return
		}
		r.m = m
		r.blocks = append(r.blocks, blockRec{root: rh, m: m.clone()})
		if i := len(r.blocks) - 2; i >= 1 && !r.blocks[i].final {
			r.finalize(i, noFault)
		}
	}
	r.checkLive()
	if r.c.Failed("C09") {
		return
	}
	live := map[string]bool{}
	for i := range r.blocks {
		if r.blocks[i].dead || len(r.blocks[i].root) == 0 {
			continue
		}
		nodes, err := r.walkState(r.disk, r.blocks[i].root, r.blocks[i].m)
		if err != nil {
			return
		}
		for n := range nodes {
			live[n] = true
		}
	}
	garbage := 0
	example := ""
	for _, k := range r.disk.Keys() {
		if len(k) != 32 || live[k] {
			continue
		}
		garbage++
		if example == "" {
			raw, _ := r.disk.RawGet([]byte(k))
			example = fmt.Sprintf("%x = %s", k, triekit.DescribeNode(raw))
		}
	}
	if garbage > 0 {
		r.c.Probe("garbage_nodes_runs")
		r.c.Violate("C09", "pruned-nodes-not-removed", garbageSite(r), "%d node(s) on the trie disk belong to no live root although every dead root was pruned with pruning unblocked and the buffer drained (e.g. %s); %d blocks, queue size %d", garbage, example, len(r.blocks), r.qSize)
	} else {
		r.c.Probe("garbage_free_runs")
	}
}

type snapRaw struct{ db data.DBWriteCacher }

func (s snapRaw) RawGet(key []byte) ([]byte, bool) {
	v, err := s.db.Get(key)
	return v, err == nil && len(v) > 0
}

// verifyPendings is the C10 oracle, applied when no worker is active.
func (r *run) verifyPendings() {
	if len(r.pendings) == 0 || r.se.TSM.IsPruningBlocked() || len(r.parker.Waiting()) > 0 {
		return
	}
	r.failNext = false
	if r.abandoned {
		r.abandoned = false
		r.pendings = nil
		r.c.Probe("checkpoint_abandoned_after_read_error")
		return
	}
	for _, p := range r.pendings {
		if p.kind == "stale" {
			r.c.Probe("stale_snapshot_request_ended")
			continue
		}
		if r.c.Failed("C09") {
			// C10 speaks about a state root that exists: when a C09 defect (known finding rollback-while-pruning-blocked:
			// snapshots block pruning) has already deleted nodes of this very root from the main storage, no snapshot of it
			// can be complete. Narrow: a C09 violation was recorded in this run AND the root is unreadable on the main disk.
			if _, err := r.walkState(r.disk, p.root, p.m); err != nil {
				r.c.Probe("not_judged_source_root_destroyed_by_C09_defect")
				continue
			}
		}
		db := r.se.TSM.GetSnapshotThatContainsHash(p.root)
		if db == nil {
			r.c.Violate("C10", p.kind+"-missing", "GetSnapshotThatContainsHash", "%s of root %x (block #%d) finished but no snapshot DB contains the root", p.kind, p.root, p.blocks)
			return
		}
		_, err := r.walkState(snapRaw{db}, p.root, p.m)
		db.DecreaseNumReferences()
		if err != nil {
			r.c.Violate("C10", p.kind+"-incomplete", "snapshot DB", "%s of root %x (block #%d) finished but the state cannot be recreated from the snapshot DB alone: %v", p.kind, p.root, p.blocks, err)
			return
		}
		r.c.Probe(p.kind + "_verified")
		if p.kind == "snapshot" {
			r.snapDone++
			r.snapDoneIx = p.blocks
		}
		if r.mutOps > p.opsAt {
			r.verifiedConcurrent++
			r.c.Probe("verified_with_concurrent_commit_or_prune")
		}
	}
	r.pendings = nil
}

// drain lets every background worker finish.
func (r *run) drain() {
	for i := 0; i < 100000; i++ {
		synctest.Wait()
		if w := r.parker.Waiting(); len(w) > 0 {
			r.parker.Release(0)
			continue
		}
		if r.se.TSM.IsPruningBlocked() && (len(r.pendings) > 0 || r.blockedBy == 0) {
			time.Sleep(time.Second)
			r.c.SimNanos += int64(time.Second)
			if i > 1000 {
				r.c.HarnessErr("background snapshot work does not finish")
				return
			}
			continue
		}
		return
	}
	r.c.HarnessErr("drain did not terminate")
}

// garbageSite names the scenario class of left-over nodes: a rollback issued while pruning was blocked is
// answered by the pruning manager with a plain cancel (the new root's nodes are never removed).
func garbageSite(r *run) string {
	if r.rollbackWhileBlocked {
		return "rollback-while-pruning-blocked"
	}
	if r.recreatedInBlock {
		// the held data trie of the address is replaced by the new incarnation's trie: the obsolete hashes the first
		// one had collected in this block never reach the waiting list
		return "account-removed-and-recreated-in-one-block"
	}
	return "trie-disk"
}
