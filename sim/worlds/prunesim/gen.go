package prunesim

import (
	"verifsim/simkit"
)

// mutations are triples (account, kind, arg) in Step.I.
const (
	mNonce   = 0
	mBalance = 1
	mStore   = 2
	mRemove  = 3
	mCode    = 4
)

// nodeRecur makes single trie NODES recur (an account's storage flips between few values, A -> B -> A) while the state
// root keeps changing through the counter account: the shared-hash protection of the waiting list is what is at stake
var nodeRecur bool

func genMutations(r *simkit.Rand, nAcc int, recurring bool) []int64 {
	var out []int64
	for i, n := 0, r.Range(1, 3); i < n; i++ {
		acc := int64(r.Intn(nAcc))
		kind := int64(r.Weighted([]int{3, 3, 6, 1, 1}))
		arg := int64(r.Intn(64))
		if nodeRecur && !recurring {
			acc = int64(r.Intn(2))
			kind = int64(r.Weighted([]int{1, 2, 8, 0, 0}))
			arg = int64(r.Intn(2)*8 + r.Range(1, 2)) // storage key 0/1, value 1/2; balance one of four values
		}
		if recurring {
			arg = int64(r.Intn(4)) // tiny value sets: states recur
			if kind == mNonce {
				kind = mBalance
			}
		}
		out = append(out, acc, kind, arg)
	}
	return out
}

const workerReadErrorArm = false

func generate(r *simkit.Rand, prop, tier string) *simkit.Plan {
	p := &simkit.Plan{Knobs: map[string]int64{}}
	nodeRecur = false
	nAcc := r.Range(2, 4)
	p.Knobs["max_level"] = int64(r.Range(1, 8))
	p.Knobs["cache"] = int64([]int{1, 2, 8, 64}[r.Intn(4)])
	p.Knobs["ewl"] = int64([]int{1, 2, 3, 10, 100}[r.Intn(5)])
	p.Knobs["buflen"] = int64([]int{1, 2, 5, 1000, 1000}[r.Intn(5)])
	p.Knobs["queue"] = int64(r.Intn(6))
	recurring := false
	faulty := false
	workerFaults := false
	if prop == "C09" {
		switch r.Intn(10) {
		case 0, 1, 2:
			recurring = true
			p.Arm = "recurring"
		case 3, 4:
			faulty = true
			p.Arm = "monotone+faults"
			p.Faults = []string{"get_error", "remove_error"}
		default:
			p.Arm = "monotone"
		}
	} else {
		p.Arm = "snapshots"
		// A "worker read error" arm exists in the executor (a release step with fault get_error fails the next main-DB
		// read of a checkpoint worker) but is not generated: the property does not quantify over I/O faults, and on the
		// unchanged tree a transient read error inside a DATA-TRIE checkpoint leaves that checkpoint and every later
		// snapshot/checkpoint of an unchanged account incomplete (the root is present, so later requests are skipped or
		// never revisit the leaf). See DESIGN.md 11.4.
		if workerReadErrorArm && r.Chance(0.3) {
			p.Arm = "snapshots+worker-read-errors"
			p.Faults = []string{"worker_get_error"}
			workerFaults = true
		}
		p.Knobs["snapbuf"] = int64([]int{1, 2, 10}[r.Intn(3)])
		p.Knobs["maxsnap"] = int64(r.Range(1, 3))
		p.Knobs["delay"] = int64(r.Intn(3))
	}
	if !recurring {
		p.Knobs["monotone"] = 1
	}
	ops := []string{"block", "abort", "finalize", "rollback", "blockpr", "unblockpr", "restart", "snapshot", "checkpoint", "release", "tick", "emptyblock", "stalesnapshot"}
	w := []int{r.Range(6, 12), r.Range(0, 2), r.Range(3, 9), r.Range(0, 3), r.Range(0, 2), r.Range(0, 2), r.Range(0, 1), 0, 0, 0, 0, r.Range(0, 2), 0}
	withWorkers := prop == "C10"
	if prop == "C09" && p.Arm == "monotone" && r.Chance(0.3) {
		// C09 next to real snapshot / checkpoint workers (they block pruning and share the hashes holder with commits)
		p.Arm = "monotone+snapshots"
		nodeRecur = r.Chance(0.5)
		p.Knobs["bubble"] = 1
		p.Knobs["snapbuf"] = int64([]int{1, 2, 10}[r.Intn(3)])
		p.Knobs["maxsnap"] = int64(r.Range(1, 3))
		p.Knobs["delay"] = int64(r.Intn(2))
		w[4], w[5], w[6] = 0, 0, 0
		w[7], w[8], w[9], w[10] = r.Range(1, 3), r.Range(1, 3), r.Range(4, 12), r.Range(1, 2)
		withWorkers = true
	} else if prop == "C09" && p.Arm == "monotone" && r.Chance(0.35) {
		// a tiny checkpoint-hashes holder: AccountsDB.Commit forces a state checkpoint of the new root whenever the
		// holder is full; each forced checkpoint is run to completion right after the commit
		p.Arm = "monotone+forced-checkpoints"
		nodeRecur = r.Chance(0.9)
		if r.Chance(0.8) {
			p.Knobs["queue"] = 0
		}
		p.Knobs["bubble"], p.Knobs["drain_each"] = 1, 1
		p.Knobs["holder"] = int64([]int{40, 100, 300, 1000, 3000}[r.Intn(5)])
		p.Knobs["snapbuf"], p.Knobs["maxsnap"], p.Knobs["delay"] = 10, int64(r.Range(1, 3)), 0
		w[4], w[5], w[6] = 0, 0, 0
	}
	if prop == "C09" && p.Arm == "monotone" && r.Chance(0.3) {
		nodeRecur = true
	}
	n := r.Range(8, 60)
	if tier == "thorough" && r.Chance(0.3) {
		n = r.Range(60, 160) // thorough tier: a third of the runs are long (up to ~100 blocks)
	}
	if prop == "C10" {
		w[4], w[5], w[6] = 0, 0, 0
		w[7], w[8], w[9], w[10] = r.Range(1, 3), r.Range(1, 3), r.Range(4, 14), r.Range(1, 3)
		n = r.Range(15, 70)
	}
	if withWorkers && r.Chance(0.4) {
		w[12] = 1 // late snapshot requests for roots that were pruned meanwhile
	}
	if faulty && r.Chance(0.6) {
		// node-level recurrence next to faults: a hash in the pending old hashes of one root is re-created by a later root
		// whose waiting-list entry was spilled to the persister (tiny cache) and cannot be read
		nodeRecur = true
		p.Knobs["ewl"] = int64(r.Range(1, 3))
	}
	dirtyRollbacks := prop == "C09" && r.Chance(0.3)
	for i := 0; i < n; i++ {
		st := simkit.Step{Op: ops[r.Weighted(w)]}
		switch st.Op {
		case "block", "abort":
			st.I = genMutations(r, nAcc, recurring)
		case "snapshot", "checkpoint", "release", "stalesnapshot":
			st.I = []int64{int64(r.Intn(1000))}
		case "rollback":
			if dirtyRollbacks && r.Chance(0.6) {
				// the head is rolled back while the next block is being executed: its changes are neither committed nor reverted
				d := simkit.Step{Op: "dirty", I: genMutations(r, nAcc, recurring)}
				if r.Chance(0.6) {
					d.I[0], d.I[1] = int64(r.Intn(nAcc)), mRemove
				}
				p.Steps = append(p.Steps, d)
			}
		}
		if faulty && (st.Op == "finalize" || st.Op == "rollback") && r.Chance(0.25) {
			st.Fault = []string{"get_error", "remove_error", "ewl_get_error"}[r.Intn(3)]
			st.FaultAt = r.Intn(5)
		}
		if withWorkers && (st.Op == "snapshot" || st.Op == "checkpoint") && r.Chance(0.5) {
			// burst: while the workers are parked, commit and finalize (prune) right away, releasing them in between
			p.Steps = append(p.Steps, st)
			for k, m := 0, r.Range(2, 5); k < m; k++ {
				p.Steps = append(p.Steps, simkit.Step{Op: "block", I: genMutations(r, nAcc, recurring)})
				if r.Chance(0.6) {
					p.Steps = append(p.Steps, simkit.Step{Op: "release", I: []int64{int64(r.Intn(1000))}})
				}
				p.Steps = append(p.Steps, simkit.Step{Op: "finalize"})
				if r.Chance(0.6) {
					p.Steps = append(p.Steps, simkit.Step{Op: "release", I: []int64{int64(r.Intn(1000))}})
				}
			}
			continue
		}
		if workerFaults && st.Op == "release" && r.Chance(0.08) {
			st.Fault = "get_error" // the released worker's next main-DB read fails (only armed during a checkpoint)
		}
		p.Steps = append(p.Steps, st)
	}
	return p
}
