// Package prunesim is world W4: state pruning (C09) and snapshots / checkpoints (C10) of the accounts
// database over a simulated disk, with the block processor's finalize / rollback protocol played by the driver.
package prunesim

import (
	"verifsim/simkit"
)

// World implements simkit.World.
type World struct{}

func (World) Name() string         { return "prunesim" }
func (World) Properties() []string { return []string{"C09", "C10"} }

func (World) Real(prop string) []string {
	r := []string{"data/state.AccountsDB (Commit/markForEviction, PruneTrie, CancelPrune, RecreateTrie, RevertToSnapshot)",
		"data/state/storagePruningManager (prune, cancel, buffered pruning) + pruningBuffer", "evictionWaitingList (cache + spill DB)",
		"data/trie.patriciaMerkleTrie, trieStorageManager (pruning-blocked counter, Remove)", "core/queue.sliceQueue (state pruning queue)", "process/block.baseProcessor.updateStateStorage and PruneStateOnRollback (via verif hook)",
		"storage/storageUnit.Unit + lrucache", "marshal.GogoProtoMarshalizer, hashing/blake2b"}
	if prop == "C10" {
		r = append(r, "AccountsDB.SnapshotState / SetStateCheckpoint and their goroutines", "trieStorageManager.storageProcessLoop, takeSnapshot, commitSnapshot/commitCheckpoint of the node types",
			"data/trie/hashesHolder.checkpointHashesHolder", "snapshot DBs: repository memorydb through the storage factory")
	}
	return r
}

func (World) Stub(prop string) []string {
	s := []string{"disk: simkit.SimDisk for the trie DB and for the waiting list's spill DB (read/remove error injection, survives restarts)",
		"block processor: the real baseProcessor.updateStateStorage and PruneStateOnRollback are called through the verif hook on an otherwise empty processor (the model only keeps the books of which block the protocol prunes); RevertStateToBlock is mirrored (RecreateTrie of the previous root); header sequence, finality and rollback decisions come from the plan",
		"restart: AccountsDB stack rebuilt over the same disks on the head root; the pruning queue and the waiting list's in-memory part are lost"}
	if prop == "C10" {
		s = append(s, "scheduler: snapshot / checkpoint goroutines are real but parked at every main-DB access (gate in front of the storage unit, no lock held) and released one access at a time by plan steps; testing/synctest is the quiescence barrier and the clock (BatchDelaySeconds sleep)")
	}
	return s
}

func (World) Assumptions(prop string) []string {
	a := []string{"a restart happens on a final block: afterwards only the head root and later commits are promised to stay retrievable (the pruning queue and the in-memory part of the waiting list are lost)", "state history is linear: issuing the prune of block k's root (OldRoot) ends the life of every root up to k; a rolled-back head's root is dead; every other committed root and the current root are live",
		"a live root is 'retrievable' iff an independent walker over the raw trie disk reaches every node of its main trie and of every data trie referenced by an account leaf, each stored under the hash of its own bytes, and the leaves equal the model of that block",
		"no write faults, torn writes or dirty crashes; read/remove errors only during finalize/rollback steps (pruning may do less, never more); an error of the waiting list's spill DB fails every read of that step (ShouldKeepHash visits entries in Go map order: a single failing read would not replay)",
		"a rollback may find uncommitted, unreverted changes of the block being executed in place (step dirty): RecreateTrie of the parent drops them"}
	if prop == "C09" {
		a = append(a, "garbage clause (nodes of pruned roots are removed once pruning is unblocked) is checked only at the end of runs without restart, without faults and with a pruning buffer that cannot overflow, after all pending finalizations were issued with pruning unblocked",
			"known finding recurring-root-value: the waiting list is keyed by root VALUE; a violation is attributed to it only in a history where some root value was committed at least twice")
	} else {
		a = append(a, "snapshots and checkpoints are requested for roots of FINAL blocks in chain order, a checkpoint only after a completed snapshot, no restart in between (the way the node uses them); snapshot DBs are in-memory, so a restart would lose them",
			"a snapshot is verified when it completed (pruning unblocked, workers idle), before a later snapshot can rotate it out",
			"late snapshot requests for pruned roots (step stalesnapshot) only for roots older than the last completed snapshot: TakeSnapshot starts with RemoveCommitted(root), which for a newer root empties the checkpoint hashes holder although the request is then refused (DESIGN.md 11.6)",
			"a snapshot/checkpoint is not judged when a C09 violation was recorded in the run AND its root is unreadable on the main disk at verification time (the C09 known finding rollback-while-pruning-blocked destroys live roots exactly in histories where a snapshot blocks pruning)")
	}
	return a
}

func (World) Rule(prop string) string {
	if prop == "C09" {
		return "(thorough tier: a third of the runs have 60-160 steps, up to ~100 blocks) 5-40 blocks over 2-4 accounts with data tries created/modified/removed: block (mutations+Commit) / abort (mutations+RevertToSnapshot(0)) / finalize (real slice queue 0-5) / rollback of the non-final head / block-unblock pruning / restart; knobs: waiting-list cache 1-100, pruning buffer 1-1000, maxTrieLevelInMemory, cache; empty blocks (Commit without change); arms: monotone (every block bumps the nonce of a counter account: root values never recur), monotone+snapshots (real snapshot/checkpoint workers next to the history, in a synctest bubble), monotone+faults and recurring (tiny value sets); non-trivial = at least one prune was issued after a state change and one rollback or buffered prune happened; distinct = hash of full plan"
	}
	return "C09 histories (<=25 blocks) plus SnapshotState / SetStateCheckpoint of final roots; background goroutines parked at every main-DB access and advanced by release steps while the driver keeps committing, finalizing (pruning) and rolling back; non-trivial = a snapshot or checkpoint completed and was verified while >=1 commit or prune call happened between its start and its end; distinct = hash of full plan"
}

func (World) Budget(prop, tier string) int {
	q := map[string]int{"C09": 6000, "C10": 3000}[prop]
	if tier == "thorough" {
		return q * 30
	}
	return q
}

func (World) Generate(r *simkit.Rand, prop, tier string, race bool) *simkit.Plan {
	return generate(r, prop, tier)
}

func (World) Execute(c *simkit.Ctx) bool {
	if c.Plan.Property == "C10" || c.Plan.Knob("bubble", 0) == 1 {
		nt := false
		simkit.Bubble(c, func() { nt = execute(c, true) })
		return nt
	}
	return execute(c, false)
}
