package scsim

import (
	"bytes"
	"math/big"

	"github.com/ElrondNetwork/elrond-go/vm"
	"github.com/ElrondNetwork/elrond-go/vm/systemSmartContracts"

	"verifsim/simkit"
)

// C38 run ("deleg"): one delegation contract created through the real delegation manager; T is the user
// (0 = owner). Amount modes of delegate / undelegate: I[0]=0 literal I[1]; 1 = whole active stake;
// 2 = active - (minDelegation-1) (would leave dust); 3 = active - minDelegation (leaves exactly the minimum).

const ampleGas = uint64(1) << 40

func genDeleg(r *simkit.Rand, prop string) *simkit.Plan {
	p := &simkit.Plan{Knobs: map[string]int64{"run": runDeleg}, Arm: "deleg"}
	genCommonKnobs(r, p)
	k := p.Knobs
	if r.Chance(0.7) { // most runs: contracts usable from epoch 0 and top-up functions available soon
		k["ep_mgr"], k["ep_deleg"] = 0, 0
	}
	nUsers := r.Range(2, 4)
	k["users"] = int64(nUsers)
	m, price, dep := k["min_delegation"], k["node_price"], k["min_deposit"]
	nKeys := r.Range(1, 4)
	gasFaults := r.Chance(0.25)
	if gasFaults {
		p.Arm = "deleg-gas"
		p.Faults = []string{"out_of_gas"}
	}
	add := func(st simkit.Step) {
		if gasFaults && r.Chance(0.1) {
			st.Fault, st.FaultAt = "out_of_gas", r.Range(0, 14)
		}
		p.Steps = append(p.Steps, st)
	}
	if k["ep_mgr"] > 0 || k["ep_deleg"] > 0 {
		p.Steps = append(p.Steps, simkit.Step{Op: "epoch", T: -1, I: []int64{1}})
	}
	longIdle := r.Chance(0.3) // some runs contain long idle stretches (tens of rewarded epochs without user activity)
	restarts := r.Chance(0.3) // some runs restart the node with another unbond period
	cap := int64(0)
	if r.Chance(0.4) {
		cap = dep + price*int64(r.Range(1, 4)) + int64(r.Range(0, 40))
	}
	fees := []int64{0, 1, k["max_fee"] / 10, k["max_fee"] / 2, k["max_fee"]}
	val := dep + []int64{0, 1, price, 2 * price, 3*price + 7}[r.Intn(5)]
	if r.Chance(0.04) {
		val = dep - 1
	}
	if restarts && val < dep+2*price {
		val = dep + 2*price // enough own funds to keep nodes staked
	}
	p.Steps = append(p.Steps, simkit.Step{Op: "create", T: 0, I: []int64{cap, fees[r.Intn(len(fees))], val}})

	if restarts && r.Chance(0.8) { // nodes staked early: the validator then tags unstaked tokens with the real epoch
		ids := []int64{0}
		if nKeys > 1 && r.Chance(0.5) {
			ids = append(ids, 1)
		}
		p.Steps = append(p.Steps, simkit.Step{Op: "addnodes", T: 0, I: ids}, simkit.Step{Op: "stakenodes", T: 0, I: ids})
	}
	ops := []string{"delegate", "undelegate", "withdraw", "claim", "redelegate", "rewards", "epoch", "addnodes", "stakenodes", "unstakenodes",
		"unbondnodes", "restakenodes", "unjailnodes", "cap", "fee", "autoact", "recap", "mindeleg", "jail", "nonce", "removenodes", "idle", "restart"}
	w := []int{r.Range(5, 10), r.Range(3, 8), r.Range(2, 5), r.Range(2, 5), r.Range(1, 4), r.Range(2, 4), r.Range(2, 5), r.Range(0, 2), r.Range(0, 2), r.Range(0, 2),
		r.Range(0, 2), r.Range(0, 1), r.Range(0, 1), r.Range(0, 2), r.Range(0, 2), r.Range(0, 1), r.Range(0, 1), r.Range(0, 1), r.Range(0, 1), r.Range(0, 2), r.Range(0, 1), 0, 0}
	if longIdle {
		w[len(w)-2] = r.Range(1, 3)
	}
	if restarts {
		w[len(w)-1] = r.Range(1, 2)
		w[1] += 3 // more undelegations
		w[2] += 2 // more withdrawals
		w[6] += 2 // more epoch ticks
		w[9], w[10] = r.Range(0, 1), r.Range(0, 1)
	}
	someKeys := func() []int64 {
		n := r.Range(1, nKeys)
		perm := r.Perm(nKeys)
		out := []int64{}
		for i := 0; i < n; i++ {
			out = append(out, int64(perm[i]))
		}
		return out
	}
	amount := func() int64 {
		return []int64{m - 1, m, m, m + 1, 2 * m, 3*m + 1, price, price / 2, price + m, 1}[r.Intn(10)]
	}
	n := r.Range(10, 80)
	for i := 0; i < n; i++ {
		op := ops[r.Weighted(w)]
		u := r.Intn(nUsers + 1)
		switch op {
		case "delegate":
			add(simkit.Step{Op: op, T: u, I: []int64{0, amount()}})
		case "undelegate":
			mode := int64(r.Weighted([]int{4, 4, 1, 2}))
			add(simkit.Step{Op: op, T: u, I: []int64{mode, amount()}})
		case "withdraw", "claim", "redelegate":
			add(simkit.Step{Op: op, T: u})
		case "rewards":
			add(simkit.Step{Op: op, T: -1, I: []int64{[]int64{0, 1, 7, 100, 1000, 12345}[r.Intn(6)]}})
		case "epoch":
			add(simkit.Step{Op: op, T: -1, I: []int64{int64(r.Range(1, 2))}})
			if r.Chance(0.6) {
				add(simkit.Step{Op: "rewards", T: -1, I: []int64{[]int64{1, 7, 100, 1000, 12345}[r.Intn(5)]}})
			}
		case "addnodes", "stakenodes", "unstakenodes", "unbondnodes", "restakenodes", "removenodes":
			who := 0
			if r.Chance(0.1) {
				who = u
			}
			add(simkit.Step{Op: op, T: who, I: someKeys()})
		case "unjailnodes":
			add(simkit.Step{Op: op, T: u, I: someKeys()})
		case "jail":
			add(simkit.Step{Op: op, T: -1, I: someKeys()})
		case "cap":
			add(simkit.Step{Op: op, T: 0, I: []int64{[]int64{0, dep, dep + price, dep + 2*price + 13, 100000}[r.Intn(5)]}})
		case "fee":
			add(simkit.Step{Op: op, T: 0, I: []int64{fees[r.Intn(len(fees))]}})
		case "autoact", "recap":
			add(simkit.Step{Op: op, T: 0, I: []int64{int64(r.Intn(2))}})
		case "mindeleg":
			add(simkit.Step{Op: op, T: -1, I: []int64{[]int64{1, m, m + 5, 2 * m}[r.Intn(4)]}})
		case "nonce":
			add(simkit.Step{Op: op, T: -1, I: []int64{int64(r.Range(1, 6))}})
		case "idle":
			add(simkit.Step{Op: op, T: -1, I: []int64{[]int64{5, 29, 30, 31, 35, 45, 62, 80}[r.Intn(8)], []int64{100, 1000, 12345}[r.Intn(3)]}})
		case "restart":
			add(simkit.Step{Op: op, T: -1, I: []int64{[]int64{0, 1, 2, 3, 5}[r.Intn(5)], []int64{-1, -1, 0, 2, 8}[r.Intn(5)]}})
		}
	}
	if r.Chance(0.7) { // final sweep: let every unbond period elapse, then everybody withdraws and claims
		p.Steps = append(p.Steps, simkit.Step{Op: "epoch", T: -1, I: []int64{k["unbond_epochs"] + 1}})
		claims := 1
		if longIdle {
			claims = 3 // nobody is left with rewards pending after a long stretch, whatever the contract does per call
		}
		for u := 0; u <= nUsers; u++ {
			p.Steps = append(p.Steps, simkit.Step{Op: "withdraw", T: u})
			for j := 0; j < claims; j++ {
				p.Steps = append(p.Steps, simkit.Step{Op: "claim", T: u})
			}
		}
	}
	return p
}

type delegRun struct {
	c        *simkit.Ctx
	e        *env
	prop     string
	contract []byte
	users    int
	active   map[int]*big.Int
	isDeleg  map[int]bool

	undelegated, withdrawn, rewardsIn, rewardsPaid, redelegated *big.Int
	lastRewardsEpoch                                            int64
	light                                                       bool // inside an idle stretch: the view-level clauses are evaluated only after its last transaction

	nonOwnerDelegated, someUndelegated, paidOut bool
}

func execDeleg(c *simkit.Ctx) bool {
	e := newEnv(c, defaultCfg(c.Plan))
	if e == nil {
		return false
	}
	r := &delegRun{c: c, e: e, prop: c.Plan.Property, users: int(c.Plan.Knob("users", 3)), active: map[int]*big.Int{}, isDeleg: map[int]bool{},
		undelegated: bi(0), withdrawn: bi(0), rewardsIn: bi(0), rewardsPaid: bi(0), redelegated: bi(0), lastRewardsEpoch: -1}
	for i := range c.Plan.Steps {
		c.CurStep = i
		r.step(&c.Plan.Steps[i])
		c.StepsDone++
		if c.Failed(r.prop) || c.Harness != "" {
			break
		}
	}
	if r.prop == "C40" {
		return e.spy.okTxAfterFailedWrites > 0
	}
	return r.nonOwnerDelegated && r.someUndelegated && r.rewardsIn.Sign() > 0 && r.paidOut
}

func (r *delegRun) user(t int) []byte {
	if t < 0 {
		t = 0
	}
	return userAddr(t % (r.users + 1))
}

func keyArgs(ids []int64, withSig bool) [][]byte {
	out := [][]byte{}
	for _, id := range ids {
		if id < 0 || id > 15 {
			continue
		}
		out = append(out, blsKey(int(id)))
		if withSig {
			out = append(out, []byte("signed"))
		}
	}
	return out
}

func (r *delegRun) step(st *simkit.Step) {
	e := r.e
	gas := ampleGas
	if st.Fault == "out_of_gas" {
		gas = uint64(st.FaultAt)
	}
	u := st.T
	if u > r.users {
		u = u % (r.users + 1)
	}
	switch st.Op {
	case "epoch":
		d := st.Int(0, 1)
		if d < 1 {
			d = 1
		}
		e.setEpoch(e.ch.epoch + uint32(d))
		e.ch.nonce += uint64(d) * 3
		e.ch.round = e.ch.nonce
		r.c.Eventf("epoch -> %d", e.ch.epoch)
		return
	case "nonce":
		e.ch.nonce += uint64(st.Int(0, 1))
		e.ch.round = e.ch.nonce
		return
	case "idle":
		// a long stretch in which nobody but the protocol acts: every epoch brings its updateRewards call
		n := st.Int(0, 1)
		if n > 100 {
			n = 100
		}
		rw := simkit.Step{Op: "rewards", T: -1, I: []int64{st.Int(1, 100)}}
		for j := int64(0); j < n && !r.c.Failed(r.prop); j++ {
			e.setEpoch(e.ch.epoch + 1)
			e.ch.nonce += 3
			e.ch.round = e.ch.nonce
			if r.contract == nil {
				continue
			}
			r.light = j+1 < n
			r.step(&rw)
		}
		r.light = false
		r.c.Eventf("idle %d epochs -> %d", n, e.ch.epoch)
		if n > 30 && r.contract != nil {
			r.c.Probe("idle_more_than_30_rewarded_epochs")
		}
		return
	case "restart":
		// node restart with a changed configuration: system contracts re-created over the same state
		if v := st.Int(0, -1); v >= 0 {
			e.cfg.unBondEpochs = uint32(v)
		}
		if v := st.Int(1, -1); v >= 0 {
			e.cfg.unBondNonces = uint64(v)
		}
		if !e.restart() {
			return
		}
		r.c.Eventf("restart unbond_epochs=%d unbond_nonces=%d", e.cfg.unBondEpochs, e.cfg.unBondNonces)
		r.c.Probe("restart_with_changed_unbond_period")
		return
	case "create":
		if r.contract != nil {
			return
		}
		res := e.call(r.user(0), vm.DelegationManagerSCAddress, "createNewDelegationContract", [][]byte{bytesOf(st.Int(0, 0)), bytesOf(st.Int(1, 0))}, bi(st.Int(2, 0)), gas, true)
		r.c.Eventf("create rc=%s", res.rc)
		if res.ok && len(res.out.ReturnData) > 0 {
			r.contract = append([]byte(nil), res.out.ReturnData[len(res.out.ReturnData)-1]...)
			e.overdraftProbe = r.contract
			r.afterOk(st, u, res, nil)
		}
		e.ch.nonce++
		return
	case "mindeleg":
		res := e.call(cfgChangeAddr(), vm.DelegationManagerSCAddress, "changeMinDelegationAmount", [][]byte{bytesOf(st.Int(0, 1))}, bi(0), gas, true)
		r.c.Eventf("mindeleg rc=%s", res.rc)
		if res.ok {
			r.afterOk(st, u, res, nil)
		}
		e.ch.nonce++
		return
	case "jail":
		res := e.call(vm.JailingAddress, vm.StakingSCAddress, "jail", keyArgs(st.I, false), bi(0), gas, true)
		r.c.Eventf("jail rc=%s", res.rc)
		if res.ok {
			r.afterOk(st, u, res, nil)
		}
		e.ch.nonce++
		return
	}
	if r.contract == nil {
		return
	}
	caller := r.user(u)
	value := bi(0)
	var args [][]byte
	fn := ""
	var amt *big.Int
	minDel := r.minDelegation()
	switch st.Op {
	case "delegate":
		fn, value = "delegate", bi(st.Int(1, 0))
	case "undelegate":
		fn = "unDelegate"
		act := r.active[u]
		if act == nil {
			act = bi(0)
		}
		switch st.Int(0, 0) {
		case 1:
			amt = big.NewInt(0).Set(act)
		case 2:
			amt = big.NewInt(0).Sub(act, big.NewInt(0).Sub(minDel, bi(1)))
		case 3:
			amt = big.NewInt(0).Sub(act, minDel)
		default:
			amt = bi(st.Int(1, 0))
		}
		if amt.Sign() < 0 {
			amt = bi(0)
		}
		args = [][]byte{amt.Bytes()}
	case "withdraw":
		fn = "withdraw"
	case "claim":
		fn = "claimRewards"
	case "redelegate":
		fn = "reDelegateRewards"
	case "rewards":
		if r.lastRewardsEpoch == int64(e.ch.epoch) {
			return // the protocol sends updateRewards once per epoch
		}
		fn, caller, value = "updateRewards", vm.EndOfEpochAddress, bi(st.Int(0, 0))
	case "addnodes":
		fn, args = "addNodes", keyArgs(st.I, true)
	case "removenodes":
		fn, args = "removeNodes", keyArgs(st.I, false)
	case "stakenodes":
		fn, args = "stakeNodes", keyArgs(st.I, false)
	case "unstakenodes":
		fn, args = "unStakeNodes", keyArgs(st.I, false)
	case "unbondnodes":
		fn, args = "unBondNodes", keyArgs(st.I, false)
	case "restakenodes":
		fn, args = "reStakeUnStakedNodes", keyArgs(st.I, false)
	case "unjailnodes":
		fn, args = "unJailNodes", keyArgs(st.I, false)
		value = bi(r.c.Plan.Knob("unjail", 5) * int64(len(args)))
	case "cap":
		fn, args = "modifyTotalDelegationCap", [][]byte{bytesOf(st.Int(0, 0))}
	case "fee":
		fn, args = "changeServiceFee", [][]byte{bytesOf(st.Int(0, 0))}
	case "autoact":
		fn, args = "setAutomaticActivation", [][]byte{[]byte(map[int64]string{0: "false", 1: "true"}[st.Int(0, 0)&1])}
	case "recap":
		fn, args = "setCheckCapOnReDelegateRewards", [][]byte{[]byte(map[int64]string{0: "false", 1: "true"}[st.Int(0, 0)&1])}
	default:
		return
	}
	res := e.call(caller, r.contract, fn, args, value, gas, true)
	r.c.Eventf("%s u=%d v=%s rc=%s", fn, u, value, res.rc)
	e.ch.nonce++
	e.ch.round = e.ch.nonce
	if res.ok {
		r.afterOk(st, u, res, amt)
	}
}

func (r *delegRun) minDelegation() *big.Int {
	raw := r.e.ch.storageOf(vm.DelegationManagerSCAddress, []byte("delegationManagement"))
	dm := &systemSmartContracts.DelegationManagement{}
	if len(raw) == 0 || r.e.marsh.Unmarshal(dm, raw) != nil || dm.MinDelegationAmount == nil {
		return bi(r.c.Plan.Knob("min_delegation", 10))
	}
	return dm.MinDelegationAmount
}

// view runs a query (never applied).
func (r *delegRun) view(fn string, args ...[]byte) ([][]byte, bool) {
	res := r.e.call(userAddr(99), r.contract, fn, args, bi(0), ampleGas, false)
	if !res.ok {
		return nil, false
	}
	return res.out.ReturnData, true
}

func first(rd [][]byte) *big.Int {
	if len(rd) == 0 {
		return bi(0)
	}
	return toBig(rd[0])
}

// afterOk: bookkeeping of payments and the C38 oracle, after a transaction that ended Ok and was applied.
func (r *delegRun) afterOk(st *simkit.Step, u int, res *txRes, amt *big.Int) {
	c := r.c
	if r.contract == nil {
		return
	}
	site := st.Op
	caller := r.user(u)

	// ---- storage level: GlobalFundData, DelegatorData, Fund
	stor := r.e.ch.acct(r.contract).storage
	gfRaw := stor["globalFund"]
	if len(gfRaw) == 0 {
		return
	}
	gf := &systemSmartContracts.GlobalFundData{}
	if err := r.e.marsh.Unmarshal(gf, gfRaw); err != nil {
		c.HarnessErr("cannot decode GlobalFundData: %v", err)
		return
	}
	sumA, sumU := bi(0), bi(0)
	newActive := map[int]*big.Int{}
	recordOf := map[int]bool{}
	for i := 0; i <= r.users; i++ {
		addr := userAddr(i)
		raw := stor[string(addr)]
		if len(raw) == 0 {
			if r.isDeleg[i] {
				c.Probe("delegator_removed")
			}
			r.isDeleg[i] = false
			continue
		}
		r.isDeleg[i] = true
		recordOf[i] = true
		dd := &systemSmartContracts.DelegatorData{}
		if err := r.e.marsh.Unmarshal(dd, raw); err != nil {
			c.HarnessErr("cannot decode DelegatorData: %v", err)
			return
		}
		getFund := func(key []byte, typ uint32) *big.Int {
			fr := stor[string(key)]
			if len(fr) == 0 {
				c.Violate("C38", "missing-fund", site, "after %s by user %d: delegator %d references fund %q which does not exist in the contract storage", st.Op, u, i, key)
				return nil
			}
			f := &systemSmartContracts.Fund{}
			if err := r.e.marsh.Unmarshal(f, fr); err != nil || f.Value == nil {
				c.Violate("C38", "missing-fund", site, "after %s by user %d: fund %q of delegator %d cannot be decoded", st.Op, u, key, i)
				return nil
			}
			if !bytes.Equal(f.Address, addr) || f.Type != typ {
				c.Violate("C38", "foreign-fund", site, "after %s by user %d: fund %q referenced by delegator %d (as type %d) belongs to %x with type %d", st.Op, u, key, i, typ, f.Address, f.Type)
				return nil
			}
			return f.Value
		}
		if len(dd.ActiveFund) > 0 {
			v := getFund(dd.ActiveFund, 0)
			if v == nil {
				return
			}
			sumA.Add(sumA, v)
			newActive[i] = v
		}
		for _, fk := range dd.UnStakedFunds {
			v := getFund(fk, 1)
			if v == nil {
				return
			}
			sumU.Add(sumU, v)
		}
	}
	if gf.TotalActive.Cmp(sumA) != 0 {
		c.Violate("C38", "active-total-differs", site, "after %s by user %d: GlobalFundData.TotalActive = %s, sum of the delegators' active funds = %s", st.Op, u, gf.TotalActive, sumA)
		return
	}
	if gf.TotalUnStaked.Cmp(sumU) != 0 {
		c.Violate("C38", "unstaked-total-differs", site, "after %s by user %d: GlobalFundData.TotalUnStaked = %s, sum of the delegators' unstaked funds = %s", st.Op, u, gf.TotalUnStaked, sumU)
		return
	}

	// ---- view level
	if ta, ok := r.view("getTotalActiveStake"); ok && !r.light {
		tu, ok2 := r.view("getTotalUnStaked")
		vA, vU := bi(0), bi(0)
		complete := ok2
		for i := 0; i <= r.users && complete; i++ {
			a, okA := r.view("getUserActiveStake", userAddr(i))
			us, okU := r.view("getUserUnStakedValue", userAddr(i))
			if okA != okU || (okA != recordOf[i]) {
				complete = false // a failing user view is decided by the storage-level clauses above
				break
			}
			if okA {
				vA.Add(vA, first(a))
				vU.Add(vU, first(us))
			}
		}
		if complete {
			if first(ta).Cmp(vA) != 0 {
				c.Violate("C38", "active-total-differs", site, "after %s by user %d: getTotalActiveStake = %s, sum of getUserActiveStake = %s", st.Op, u, first(ta), vA)
				return
			}
			if first(tu).Cmp(vU) != 0 {
				c.Violate("C38", "unstaked-total-differs", site, "after %s by user %d: getTotalUnStaked = %s, sum of getUserUnStakedValue = %s", st.Op, u, first(tu), vU)
				return
			}
		} else {
			c.Probe("user_view_unavailable")
		}
		if nu, ok := r.view("getNumUsers"); ok && int(first(nu).Int64()) != len(recordOf) {
			c.Probe("num_users_differs_from_records")
		}
	}

	// ---- payments
	switch st.Op {
	case "delegate":
		if u != 0 {
			r.nonOwnerDelegated = true
		}
	case "undelegate":
		if amt != nil {
			r.undelegated.Add(r.undelegated, amt)
		}
		r.someUndelegated = true
	case "withdraw":
		paid := res.delta(caller)
		if paid.Sign() > 0 {
			r.withdrawn.Add(r.withdrawn, paid)
			r.paidOut = true
			c.Probe("unbond_period_elapsed_withdraw_paid")
		}
		if r.withdrawn.Cmp(r.undelegated) > 0 {
			c.Violate("C38", "withdrawn-exceeds-undelegated", site, "after withdraw by user %d: withdrawals paid %s in total, only %s was undelegated", u, r.withdrawn, r.undelegated)
			return
		}
	case "claim":
		paid := res.delta(caller)
		if paid.Sign() > 0 {
			r.rewardsPaid.Add(r.rewardsPaid, paid)
			r.paidOut = true
		}
	case "redelegate":
		before := r.active[u]
		if before == nil {
			before = bi(0)
		}
		after := newActive[u]
		if after == nil {
			after = bi(0)
		}
		if d := big.NewInt(0).Sub(after, before); d.Sign() > 0 {
			r.redelegated.Add(r.redelegated, d)
			c.Probe("rewards_redelegated")
		}
	case "rewards":
		r.rewardsIn.Add(r.rewardsIn, bi(st.Int(0, 0)))
		r.lastRewardsEpoch = int64(r.e.ch.epoch)
	}
	out := big.NewInt(0).Add(r.rewardsPaid, r.redelegated)
	if out.Cmp(r.rewardsIn) > 0 {
		c.Violate("C38", "rewards-paid-exceed-received", site, "after %s by user %d: rewards claimed %s + re-delegated %s = %s, the contract received %s by updateRewards", st.Op, u, r.rewardsPaid, r.redelegated, out, r.rewardsIn)
		return
	}
	r.active = newActive
	r.e.fp()
}
