package scsim

import (
	"bytes"
	"fmt"
	"math/big"

	"github.com/ElrondNetwork/elrond-go/vm"
	"github.com/ElrondNetwork/elrond-go/vm/systemSmartContracts"

	"verifsim/simkit"
)

// C39 run ("stake"): 1-3 owners (T = owner index, users 1..3) drive the validator contract, the driver plays the
// protocol (jailing / end-of-epoch addresses) towards the staking contract.

var peerLists = []string{"inactive", "eligible", "waiting", "jailed", "leaving", "new"}

func genStake(r *simkit.Rand, prop string) *simkit.Plan {
	p := &simkit.Plan{Knobs: map[string]int64{"run": runStake}, Arm: "stake"}
	genCommonKnobs(r, p)
	k := p.Knobs
	nOwners := r.Range(1, 3)
	nKeys := r.Range(3, 8)
	k["owners"], k["keys"] = int64(nOwners), int64(nKeys)
	gasFaults := r.Chance(0.2)
	if gasFaults {
		p.Arm = "stake-gas"
		p.Faults = []string{"out_of_gas"}
	}
	add := func(st simkit.Step) {
		if gasFaults && r.Chance(0.1) {
			st.Fault, st.FaultAt = "out_of_gas", r.Range(0, 12)
		}
		p.Steps = append(p.Steps, st)
	}
	ops := []string{"stake", "unstake", "unstakenodes", "unbond", "unbondnodes", "unjail", "restake", "unstaketokens", "unbondtokens",
		"jail", "switchjailed", "stakequeue", "unstakeeoe", "maxnodes", "minnodes", "resetlastunjailed", "cleanqueue", "peer", "epoch", "nonce"}
	w := []int{r.Range(6, 12), r.Range(3, 7), r.Range(1, 4), r.Range(2, 5), r.Range(1, 3), r.Range(2, 5), r.Range(0, 3), r.Range(0, 2), r.Range(0, 2),
		r.Range(1, 4), r.Range(2, 5), r.Range(0, 3), r.Range(0, 3), r.Range(0, 2), r.Range(0, 2), r.Range(0, 1), r.Range(0, 1), r.Range(0, 2), r.Range(1, 3), r.Range(2, 5)}
	ownerOf := func(key int) int { return 1 + key%nOwners }
	keysOfOwner := func(o int, n int) []int64 {
		out := []int64{}
		perm := r.Perm(nKeys)
		for _, kk := range perm {
			if len(out) >= n {
				break
			}
			if ownerOf(kk) == o || r.Chance(0.05) {
				out = append(out, int64(kk))
			}
		}
		if len(out) == 0 {
			out = append(out, int64(perm[0]))
		}
		return out
	}
	n := r.Range(10, 80)
	for i := 0; i < n; i++ {
		op := ops[r.Weighted(w)]
		o := r.Range(1, nOwners)
		switch op {
		case "stake":
			ks := keysOfOwner(o, r.Range(1, 3))
			add(simkit.Step{Op: op, T: o, I: append([]int64{int64(r.Weighted([]int{6, 2, 1, 2}))}, ks...)})
		case "unstake", "unstakenodes", "unbond", "unbondnodes", "restake", "unjail":
			add(simkit.Step{Op: op, T: o, I: keysOfOwner(o, r.Range(1, 2))})
		case "unstaketokens", "unbondtokens":
			add(simkit.Step{Op: op, T: o, I: []int64{[]int64{1, k["min_delegation"], k["node_price"], k["node_price"] / 2}[r.Intn(4)]}})
		case "jail":
			ks := []int64{int64(r.Intn(nKeys))}
			if r.Chance(0.3) {
				ks = append(ks, int64(r.Intn(nKeys)))
			}
			add(simkit.Step{Op: op, T: -1, I: ks})
		case "switchjailed", "unstakeeoe":
			add(simkit.Step{Op: op, T: -1, I: []int64{int64(r.Intn(nKeys))}})
		case "stakequeue":
			add(simkit.Step{Op: op, T: -1, I: []int64{int64(r.Range(1, 4))}})
		case "maxnodes":
			add(simkit.Step{Op: op, T: -1, I: []int64{int64(r.Range(1, 6))}})
		case "minnodes":
			add(simkit.Step{Op: op, T: -1, I: []int64{int64(r.Range(1, 4))}})
		case "resetlastunjailed", "cleanqueue":
			add(simkit.Step{Op: op, T: -1})
		case "peer":
			add(simkit.Step{Op: op, T: -1, I: []int64{int64(r.Intn(nKeys)), int64(r.Weighted([]int{3, 3, 1, 3, 1, 1})), int64([]int{0, 0, 50, 2}[r.Intn(4)])}})
		case "epoch":
			add(simkit.Step{Op: op, T: -1, I: []int64{1}})
		case "nonce":
			add(simkit.Step{Op: op, T: -1, I: []int64{int64(r.Range(1, 6))}})
		}
	}
	return p
}

type stakeRun struct {
	c       *simkit.Ctx
	e       *env
	prop    string
	nKeys   int
	nOwners int
	lowered bool

	sawWaiting, keyLeft bool
}

func execStake(c *simkit.Ctx) bool {
	e := newEnv(c, defaultCfg(c.Plan))
	if e == nil {
		return false
	}
	r := &stakeRun{c: c, e: e, prop: c.Plan.Property, nKeys: int(c.Plan.Knob("keys", 4)), nOwners: int(c.Plan.Knob("owners", 1))}
	if r.nKeys > 16 {
		r.nKeys = 16
	}
	for i := range c.Plan.Steps {
		c.CurStep = i
		r.step(&c.Plan.Steps[i])
		c.StepsDone++
		if c.Failed(r.prop) || c.Harness != "" {
			break
		}
	}
	if r.prop == "C40" {
		return e.spy.okTxAfterFailedWrites > 0
	}
	return r.sawWaiting && r.keyLeft
}

func (r *stakeRun) nodesConfig() *systemSmartContracts.StakingNodesConfig {
	cfg := &systemSmartContracts.StakingNodesConfig{}
	raw := r.e.ch.storageOf(vm.StakingSCAddress, []byte("nodesConfig"))
	if len(raw) == 0 || r.e.marsh.Unmarshal(cfg, raw) != nil {
		return nil
	}
	return cfg
}

func (r *stakeRun) step(st *simkit.Step) {
	e := r.e
	gas := ampleGas
	if st.Fault == "out_of_gas" {
		gas = uint64(st.FaultAt)
	}
	owner := userAddr(1 + ((st.T%3)+3)%3)
	price := r.c.Plan.Knob("node_price", 100)
	var res *txRes
	fn := st.Op
	switch st.Op {
	case "epoch":
		e.setEpoch(e.ch.epoch + 1)
		e.ch.nonce += 2
		e.ch.round = e.ch.nonce
		r.c.Eventf("epoch -> %d", e.ch.epoch)
		return
	case "nonce":
		e.ch.nonce += uint64(st.Int(0, 1))
		e.ch.round = e.ch.nonce
		return
	case "peer":
		key := blsKey(int(st.Int(0, 0)) % 16)
		l := int(st.Int(1, 0))
		if l < 0 || l >= len(peerLists) {
			l = 0
		}
		if l == 0 {
			delete(e.ch.peers, string(key))
		} else {
			e.ch.peers[string(key)] = &peerInfo{list: peerLists[l], rating: uint32(st.Int(2, 0))}
		}
		return
	case "stake":
		ids := st.I
		if len(ids) < 2 {
			return
		}
		ks := keyArgs(ids[1:], true)
		n := int64(len(ks) / 2)
		if n == 0 {
			return
		}
		val := price * n
		switch ids[0] {
		case 1:
			val += price/2 + 3
		case 2:
			val--
		case 3:
			val = 0
		}
		args := append([][]byte{bytesOf(n)}, ks...)
		res = e.call(owner, vm.ValidatorSCAddress, "stake", args, bi(val), gas, true)
	case "unstake":
		res = e.call(owner, vm.ValidatorSCAddress, "unStake", keyArgs(st.I, false), bi(0), gas, true)
	case "unstakenodes":
		res = e.call(owner, vm.ValidatorSCAddress, "unStakeNodes", keyArgs(st.I, false), bi(0), gas, true)
	case "unbond":
		res = e.call(owner, vm.ValidatorSCAddress, "unBond", keyArgs(st.I, false), bi(0), gas, true)
	case "unbondnodes":
		res = e.call(owner, vm.ValidatorSCAddress, "unBondNodes", keyArgs(st.I, false), bi(0), gas, true)
	case "restake":
		res = e.call(owner, vm.ValidatorSCAddress, "reStakeUnStakedNodes", keyArgs(st.I, false), bi(0), gas, true)
	case "unjail":
		ks := keyArgs(st.I, false)
		res = e.call(owner, vm.ValidatorSCAddress, "unJail", ks, bi(r.c.Plan.Knob("unjail", 5)*int64(len(ks))), gas, true)
	case "unstaketokens":
		res = e.call(owner, vm.ValidatorSCAddress, "unStakeTokens", [][]byte{bytesOf(st.Int(0, 1))}, bi(0), gas, true)
	case "unbondtokens":
		res = e.call(owner, vm.ValidatorSCAddress, "unBondTokens", [][]byte{bytesOf(st.Int(0, 1))}, bi(0), gas, true)
	case "jail":
		res = e.call(vm.JailingAddress, vm.StakingSCAddress, "jail", keyArgs(st.I, false), bi(0), gas, true)
	case "switchjailed":
		res = e.call(vm.EndOfEpochAddress, vm.StakingSCAddress, "switchJailedWithWaiting", keyArgs(st.I[:min(1, len(st.I))], false), bi(0), gas, true)
	case "unstakeeoe":
		res = e.call(vm.EndOfEpochAddress, vm.StakingSCAddress, "unStakeAtEndOfEpoch", keyArgs(st.I[:min(1, len(st.I))], false), bi(0), gas, true)
	case "stakequeue":
		cfg := r.nodesConfig()
		if cfg == nil {
			return
		}
		n := st.Int(0, 1)
		if room := cfg.MaxNumNodes - cfg.StakedNodes; n > room {
			n = room // the protocol only fills free places
		}
		if n <= 0 {
			return
		}
		res = e.call(vm.EndOfEpochAddress, vm.StakingSCAddress, "stakeNodesFromQueue", [][]byte{bytesOf(n)}, bi(0), gas, true)
	case "maxnodes":
		before := r.nodesConfig()
		res = e.call(vm.EndOfEpochAddress, vm.StakingSCAddress, "updateConfigMaxNodes", [][]byte{bytesOf(st.Int(0, 1))}, bi(0), gas, true)
		if res.ok && before != nil && st.Int(0, 1) < before.MaxNumNodes {
			r.lowered = true
			r.c.Probe("max_nodes_lowered")
		}
	case "minnodes":
		res = e.call(vm.EndOfEpochAddress, vm.StakingSCAddress, "updateConfigMinNodes", [][]byte{bytesOf(st.Int(0, 1))}, bi(0), gas, true)
	case "resetlastunjailed":
		res = e.call(vm.EndOfEpochAddress, vm.StakingSCAddress, "resetLastUnJailedFromQueue", nil, bi(0), gas, true)
	case "cleanqueue":
		res = e.call(vm.EndOfEpochAddress, vm.StakingSCAddress, "cleanAdditionalQueue", nil, bi(0), gas, true)
	default:
		return
	}
	e.ch.nonce++
	e.ch.round = e.ch.nonce
	r.c.Eventf("%s t=%d rc=%s", fn, st.T, res.rc)
	if !res.ok {
		return
	}
	switch st.Op {
	case "unstake", "unstakenodes", "unbond", "unbondnodes", "switchjailed", "unstakeeoe", "stakequeue", "cleanqueue":
		r.keyLeft = true
	}
	r.probes(st, res)
	r.check(st)
	e.fp()
}

// probes counts rare situations reached (never a verdict).
func (r *stakeRun) probes(st *simkit.Step, res *txRes) {
	stor := r.e.ch.acct(vm.StakingSCAddress).storage
	rec := func(id int64) *systemSmartContracts.StakedDataV2_0 {
		sd := &systemSmartContracts.StakedDataV2_0{}
		raw := stor[string(blsKey(int(id)%16))]
		if len(raw) == 0 || r.e.marsh.Unmarshal(sd, raw) != nil {
			return nil
		}
		return sd
	}
	switch st.Op {
	case "switchjailed":
		if sd := rec(st.Int(0, 0)); sd != nil && sd.Jailed && !sd.Staked {
			r.c.Probe("jailed_switched_with_waiting")
		}
	case "unjail":
		head := &systemSmartContracts.WaitingList{}
		if raw := stor["waitingList"]; len(raw) > 0 && r.e.marsh.Unmarshal(head, raw) == nil {
			for _, id := range st.I {
				if sd := rec(id); sd != nil && sd.Waiting && bytes.Equal(head.FirstKey, append([]byte("w_"), blsKey(int(id)%16)...)) && head.Length > 1 {
					r.c.Probe("unjailed_inserted_first_in_queue")
				}
			}
		}
	case "stakequeue":
		if len(res.out.ReturnData) > 0 {
			r.c.Probe("staked_from_queue")
		}
	}
}

// check is the C39 oracle: the staking contract's storage after a successful call.
func (r *stakeRun) check(st *simkit.Step) {
	c := r.c
	site := st.Op
	stor := r.e.ch.acct(vm.StakingSCAddress).storage
	dec := func(raw []byte, into interface{}) bool {
		if err := r.e.marsh.Unmarshal(into, raw); err != nil {
			c.HarnessErr("cannot decode staking record: %v", err)
			return false
		}
		return true
	}
	// registered keys and their flags
	waitingFlag := map[string]bool{}
	staked := int64(0)
	for i := 0; i < 16; i++ {
		raw := stor[string(blsKey(i))]
		if len(raw) == 0 {
			continue
		}
		sd := &systemSmartContracts.StakedDataV2_0{}
		if !dec(raw, sd) {
			return
		}
		if sd.Staked {
			staked++
		}
		if sd.Waiting {
			waitingFlag[string(blsKey(i))] = true
		}
	}
	// the list
	head := &systemSmartContracts.WaitingList{}
	if raw := stor["waitingList"]; len(raw) > 0 && !dec(raw, head) {
		return
	}
	bad := func(kind, format string, a ...interface{}) {
		c.Violate("C39", kind, site, "after %s: %s", st.Op, fmt.Sprintf(format, a...))
	}
	inList := map[string]bool{}
	var order [][]byte
	if head.Length > 0 || len(head.FirstKey) > 0 {
		cur := head.FirstKey
		var prevKey []byte
		for len(cur) > 0 {
			if inList[string(cur)] {
				bad("waiting-list-malformed", "the waiting list has a cycle at element %q (Length %d)", cur, head.Length)
				return
			}
			raw := stor[string(cur)]
			if len(raw) == 0 {
				bad("waiting-list-malformed", "waiting list element %q (reached from FirstKey %q after %d elements) does not exist", cur, head.FirstKey, len(order))
				return
			}
			el := &systemSmartContracts.ElementInList{}
			if !dec(raw, el) {
				return
			}
			if !bytes.Equal(cur, append([]byte("w_"), el.BLSPublicKey...)) {
				bad("waiting-list-malformed", "element stored under %q carries BLS key %x", cur, el.BLSPublicKey)
				return
			}
			if prevKey != nil && !bytes.Equal(el.PreviousKey, prevKey) {
				bad("waiting-list-malformed", "element %d (%x..) has PreviousKey %x.., the element before it is %x.. (Length %d)", len(order), head6(cur), head6(el.PreviousKey), head6(prevKey), head.Length)
				return
			}
			inList[string(cur)] = true
			order = append(order, cur)
			prevKey = cur
			cur = el.NextKey
			if len(order) > 64 {
				bad("waiting-list-malformed", "the waiting list does not end")
				return
			}
		}
		if uint32(len(order)) != head.Length {
			bad("waiting-list-markers", "WaitingList.Length = %d, elements reachable from FirstKey = %d", head.Length, len(order))
			return
		}
		if len(order) > 0 && !bytes.Equal(order[len(order)-1], head.LastKey) {
			bad("waiting-list-markers", "WaitingList.LastKey = %x.., the last reachable element is %x..", head6(head.LastKey), head6(order[len(order)-1]))
			return
		}
		if len(head.LastJailedKey) > 0 && !inList[string(head.LastJailedKey)] {
			bad("waiting-list-markers", "WaitingList.LastJailedKey = %x.. is not an element of the list (Length %d)", head6(head.LastJailedKey), head.Length)
			return
		}
	}
	if len(order) > 0 {
		r.sawWaiting = true
		c.Probe("waiting_list_nonempty")
		if len(head.LastJailedKey) > 0 {
			c.Probe("waiting_list_has_last_jailed")
		}
	}
	// keys in the list == registered keys marked waiting
	for _, wk := range order {
		if !waitingFlag[string(wk[2:])] {
			bad("waiting-set-differs", "key %x.. is in the waiting list but its staking record is not marked Waiting (or does not exist)", head6(wk[2:]))
			return
		}
	}
	for i := 0; i < 16; i++ {
		k := blsKey(i)
		if waitingFlag[string(k)] && !inList[string(append([]byte("w_"), k...))] {
			bad("waiting-set-differs", "key %d is marked Waiting in its staking record but is not reachable in the waiting list (Length %d)", i, head.Length)
			return
		}
	}
	cfg := r.nodesConfig()
	if cfg == nil {
		return
	}
	if cfg.StakedNodes != staked {
		bad("staked-counter-differs", "StakingNodesConfig.StakedNodes = %d, keys marked Staked = %d", cfg.StakedNodes, staked)
		return
	}
	if !r.lowered && cfg.StakedNodes > cfg.MaxNumNodes {
		bad("staked-exceeds-max", "StakedNodes = %d > MaxNumNodes = %d and the maximum was never lowered", cfg.StakedNodes, cfg.MaxNumNodes)
		return
	}
}

func head6(b []byte) []byte {
	if len(b) > 6 {
		return b[:6]
	}
	return b
}

var _ = big.NewInt
