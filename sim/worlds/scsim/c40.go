package scsim

import (
	"fmt"
	"math/big"

	"github.com/ElrondNetwork/elrond-go/vm"
	vmcommon "github.com/ElrondNetwork/elrond-vm-common"

	"verifsim/simkit"
)

// C40, arm "synth": synthetic contracts S0..S3 are registered in the real container next to the real system
// contracts. A transaction to S0 runs S0's program; `call` ops go through the real vmContext.ExecuteOnDestContext
// to a contract with a higher index (depth <= 3). A program is the list of plan steps whose T is the contract index.
//
//	set   B[0]=key                       SetStorage(key, fresh unique value)
//	del   B[0]=key                       SetStorage(key, nil)
//	setf  I[0]=contract, B[0]=key        SetStorageForAddress(addr(contract), key, fresh unique value)
//	xfer  I[0]=user, I[1]=amount         Transfer(user, self, amount)
//	call  I[0]=callee, I[1]=value, I[2]  ExecuteOnDestContext(callee, self, value, "run"); I[2]=1: give up (UserError) if the callee failed
//	fail  I[0]=n                         return UserError (n<0: at every invocation, else only at the n-th invocation of this contract in the tx)
//	gas   I[0]=amount                    UseGas(amount); OutOfGas if it does not fit
//
// Steps outside programs: base (T=contract, B[0]=key, B[1]=value: storage present before the run) and tx (I[0]=gas).

func synthAddr(i int) []byte {
	a := make([]byte, 32)
	a[10] = 0x5c
	a[30] = 0xee
	a[31] = byte(i)
	return a
}

const maxSynth = 4

type synthWorld struct {
	e                *env
	plan             *simkit.Plan
	seq              int
	invoked          [maxSynth]int
	total            int
	failedAfterWrite bool
}

type synthSC struct {
	w   *synthWorld
	idx int
}

func (s *synthSC) CanUseContract() bool       { return true }
func (s *synthSC) SetNewGasCost(_ vm.GasCost) {}
func (s *synthSC) IsInterfaceNil() bool       { return s == nil }

func (w *synthWorld) fresh() []byte {
	w.seq++
	return []byte(fmt.Sprintf("val-%d", w.seq))
}

func (s *synthSC) Execute(args *vmcommon.ContractCallInput) vmcommon.ReturnCode {
	w := s.w
	eei := w.e.spy
	inv := w.invoked[s.idx]
	w.invoked[s.idx]++
	w.total++
	self := synthAddr(s.idx)
	for i := range w.plan.Steps {
		st := &w.plan.Steps[i]
		if st.T != s.idx {
			continue
		}
		switch st.Op {
		case "set":
			eei.SetStorage(st.Bytes(0), w.fresh())
		case "del":
			eei.SetStorage(st.Bytes(0), nil)
		case "setf":
			t := int(st.Int(0, 0))
			if t < 0 || t >= maxSynth {
				continue
			}
			eei.SetStorageForAddress(synthAddr(t), st.Bytes(0), w.fresh())
		case "xfer":
			_ = eei.Transfer(userAddr(int(st.Int(0, 0))%8), self, big.NewInt(st.Int(1, 1)), nil, 0)
		case "call":
			callee := int(st.Int(0, 0))
			if callee <= s.idx || callee >= maxSynth || w.total > 60 {
				continue
			}
			out, err := eei.ExecuteOnDestContext(synthAddr(callee), self, big.NewInt(st.Int(1, 0)), []byte("run"))
			if (err != nil || out == nil || out.ReturnCode != vmcommon.Ok) && st.Int(2, 0) == 1 {
				eei.AddReturnMessage("callee failed")
				return vmcommon.UserError
			}
		case "fail":
			n := st.Int(0, -1)
			if n < 0 || int(n) == inv {
				eei.AddReturnMessage("planned failure")
				return vmcommon.UserError
			}
		case "gas":
			if eei.UseGas(uint64(st.Int(0, 1))) != nil {
				eei.AddReturnMessage("out of gas")
				return vmcommon.OutOfGas
			}
		}
	}
	return vmcommon.Ok
}

func genSynth(r *simkit.Rand) *simkit.Plan {
	p := &simkit.Plan{Knobs: map[string]int64{"run": runSynth}, Arm: "synth"}
	n := r.Range(2, maxSynth)
	nKeys := r.Range(2, 5)
	keys := make([][]byte, nKeys)
	for i := range keys {
		keys[i] = []byte(fmt.Sprintf("k%d", i))
	}
	key := func() simkit.HexBytes { return keys[r.Intn(nKeys)] }
	for i, m := 0, r.Range(0, 4); i < m; i++ {
		p.Steps = append(p.Steps, simkit.Step{Op: "base", T: r.Intn(n), B: []simkit.HexBytes{key(), []byte(fmt.Sprintf("base-%d", i))}})
	}
	gasUse := r.Chance(0.3)
	for c := 0; c < n; c++ {
		ops := r.Range(2, 8)
		failAt := -1
		if c > 0 && r.Chance(0.75) || c == 0 && r.Chance(0.05) {
			failAt = r.Range(1, ops)
		}
		for j := 0; j < ops; j++ {
			if j == failAt {
				inv := int64(-1)
				if r.Chance(0.4) {
					inv = int64(r.Intn(3))
				}
				p.Steps = append(p.Steps, simkit.Step{Op: "fail", T: c, I: []int64{inv}})
				continue
			}
			w := []int{5, 1, 3, 2, 0, 0}
			if c < n-1 {
				w[4] = 5
			}
			if gasUse {
				w[5] = 2
			}
			switch r.Weighted(w) {
			case 0:
				p.Steps = append(p.Steps, simkit.Step{Op: "set", T: c, B: []simkit.HexBytes{key()}})
			case 1:
				p.Steps = append(p.Steps, simkit.Step{Op: "del", T: c, B: []simkit.HexBytes{key()}})
			case 2:
				p.Steps = append(p.Steps, simkit.Step{Op: "setf", T: c, I: []int64{int64(r.Intn(n))}, B: []simkit.HexBytes{key()}})
			case 3:
				p.Steps = append(p.Steps, simkit.Step{Op: "xfer", T: c, I: []int64{int64(r.Intn(3)), int64(r.Range(1, 50))}})
			case 4:
				val := int64(0)
				if r.Chance(0.2) {
					val = int64(r.Range(1, 9))
				}
				giveUp := int64(0)
				if c > 0 && r.Chance(0.3) {
					giveUp = 1
				}
				p.Steps = append(p.Steps, simkit.Step{Op: "call", T: c, I: []int64{int64(r.Range(c+1, n-1)), val, giveUp}})
			case 5:
				p.Steps = append(p.Steps, simkit.Step{Op: "gas", T: c, I: []int64{int64(r.Range(1, 6))}})
			}
		}
	}
	gas := int64(1 << 40)
	if gasUse {
		gas = int64(r.Range(0, 40))
		p.Faults = []string{"out_of_gas"}
		p.Arm = "synth-gas"
	}
	for i, m := 0, r.Range(1, 2); i < m; i++ {
		p.Steps = append(p.Steps, simkit.Step{Op: "tx", T: -1, I: []int64{gas}})
	}
	return p
}

func execSynth(c *simkit.Ctx) bool {
	e := newEnv(c, defaultCfg(c.Plan))
	if e == nil {
		return false
	}
	w := &synthWorld{e: e, plan: c.Plan}
	for i := 0; i < maxSynth; i++ {
		if err := e.cont.Add(synthAddr(i), &synthSC{w: w, idx: i}); err != nil {
			c.HarnessErr("container.Add: %v", err)
			return false
		}
	}
	nontrivial := false
	for i := range c.Plan.Steps {
		st := &c.Plan.Steps[i]
		c.CurStep = i
		switch st.Op {
		case "base":
			if st.T >= 0 && st.T < maxSynth && len(st.Bytes(0)) > 0 {
				e.ch.acct(synthAddr(st.T)).storage[string(st.Bytes(0))] = append([]byte(nil), st.Bytes(1)...)
			}
		case "tx":
			w.invoked = [maxSynth]int{}
			w.total = 0
			before, okBefore := e.spy.failedNested, e.spy.okTxAfterFailedWrites
			res := e.call(userAddr(0), synthAddr(0), "run", nil, bi(0), uint64(st.Int(0, 1<<40)), true)
			c.Eventf("tx rc=%s nestedFailed=%d", res.rc, e.spy.failedNested-before)
			if e.spy.okTxAfterFailedWrites > okBefore {
				nontrivial = true
			}
			e.ch.nonce++
			e.fp()
		}
		c.StepsDone++
		if c.Failed(c.Plan.Property) || c.Harness != "" {
			break
		}
	}
	return nontrivial
}
