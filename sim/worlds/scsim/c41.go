package scsim

import (
	"bytes"
	"encoding/binary"
	"encoding/hex"
	"fmt"
	"sort"
	"strings"

	"github.com/ElrondNetwork/elrond-go/hashing/blake2b"
	"github.com/ElrondNetwork/elrond-go/vm"
	"github.com/ElrondNetwork/elrond-go/vm/systemSmartContracts"
	vmcommon "github.com/ElrondNetwork/elrond-vm-common"

	"verifsim/simkit"
)

// C41 run ("esdt"). The random seed is owned by the simulator: every issue step carries its seed.
//
//	pre    B[0]=ticker, I[0]=first suffix, I[1]=count   count consecutive identifiers TICKER-%06x (mod 2^24) are made pre-existing
//	issue  T=caller (1..3), B[1]=ticker, I[0]=kind (0 fungible, 1 semi-fungible, 2 non-fungible), B[0]=seed
//
// Tickers are byte strings (hex in replay files): besides legal ones (3-10 characters A-Z / 0-9) the generator
// produces tickers with arbitrary byte values at random positions and lengths around the limits; the contract may
// refuse them, but whatever it accepts must yield a well-formed identifier. (Old replay files carried the ticker in S[0].)

// nearTop: seeds (8-byte big-endian counters) whose candidate blake2b(userAddr(caller) || seed)[:3] is close to
// ffffff; found by an offline search (about 25 million hashes), verified again at generation time.
var nearTop = [][3]uint64{
	{1, 319016, 0xffffe2}, {1, 665998, 0xffffd0}, {1, 754883, 0xffffd8}, {1, 1660720, 0xfffff6}, {1, 1850514, 0xffffe5}, {1, 4962412, 0xffffff},
	{2, 150236, 0xfffff1}, {2, 292933, 0xffffef}, {2, 301254, 0xfffffc}, {2, 778911, 0xffffd9}, {2, 1579237, 0xffffee}, {2, 6740709, 0xffffff},
	{3, 135121, 0xffffe3}, {3, 516593, 0xfffff4}, {3, 962603, 0xfffff3}, {3, 2480824, 0xfffff5}, {3, 3514177, 0xfffffd}, {3, 14501326, 0xffffff},
}

var b2b = blake2b.NewBlake2b()

func candidateOf(caller, seed []byte) uint32 {
	d := b2b.Compute(string(append(append([]byte{}, caller...), seed...)))
	return uint32(d[0])<<16 | uint32(d[1])<<8 | uint32(d[2])
}

func seedBytes(ctr uint64) []byte {
	b := make([]byte, 8)
	binary.BigEndian.PutUint64(b, ctr)
	return b
}

func genEsdt(r *simkit.Rand) *simkit.Plan {
	p := &simkit.Plan{Knobs: map[string]int64{"run": runEsdt}, Arm: "esdt"}
	p.Knobs["base_issue"] = []int64{0, 50, 5000}[r.Intn(3)]
	nCallers := r.Range(1, 3)
	nTick := r.Range(1, 3)
	tickers := make([][]byte, nTick)
	const alpha = "ABCDEFGHIJKLMNOPQRSTUVWXYZ0123456789"
	legal := func(n int) []byte {
		b := make([]byte, n)
		for j := range b {
			b[j] = alpha[r.Intn(len(alpha))]
		}
		return b
	}
	for i := range tickers {
		switch r.Weighted([]int{5, 3, 2, 1}) {
		case 0: // legal
			tickers[i] = legal([]int{3, 3, 4, 6, 10, r.Range(3, 10)}[r.Intn(6)])
		case 1: // legal except for 1-2 bytes drawn from all 256 values
			b := legal([]int{3, 4, 9, 10, r.Range(3, 10)}[r.Intn(5)])
			for j, m := 0, r.Range(1, 2); j < m; j++ {
				b[r.Intn(len(b))] = byte(r.Intn(256))
			}
			tickers[i] = b
		case 2: // arbitrary bytes, lengths around the limits
			tickers[i] = r.Bytes([]int{1, 2, 3, 3, 10, 10, 11, 12, r.Range(0, 14)}[r.Intn(9)])
		default: // printable but outside the alphabet: lower case, punctuation, separator inside, too short / long
			b := legal([]int{2, 3, 10, 11, r.Range(1, 13)}[r.Intn(5)])
			if len(b) > 0 {
				b[r.Intn(len(b))] = "abz-_ .@~"[r.Intn(9)]
			}
			tickers[i] = b
		}
	}
	var lastSeed []byte
	lastCaller := 1
	n := r.Range(3, 14)
	for i := 0; i < n; i++ {
		caller := r.Range(1, nCallers)
		ticker := tickers[r.Intn(nTick)]
		var seed []byte
		switch r.Weighted([]int{4, 3, 4}) {
		case 0:
			seed = r.Bytes(8)
		case 1:
			if lastSeed != nil {
				seed, caller = lastSeed, lastCaller
			} else {
				seed = r.Bytes(8)
			}
		default:
			cands := [][3]uint64{}
			for _, e := range nearTop {
				if int(e[0]) == caller {
					cands = append(cands, e)
				}
			}
			e := cands[r.Intn(len(cands))]
			seed = seedBytes(e[1])
		}
		lastSeed, lastCaller = seed, caller
		cand := candidateOf(userAddr(caller), seed)
		if r.Chance(0.45) {
			toTop := int64(0xffffff - cand)
			counts := []int64{1, 2, 5, 49, 50, 51, 60}
			if toTop < 60 {
				counts = append(counts, toTop+1, toTop+1, toTop+2, toTop)
			}
			cnt := counts[r.Intn(len(counts))]
			if cnt < 1 {
				cnt = 1
			}
			p.Steps = append(p.Steps, simkit.Step{Op: "pre", T: -1, B: []simkit.HexBytes{ticker}, I: []int64{int64(cand), cnt}})
		}
		p.Steps = append(p.Steps, simkit.Step{Op: "issue", T: caller, I: []int64{int64(r.Intn(3))}, B: []simkit.HexBytes{seed, ticker}})
	}
	return p
}

// wellFormed judges an identifier from the property text alone: TICKER-xxxxxx, where TICKER is 3 to 10 upper-case
// ASCII letters or digits and xxxxxx are six lower-case hex digits. It returns the reason when it is not.
func wellFormed(id []byte) string {
	if len(id) < 7 || id[len(id)-7] != '-' {
		return "no '-' followed by exactly six characters at the end"
	}
	for _, ch := range id[len(id)-6:] {
		if !(ch >= '0' && ch <= '9' || ch >= 'a' && ch <= 'f') {
			return fmt.Sprintf("suffix character %q is not a lower-case hex digit", ch)
		}
	}
	tick := id[:len(id)-7]
	if len(tick) < 3 || len(tick) > 10 {
		return fmt.Sprintf("ticker part has %d characters (3-10 allowed)", len(tick))
	}
	for _, ch := range tick {
		if !(ch >= 'A' && ch <= 'Z' || ch >= '0' && ch <= '9') {
			return fmt.Sprintf("ticker byte 0x%02x is not an upper-case ASCII letter or digit", ch)
		}
	}
	return ""
}

// tickerOf reads the ticker of a step (B slot, or S[0] of old replay files).
func tickerOf(st *simkit.Step, slot int) []byte {
	if b := st.Bytes(slot); b != nil || len(st.S) == 0 {
		return b
	}
	return []byte(st.Str(0))
}

func execEsdt(c *simkit.Ctx) bool {
	e := newEnv(c, defaultCfg(c.Plan))
	if e == nil {
		return false
	}
	esdtAcc := e.ch.acct(vm.ESDTSCAddress)
	issuedOK, interesting := 0, false
	cost := bi(c.Plan.Knob("base_issue", 50))
	for i := range c.Plan.Steps {
		st := &c.Plan.Steps[i]
		c.CurStep = i
		c.StepsDone++
		switch st.Op {
		case "pre":
			ticker := tickerOf(st, 0)
			start, cnt := uint32(st.Int(0, 0)), st.Int(1, 1)
			rec, _ := e.marsh.Marshal(&systemSmartContracts.ESDTData{TokenName: []byte("preexisting"), TickerName: ticker, TokenType: []byte("FungibleESDT")})
			for j := int64(0); j < cnt && j < 80; j++ {
				id := fmt.Sprintf("%s-%06x", ticker, (start+uint32(j))&0xffffff)
				if _, ok := esdtAcc.storage[id]; !ok {
					esdtAcc.storage[id] = rec
				}
			}
		case "issue":
			ticker := tickerOf(st, 1)
			callerAddr := userAddr(1 + ((st.T-1)%3+3)%3)
			seed := st.Bytes(0)
			e.ch.seed = append([]byte(nil), seed...)
			cand := candidateOf(callerAddr, seed)
			before := map[string]bool{}
			for k := range esdtAcc.storage {
				before[k] = true
			}
			// how far the retry loop has to walk
			walk := 0
			for walk < 60 && before[fmt.Sprintf("%s-%06x", ticker, (cand+uint32(walk))&0xffffff)] {
				walk++
			}
			crossesTop := uint64(cand)+uint64(walk) > 0xffffff
			// argument buffers with spare capacity, as a VM host handing out slices of an arena would
			mk := func(b []byte) []byte {
				buf := make([]byte, len(b), len(b)+48)
				copy(buf, b)
				full := buf[:cap(buf)]
				for j := len(b); j < len(full); j++ {
					full[j] = 0xAA
				}
				return buf
			}
			callerBuf, tickerBuf := mk(callerAddr), mk(ticker)
			fn := []string{"issue", "issueSemiFungible", "issueNonFungible"}[((st.Int(0, 0)%3)+3)%3]
			args := [][]byte{[]byte("TokenName12"), tickerBuf}
			if fn == "issue" {
				args = append(args, []byte{100}, []byte{2})
			}
			in := &vmcommon.ContractCallInput{
				VMInput:       vmcommon.VMInput{CallerAddr: callerBuf, Arguments: args, CallValue: cost, GasProvided: ampleGas},
				RecipientAddr: vm.ESDTSCAddress, Function: fn,
			}
			res := e.callIn(in, true)
			e.ch.nonce++
			c.Eventf("%s caller=%d ticker=%q cand=%06x walk=%d rc=%s", fn, st.T, ticker, cand, walk, res.rc)
			spareTouched := false
			for _, buf := range [][]byte{callerBuf, tickerBuf} {
				for _, ch := range buf[len(buf):cap(buf)] {
					if ch != 0xAA {
						spareTouched = true
					}
				}
			}
			if !bytes.Equal(callerBuf, callerAddr) || !bytes.Equal(tickerBuf, ticker) {
				c.Probe("arg_bytes_changed")
			}
			if spareTouched {
				c.Probe("arg_spare_capacity_overwritten")
			}
			if !res.ok {
				if walk >= 50 {
					c.Probe("retry_budget_exhausted")
				}
				continue
			}
			issuedOK++
			// the identifier handed back
			var returned []byte
			if fn == "issue" {
				if oa := res.out.OutputAccounts[string(callerAddr)]; oa != nil && len(oa.OutputTransfers) > 0 {
					parts := strings.Split(string(oa.OutputTransfers[len(oa.OutputTransfers)-1].Data), "@")
					if len(parts) >= 2 {
						returned, _ = hex.DecodeString(parts[1])
					}
				}
			} else if len(res.out.ReturnData) > 0 {
				returned = res.out.ReturnData[len(res.out.ReturnData)-1]
			}
			ids := [][]byte{}
			if len(returned) > 0 {
				ids = append(ids, returned)
			}
			newKeys := []string{}
			for k := range esdtAcc.storage {
				if !before[k] {
					newKeys = append(newKeys, k)
				}
			}
			sort.Strings(newKeys)
			for _, k := range newKeys {
				if !bytes.Equal([]byte(k), returned) {
					ids = append(ids, []byte(k))
				}
			}
			if len(ids) == 0 {
				c.HarnessErr("successful %s left no identifier to observe", fn)
				return false
			}
			if wellFormed(append(append([]byte{}, ticker...), "-000000"...)) != "" {
				c.Probe("issue_accepted_for_illegal_ticker")
			}
			for _, id := range ids {
				if why := wellFormed(id); why != "" {
					c.Violate("C41", "identifier-malformed", fn, "%s by caller %d with ticker %q (candidate %06x, %d consecutive identifiers taken) produced identifier %q, not TICKER-xxxxxx: %s", fn, st.T, ticker, cand, walk, id, why)
					break
				}
				if !bytes.HasPrefix(id, ticker) || len(id) != len(ticker)+7 {
					c.Violate("C41", "identifier-malformed", fn, "%s by caller %d with ticker %q produced identifier %q whose ticker part is not the requested ticker", fn, st.T, ticker, id)
					break
				}
				if before[string(id)] {
					c.Violate("C41", "identifier-reused", fn, "%s by caller %d with ticker %q produced identifier %q which already existed", fn, st.T, ticker, id)
					break
				}
			}
			if walk > 0 {
				c.Probe("identifier_collision_retried")
				interesting = true
			}
			if cand == 0xffffff {
				c.Probe("ffffff_candidate")
			}
			if crossesTop {
				c.Probe("ffffff_boundary_crossed")
				interesting = true
			}
			e.fp()
		}
		if c.Failed(c.Plan.Property) || c.Harness != "" {
			break
		}
	}
	return issuedOK >= 2 && interesting
}
