package scsim

import (
	"testing"

	logger "github.com/ElrondNetwork/elrond-go-logger"

	"verifsim/simkit"
)

func TestCheck(t *testing.T) {
	_ = logger.SetLogLevel("*:NONE")
	simkit.Main(t, World{})
}
