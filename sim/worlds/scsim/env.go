package scsim

import (
	"bytes"
	"fmt"
	"math/big"
	"sort"

	"github.com/ElrondNetwork/elrond-go/config"
	"github.com/ElrondNetwork/elrond-go/core"
	"github.com/ElrondNetwork/elrond-go/core/pubkeyConverter"
	"github.com/ElrondNetwork/elrond-go/data"
	"github.com/ElrondNetwork/elrond-go/data/state"
	"github.com/ElrondNetwork/elrond-go/hashing/blake2b"
	"github.com/ElrondNetwork/elrond-go/marshal"
	"github.com/ElrondNetwork/elrond-go/testscommon"
	"github.com/ElrondNetwork/elrond-go/vm"
	vmFactory "github.com/ElrondNetwork/elrond-go/vm/factory"
	"github.com/ElrondNetwork/elrond-go/vm/mock"
	vmProcess "github.com/ElrondNetwork/elrond-go/vm/process"
	"github.com/ElrondNetwork/elrond-go/vm/systemSmartContracts"
	"github.com/ElrondNetwork/elrond-go/vm/systemSmartContracts/defaults"
	vmcommon "github.com/ElrondNetwork/elrond-vm-common"
	"github.com/ElrondNetwork/elrond-vm-common/parsers"

	"verifsim/simkit"
)

// ---------------------------------------------------------------------------------------------
// simulator-owned chain: accounts, storage, logical nonce/round/epoch, random seed, peer lists
// ---------------------------------------------------------------------------------------------

type acct struct {
	balance *big.Int
	code    []byte
	storage map[string][]byte
}

type peerInfo struct {
	list   string
	rating uint32
}

type chain struct {
	accts map[string]*acct
	nonce uint64
	round uint64
	epoch uint32
	seed  []byte
	peers map[string]*peerInfo
}

func newChain() *chain {
	return &chain{accts: map[string]*acct{}, peers: map[string]*peerInfo{}, seed: []byte("seed")}
}

func (ch *chain) acct(addr []byte) *acct {
	a := ch.accts[string(addr)]
	if a == nil {
		a = &acct{balance: big.NewInt(0), storage: map[string][]byte{}}
		ch.accts[string(addr)] = a
	}
	return a
}

func (ch *chain) storageOf(addr, key []byte) []byte {
	a := ch.accts[string(addr)]
	if a == nil {
		return nil
	}
	return a.storage[string(key)]
}

// userAcc is the account view handed to the eei.
type userAcc struct {
	addr []byte
	a    *acct
}

func (u *userAcc) GetCodeMetadata() []byte                         { return nil }
func (u *userAcc) GetCodeHash() []byte                             { return u.a.code }
func (u *userAcc) GetRootHash() []byte                             { return nil }
func (u *userAcc) AccountDataHandler() vmcommon.AccountDataHandler { return nil }
func (u *userAcc) AddToBalance(_ *big.Int) error                   { return nil }
func (u *userAcc) GetBalance() *big.Int                            { return big.NewInt(0).Set(u.a.balance) }
func (u *userAcc) ClaimDeveloperRewards([]byte) (*big.Int, error)  { return big.NewInt(0), nil }
func (u *userAcc) GetDeveloperReward() *big.Int                    { return big.NewInt(0) }
func (u *userAcc) ChangeOwnerAddress([]byte, []byte) error         { return nil }
func (u *userAcc) SetOwnerAddress([]byte)                          {}
func (u *userAcc) GetOwnerAddress() []byte                         { return nil }
func (u *userAcc) SetUserName([]byte)                              {}
func (u *userAcc) GetUserName() []byte                             { return nil }
func (u *userAcc) AddressBytes() []byte                            { return u.addr }
func (u *userAcc) IncreaseNonce(uint64)                            {}
func (u *userAcc) GetNonce() uint64                                { return 0 }
func (u *userAcc) IsInterfaceNil() bool                            { return u == nil }

// vm.BlockchainHook
func (ch *chain) GetStorageData(accountAddress []byte, index []byte) ([]byte, error) {
	v := ch.storageOf(accountAddress, index)
	if v == nil {
		return nil, nil
	}
	return append([]byte(nil), v...), nil
}
func (ch *chain) CurrentNonce() uint64 { return ch.nonce }
func (ch *chain) CurrentRound() uint64 { return ch.round }
func (ch *chain) CurrentEpoch() uint32 { return ch.epoch }
func (ch *chain) GetUserAccount(address []byte) (vmcommon.UserAccountHandler, error) {
	a := ch.accts[string(address)]
	if a == nil {
		return nil, state.ErrAccNotFound
	}
	return &userAcc{addr: append([]byte(nil), address...), a: a}, nil
}
func (ch *chain) GetCode(account vmcommon.UserAccountHandler) []byte {
	if u, ok := account.(*userAcc); ok && u != nil {
		return u.a.code
	}
	return nil
}
func (ch *chain) GetShardOfAddress([]byte) uint32     { return core.MetachainShardId }
func (ch *chain) IsSmartContract(address []byte) bool { return core.IsSmartContractAddress(address) }
func (ch *chain) IsPayable([]byte) (bool, error)      { return true, nil }
func (ch *chain) NumberOfShards() uint32              { return 1 }
func (ch *chain) CurrentRandomSeed() []byte           { return append([]byte(nil), ch.seed...) }
func (ch *chain) Close() error                        { return nil }
func (ch *chain) GetSnapshot() int                    { return 0 }
func (ch *chain) RevertToSnapshot(int) error          { return nil }

// peer accounts (validator statistics stub)
func (ch *chain) peerAccount(blsKey []byte) (vmcommon.AccountHandler, error) {
	p := ch.peers[string(blsKey)]
	if p == nil {
		return nil, state.ErrAccNotFound
	}
	pa, err := state.NewPeerAccount(append([]byte(nil), blsKey...))
	if err != nil {
		return nil, err
	}
	pa.SetListAndIndex(0, p.list, 0)
	pa.SetTempRating(p.rating)
	return pa, nil
}

// chanceStub: temp ratings 1..4 have a lower chance than rating 0 ("bad rating"); 0 and >=5 are good.
type chanceStub struct{}

func (chanceStub) GetChance(r uint32) uint32 {
	if r == 0 || r >= 5 {
		return 5
	}
	return r
}
func (chanceStub) IsInterfaceNil() bool { return false }

type cryptoStub struct{}

func (cryptoStub) Sha256(d []byte) ([]byte, error)                           { return d, nil }
func (cryptoStub) Keccak256(d []byte) ([]byte, error)                        { return d, nil }
func (cryptoStub) Ripemd160(d []byte) ([]byte, error)                        { return d, nil }
func (cryptoStub) Ecrecover(h, _ []byte, _ []byte, _ []byte) ([]byte, error) { return h, nil }
func (cryptoStub) IsInterfaceNil() bool                                      { return false }

type epochs struct {
	cur      uint32
	handlers []core.EpochSubscriberHandler
}

func (e *epochs) RegisterNotifyHandler(h core.EpochSubscriberHandler) {
	e.handlers = append(e.handlers, h)
	h.EpochConfirmed(e.cur, 0)
}
func (e *epochs) CurrentEpoch() uint32          { return e.cur }
func (e *epochs) CheckEpoch(data.HeaderHandler) {}
func (e *epochs) IsInterfaceNil() bool          { return e == nil }
func (e *epochs) set(epoch uint32) {
	e.cur = epoch
	for _, h := range e.handlers {
		h.EpochConfirmed(epoch, 0)
	}
}

type nodesCfg struct{ min uint32 }

func (n nodesCfg) MinNumberOfNodes() uint32               { return n.min }
func (n nodesCfg) MinNumberOfNodesWithHysteresis() uint32 { return n.min }
func (n nodesCfg) IsInterfaceNil() bool                   { return false }

// ---------------------------------------------------------------------------------------------
// env: real eei + real container + real systemVM over the chain stub, and the VMOutput applier
// ---------------------------------------------------------------------------------------------

type envCfg struct {
	nodePrice, minStake, unJail, minDeposit, minDelegation, baseIssue int64
	unBondNonces                                                      uint64
	unBondEpochs                                                      uint32
	maxNodes, minNodes                                                uint64
	minFee, maxFee                                                    uint64
	epochs                                                            config.EnableEpochs
	gas                                                               map[string]uint64 // overrides of MetaChainSystemSCsCost entries
}

type env struct {
	c       *simkit.Ctx
	ch      *chain
	ep      *epochs
	eei     vm.ContextHandler // the real vmContext
	spy     *spy
	cont    vm.SystemSCContainer
	svm     vmcommon.VMExecutionHandler
	marsh   marshal.Marshalizer
	cfg     envCfg
	mgrInit bool
	// overdraftProbe: address whose negative balance is counted (the delegation contract of a deleg run)
	overdraftProbe []byte
}

var hexConv, _ = pubkeyConverter.NewHexPubkeyConverter(32)

func cfgChangeAddr() []byte { return userAddr(200) }

// userAddr returns a 32-byte wallet address (not a smart-contract address).
func userAddr(i int) []byte {
	a := make([]byte, 32)
	for j := range a {
		a[j] = byte(0x40 + i)
	}
	a[0] = 0xa0 + byte(i%16)
	a[31] = byte(i)
	return a
}

// blsKey returns a 96-byte key for a small id.
func blsKey(i int) []byte {
	k := make([]byte, 96)
	for j := range k {
		k[j] = byte(0x10 + i)
	}
	k[0] = 0xb0
	k[1] = byte(i)
	return k
}

func newEnv(c *simkit.Ctx, cfg envCfg) *env {
	e := &env{c: c, ch: newChain(), marsh: &marshal.GogoProtoMarshalizer{}, cfg: cfg}
	if !e.build() {
		return nil
	}
	// genesis: every contract of the container that is usable gets its init call, as deploySystemSmartContracts does
	for _, addr := range [][]byte{vm.StakingSCAddress, vm.ValidatorSCAddress, vm.ESDTSCAddress, vm.GovernanceSCAddress} {
		if !e.create(addr) {
			c.HarnessErr("genesis init of %x failed", addr)
			return nil
		}
	}
	e.maybeInitManager()
	e.ch.nonce = 1
	e.ch.round = 1
	return e
}

// restart models a node restart with a changed configuration: the eei, the system contracts and the systemVM
// are created again (e.cfg) over the same chain state; nothing is initialised again.
func (e *env) restart() bool {
	old := e.spy
	if !e.build() {
		return false
	}
	e.spy.failedNested, e.spy.failedDeep, e.spy.okTxAfterFailedWrites = old.failedNested, old.failedDeep, old.okTxAfterFailedWrites
	return true
}

// build creates eei, spy, container and systemVM for e.cfg over e.ch at the current epoch.
func (e *env) build() bool {
	c, cfg := e.c, e.cfg
	e.ep = &epochs{cur: e.ch.epoch}
	accounts := &testscommon.AccountsStub{GetExistingAccountCalled: e.ch.peerAccount}
	real, err := systemSmartContracts.NewVMContext(e.ch, cryptoStub{}, parsers.NewCallArgsParser(), accounts, chanceStub{})
	if err != nil {
		c.HarnessErr("NewVMContext: %v", err)
		return false
	}
	e.eei = real
	e.spy = newSpy(c, real, e.ch)
	gasMap := defaults.FillGasMapInternal(map[string]map[string]uint64{}, 1)
	names := make([]string, 0, len(cfg.gas))
	for k := range cfg.gas {
		names = append(names, k)
	}
	sort.Strings(names)
	for _, k := range names {
		gasMap[core.MetaChainSystemSCsCost][k] = cfg.gas[k]
	}
	gasMap[core.ElrondAPICost] = map[string]uint64{core.AsyncCallStepField: 1, core.AsyncCallbackGasLockField: 1}
	gasSchedule := mock.NewGasScheduleNotifierMock(gasMap)
	s := func(v int64) string { return big.NewInt(v).String() }
	epochCfg := &config.EpochConfig{EnableEpochs: cfg.epochs}
	args := vmFactory.ArgsNewSystemSCFactory{
		SystemEI:            e.spy,
		Economics:           &mock.EconomicsHandlerStub{},
		NodesConfigProvider: nodesCfg{min: uint32(cfg.minNodes)},
		SigVerifier:         &mock.MessageSignVerifierMock{},
		GasSchedule:         gasSchedule,
		Marshalizer:         e.marsh,
		Hasher:              blake2b.NewBlake2b(),
		SystemSCConfig: &config.SystemSmartContractsConfig{
			ESDTSystemSCConfig: config.ESDTSystemSCConfig{BaseIssuingCost: s(cfg.baseIssue), OwnerAddress: "aaaaaa"},
			GovernanceSystemSCConfig: config.GovernanceSystemSCConfig{
				Active:                  config.GovernanceSystemSCConfigActive{ProposalCost: "500", MinQuorum: "50", MinPassThreshold: "50", MinVetoThreshold: "50"},
				FirstWhitelistedAddress: hexConv.Encode(userAddr(201)),
			},
			StakingSystemSCConfig: config.StakingSystemSCConfig{
				GenesisNodePrice: s(cfg.nodePrice), UnJailValue: s(cfg.unJail), MinStepValue: "1", MinStakeValue: s(cfg.minStake),
				UnBondPeriod: cfg.unBondNonces, UnBondPeriodInEpochs: cfg.unBondEpochs, NumRoundsWithoutBleed: 1,
				MaximumPercentageToBleed: 1, BleedPercentagePerRound: 1, MaxNumberOfNodesForStake: cfg.maxNodes,
				ActivateBLSPubKeyMessageVerification: false, MinUnstakeTokensValue: "1",
			},
			DelegationSystemSCConfig: config.DelegationSystemSCConfig{MinServiceFee: cfg.minFee, MaxServiceFee: cfg.maxFee},
			DelegationManagerSystemSCConfig: config.DelegationManagerSystemSCConfig{
				MinCreationDeposit: s(cfg.minDeposit), MinStakeAmount: s(cfg.minDelegation), ConfigChangeAddress: hexConv.Encode(cfgChangeAddr()),
			},
		},
		EpochNotifier:          e.ep,
		AddressPubKeyConverter: hexConv,
		EpochConfig:            epochCfg,
		ShardCoordinator:       &mock.ShardCoordinatorStub{},
	}
	f, err := vmFactory.NewSystemSCFactory(args)
	if err != nil {
		c.HarnessErr("NewSystemSCFactory: %v", err)
		return false
	}
	e.cont, err = f.Create()
	if err != nil {
		c.HarnessErr("systemSCFactory.Create: %v", err)
		return false
	}
	// the factory registered the spy's container on the spy; the real eei needs it as well (spy forwards it)
	e.svm, err = vmProcess.NewSystemVM(vmProcess.ArgsNewSystemVM{SystemEI: e.spy, SystemContracts: e.cont, VmType: []byte{0, 1}, GasSchedule: gasSchedule})
	if err != nil {
		c.HarnessErr("NewSystemVM: %v", err)
		return false
	}
	return true
}

// maybeInitManager runs the delegation manager's init once it is enabled (systemSCProcessor.initDelegationSystemSC).
func (e *env) maybeInitManager() {
	if e.mgrInit || e.ch.epoch < e.cfg.epochs.DelegationManagerEnableEpoch {
		return
	}
	if e.create(vm.DelegationManagerSCAddress) {
		e.mgrInit = true
	}
}

func (e *env) create(addr []byte) bool {
	e.spy.beginTx(addr, "_init")
	out, err := e.svm.RunSmartContractCreate(&vmcommon.ContractCreateInput{
		VMInput:      vmcommon.VMInput{CallerAddr: addr, CallValue: big.NewInt(0), Arguments: [][]byte{}},
		ContractCode: addr,
	})
	if err != nil || out == nil || out.ReturnCode != vmcommon.Ok {
		return false
	}
	e.spy.endTx(out)
	e.apply(out)
	return true
}

func (e *env) setEpoch(epoch uint32) {
	e.ch.epoch = epoch
	e.ep.set(epoch)
	e.maybeInitManager()
}

type txRes struct {
	out *vmcommon.VMOutput
	ok  bool
	rc  vmcommon.ReturnCode
}

// delta returns the balance delta the output carries for addr.
func (r *txRes) delta(addr []byte) *big.Int {
	if r.out == nil {
		return big.NewInt(0)
	}
	if oa := r.out.OutputAccounts[string(addr)]; oa != nil && oa.BalanceDelta != nil {
		return big.NewInt(0).Set(oa.BalanceDelta)
	}
	return big.NewInt(0)
}

// call runs one transaction through the real systemVM. apply=false is a query (output never applied).
func (e *env) call(caller, dest []byte, fn string, args [][]byte, value *big.Int, gas uint64, apply bool) *txRes {
	in := &vmcommon.ContractCallInput{
		VMInput: vmcommon.VMInput{
			CallerAddr:  append(make([]byte, 0, len(caller)), caller...),
			CallValue:   big.NewInt(0).Set(value),
			GasProvided: gas,
		},
		RecipientAddr: append([]byte(nil), dest...),
		Function:      fn,
	}
	for _, a := range args {
		in.Arguments = append(in.Arguments, append(make([]byte, 0, len(a)), a...))
	}
	return e.callIn(in, apply)
}

// callIn runs a prepared input (the caller keeps the argument buffers).
func (e *env) callIn(in *vmcommon.ContractCallInput, apply bool) *txRes {
	caller, value := append([]byte(nil), in.CallerAddr...), big.NewInt(0).Set(in.CallValue)
	e.spy.beginTx(in.RecipientAddr, in.Function)
	out, err := e.svm.RunSmartContractCall(in)
	res := &txRes{out: out, rc: vmcommon.ExecutionFailed}
	if err != nil || out == nil {
		e.spy.abortTx()
		return res
	}
	res.rc = out.ReturnCode
	res.ok = out.ReturnCode == vmcommon.Ok
	e.spy.endTx(out)
	if res.ok && apply {
		// the transaction processor moved the call value out of the sender before the VM ran
		ca := e.ch.acct(caller)
		ca.balance.Sub(ca.balance, value)
		e.apply(out)
	}
	if out.ReturnCode == vmcommon.OutOfGas {
		e.c.Fault("out_of_gas")
	}
	return res
}

// apply is the stand-in for scProcessor.processSCOutputAccounts: storage updates, balance deltas, code.
// It is only called for return code Ok; any other output is discarded by the caller, as the protocol does.
func (e *env) apply(out *vmcommon.VMOutput) {
	addrs := make([]string, 0, len(out.OutputAccounts))
	for a := range out.OutputAccounts {
		addrs = append(addrs, a)
	}
	sort.Strings(addrs)
	for _, a := range addrs {
		oa := out.OutputAccounts[a]
		ac := e.ch.acct([]byte(a))
		keys := make([]string, 0, len(oa.StorageUpdates))
		for k := range oa.StorageUpdates {
			keys = append(keys, k)
		}
		sort.Strings(keys)
		for _, k := range keys {
			su := oa.StorageUpdates[k]
			if len(su.Data) == 0 {
				delete(ac.storage, k)
			} else {
				ac.storage[k] = append([]byte(nil), su.Data...)
			}
		}
		if oa.BalanceDelta != nil {
			ac.balance.Add(ac.balance, oa.BalanceDelta)
			if ac.balance.Sign() < 0 && e.overdraftProbe != nil && bytes.Equal([]byte(a), e.overdraftProbe) {
				e.c.Probe("delegation_contract_overdraft")
			}
		}
		if len(oa.Code) > 0 {
			ac.code = append([]byte(nil), oa.Code...)
		}
	}
}

// fingerprint of the whole chain state (sorted).
func (e *env) fp() {
	addrs := make([]string, 0, len(e.ch.accts))
	for a := range e.ch.accts {
		addrs = append(addrs, a)
	}
	sort.Strings(addrs)
	var b bytes.Buffer
	for _, a := range addrs {
		ac := e.ch.accts[a]
		keys := make([]string, 0, len(ac.storage))
		for k := range ac.storage {
			keys = append(keys, k)
		}
		sort.Strings(keys)
		fmt.Fprintf(&b, "%x:", a)
		for _, k := range keys {
			fmt.Fprintf(&b, "%x=%x,", k, ac.storage[k])
		}
	}
	e.c.FPBytes(b.Bytes())
}

func bi(v int64) *big.Int { return big.NewInt(v) }

func bytesOf(v int64) []byte { return big.NewInt(v).Bytes() }

func toBig(b []byte) *big.Int { return big.NewInt(0).SetBytes(b) }
