package scsim

import (
	"bytes"
	"fmt"
	"math/big"
	"sort"
	"strings"

	"github.com/ElrondNetwork/elrond-go/vm"
	vmcommon "github.com/ElrondNetwork/elrond-vm-common"

	"verifsim/simkit"
)

// spy is a transparent vm.ContextHandler placed between the system contracts (and the systemVM) and the real
// vmContext. Every call is forwarded unchanged; the spy only records, per nested-call frame, which storage
// keys were written (with the value visible just before the first write) and which transfers were made. That
// record is the oracle of C40:
//   - right after a nested ExecuteOnDestContext that failed, every key written inside it must read (through the
//     real GetStorageFromAddress) the value it had before the call;
//   - the final VMOutput of a transaction that ends Ok must not carry a storage value or a transfer that only a
//     failed nested call produced.
type spy struct {
	c    *simkit.Ctx
	real vm.ContextHandler
	ch   *chain

	frames []*frame
	fn     string
	// dead effects of the current transaction
	deadWrites               map[string][][]byte // addr|key -> values written only by failed calls
	deadXfer                 map[string]*big.Int // destination -> sum transferred only by failed calls
	opaque                   map[string]bool     // addresses whose balance also moves through channels the spy does not model as transfers
	liveXfer                 map[string]*big.Int // address -> net delta by transfers of calls that did not fail
	failedNested, failedDeep int
	// okTxAfterFailedWrites counts transactions that ended Ok although a nested call had failed after writing
	okTxAfterFailedWrites int
}

type write struct {
	id  string
	val []byte
}

type xfer struct {
	from, to string
	v        *big.Int
}

type frame struct {
	addr    []byte
	depth   int
	touched map[string][]byte // id -> value visible before the first write inside this frame
	order   []string
	writes  []write
	xfers   []xfer
	overlay map[string][]byte
}

func newSpy(c *simkit.Ctx, real vm.ContextHandler, ch *chain) *spy {
	return &spy{c: c, real: real, ch: ch}
}

// sid builds the map key of (address, storage key); the length prefix keeps it unambiguous.
func sid(addr, key []byte) string {
	return string([]byte{byte(len(addr))}) + string(addr) + string(key)
}

func splitID(id string) (addr, key []byte) {
	n := int(id[0])
	return []byte(id[1 : 1+n]), []byte(id[1+n:])
}

// short prints a key or value: text if printable and short, else the first bytes in hex.
func short(b []byte) string {
	printable := len(b) <= 24
	for _, ch := range b {
		if ch < 0x20 || ch > 0x7e {
			printable = false
		}
	}
	if printable {
		return fmt.Sprintf("%q", b)
	}
	if len(b) > 10 {
		return fmt.Sprintf("%x..(%d bytes)", b[:10], len(b))
	}
	return fmt.Sprintf("%x", b)
}

func sameBytes(a, b []byte) bool { return (len(a) == 0 && len(b) == 0) || bytes.Equal(a, b) }

func (s *spy) beginTx(dest []byte, fn string) {
	s.frames = []*frame{{addr: dest, touched: map[string][]byte{}, overlay: map[string][]byte{}}}
	s.fn = fn
	s.deadWrites = map[string][][]byte{}
	s.deadXfer = map[string]*big.Int{}
	s.opaque = map[string]bool{}
	s.liveXfer = map[string]*big.Int{}
}

func (s *spy) abortTx() { s.frames = nil }

func (s *spy) top() *frame {
	if len(s.frames) == 0 {
		// a call outside beginTx/endTx (construction time): keep a scratch frame
		s.frames = []*frame{{touched: map[string][]byte{}, overlay: map[string][]byte{}}}
		s.deadWrites, s.deadXfer, s.opaque, s.liveXfer = map[string][][]byte{}, map[string]*big.Int{}, map[string]bool{}, map[string]*big.Int{}
	}
	return s.frames[len(s.frames)-1]
}

func addTo(m map[string]*big.Int, k string, v *big.Int) {
	if m[k] == nil {
		m[k] = big.NewInt(0)
	}
	m[k].Add(m[k], v)
}

// endTx checks the final output of a transaction.
func (s *spy) endTx(out *vmcommon.VMOutput) {
	defer func() { s.frames = nil }()
	if out == nil || out.ReturnCode != vmcommon.Ok || len(s.frames) == 0 {
		return
	}
	root := s.frames[0]
	for _, x := range root.xfers {
		addTo(s.liveXfer, x.to, x.v)
		addTo(s.liveXfer, x.from, big.NewInt(0).Neg(x.v))
	}
	if len(s.deadWrites) == 0 && len(s.deadXfer) == 0 {
		return
	}
	s.okTxAfterFailedWrites++
	s.c.Probe("tx_ok_after_nested_call_failed_with_effects")
	addrs := make([]string, 0, len(out.OutputAccounts))
	for a := range out.OutputAccounts {
		addrs = append(addrs, a)
	}
	sort.Strings(addrs)
	for _, a := range addrs {
		oa := out.OutputAccounts[a]
		keys := make([]string, 0, len(oa.StorageUpdates))
		for k := range oa.StorageUpdates {
			keys = append(keys, k)
		}
		sort.Strings(keys)
		for _, k := range keys {
			id := sid([]byte(a), []byte(k))
			dead := s.deadWrites[id]
			if len(dead) == 0 {
				continue
			}
			data := oa.StorageUpdates[k].Data
			want, has := root.overlay[id]
			if !has {
				want = s.ch.storageOf([]byte(a), []byte(k))
			}
			if sameBytes(data, want) {
				continue
			}
			for _, d := range dead {
				if sameBytes(d, data) {
					s.c.Violate("C40", "failed-write-in-vmoutput", s.fn,
						"final VMOutput (return code Ok) of %s carries storage %x[%s]=%s which only a failed nested call wrote; value without that call: %s",
						s.fn, a, short([]byte(k)), short(data), short(want))
					return
				}
			}
		}
	}
	dests := make([]string, 0, len(s.deadXfer))
	for d := range s.deadXfer {
		dests = append(dests, d)
	}
	sort.Strings(dests)
	for _, d := range dests {
		if s.opaque[d] {
			continue
		}
		want := big.NewInt(0)
		if s.liveXfer[d] != nil {
			want = s.liveXfer[d]
		}
		got := big.NewInt(0)
		if oa := out.OutputAccounts[d]; oa != nil && oa.BalanceDelta != nil {
			got = oa.BalanceDelta
		}
		if got.Cmp(want) != 0 {
			s.c.Violate("C40", "failed-transfer-in-vmoutput", s.fn,
				"final VMOutput (return code Ok) of %s moves %s to %x; transfers of calls that did not fail sum to %s, failed nested calls transferred %s",
				s.fn, got, d, want, s.deadXfer[d])
			return
		}
	}
}

// ------------------------------------------------------------------ intercepted calls

func (s *spy) SetStorageForAddress(address []byte, key []byte, value []byte) {
	f := s.top()
	id := sid(address, key)
	if _, ok := f.touched[id]; !ok {
		f.touched[id] = append([]byte(nil), s.real.GetStorageFromAddress(address, key)...)
		f.order = append(f.order, id)
	}
	v := append([]byte(nil), value...)
	f.overlay[id] = v
	f.writes = append(f.writes, write{id: id, val: v})
	s.real.SetStorageForAddress(address, key, value)
}

func (s *spy) SetStorage(key []byte, value []byte) {
	f := s.top()
	id := sid(f.addr, key)
	if _, ok := f.touched[id]; !ok {
		f.touched[id] = append([]byte(nil), s.real.GetStorage(key)...)
		f.order = append(f.order, id)
	}
	v := append([]byte(nil), value...)
	f.overlay[id] = v
	f.writes = append(f.writes, write{id: id, val: v})
	s.real.SetStorage(key, value)
}

func (s *spy) Transfer(destination []byte, sender []byte, value *big.Int, input []byte, gasLimit uint64) error {
	f := s.top()
	f.xfers = append(f.xfers, xfer{from: string(sender), to: string(destination), v: big.NewInt(0).Set(value)})
	return s.real.Transfer(destination, sender, value, input, gasLimit)
}

func (s *spy) ExecuteOnDestContext(destination []byte, sender []byte, value *big.Int, input []byte) (*vmcommon.VMOutput, error) {
	parent := s.top()
	child := &frame{addr: append([]byte(nil), destination...), depth: parent.depth + 1, touched: map[string][]byte{}, overlay: map[string][]byte{}}
	s.frames = append(s.frames, child)
	if value != nil && value.Sign() != 0 {
		s.opaque[string(destination)] = true
		s.opaque[string(sender)] = true
	}
	out, err := s.real.ExecuteOnDestContext(destination, sender, value, input)
	s.frames = s.frames[:len(s.frames)-1]
	failed := err != nil || out == nil || out.ReturnCode != vmcommon.Ok
	if !failed {
		for _, id := range child.order {
			if _, ok := parent.touched[id]; !ok {
				parent.touched[id] = child.touched[id]
				parent.order = append(parent.order, id)
			}
		}
		for id, v := range child.overlay {
			parent.overlay[id] = v
		}
		parent.writes = append(parent.writes, child.writes...)
		parent.xfers = append(parent.xfers, child.xfers...)
		return out, err
	}
	s.failedNested++
	s.c.Probe("nested_call_failed")
	if child.depth > 1 {
		s.failedDeep++
		s.c.Probe("nested_failure_at_depth_gt1")
	}
	if len(child.writes) > 0 {
		s.c.Probe("nested_call_failed_after_writes")
	}
	if value != nil && value.Sign() > 0 {
		s.c.Probe("call_value_of_failed_call_stays_moved")
	}
	fn := string(input)
	if i := strings.IndexByte(fn, '@'); i >= 0 {
		fn = fn[:i]
	}
	for _, w := range child.writes {
		s.deadWrites[w.id] = append(s.deadWrites[w.id], w.val)
	}
	for _, x := range child.xfers {
		addTo(s.deadXfer, x.to, x.v)
	}
	for _, id := range child.order {
		a, k := splitID(id)
		cur := s.real.GetStorageFromAddress(a, k)
		if !sameBytes(cur, child.touched[id]) {
			s.c.Violate("C40", "storage-survives-failed-call", fn,
				"after the failed nested call %q (depth %d) to %x, GetStorageFromAddress(%x, %s) = %s, before the call it was %s",
				fn, child.depth, destination, a, short(k), short(cur), short(child.touched[id]))
			break
		}
	}
	return out, err
}

func (s *spy) DeploySystemSC(baseContract []byte, newAddress []byte, ownerAddress []byte, initFunction string, value *big.Int, input [][]byte) (vmcommon.ReturnCode, error) {
	f := s.top()
	old := f.addr
	s.opaque[string(old)] = true
	s.opaque[string(newAddress)] = true
	f.addr = append([]byte(nil), newAddress...)
	rc, err := s.real.DeploySystemSC(baseContract, newAddress, ownerAddress, initFunction, value, input)
	f.addr = old
	return rc, err
}

func (s *spy) SetSCAddress(addr []byte) {
	if len(s.frames) > 0 {
		s.frames[len(s.frames)-1].addr = append([]byte(nil), addr...)
	}
	s.real.SetSCAddress(addr)
}

func (s *spy) AddTxValueToSmartContract(value *big.Int, scAddress []byte) {
	if s.opaque != nil {
		s.opaque[string(scAddress)] = true
	}
	s.real.AddTxValueToSmartContract(value, scAddress)
}

func (s *spy) SendGlobalSettingToAll(sender []byte, input []byte) {
	s.real.SendGlobalSettingToAll(sender, input)
}

// ------------------------------------------------------------------ plain forwarding

func (s *spy) GetBalance(addr []byte) *big.Int { return s.real.GetBalance(addr) }
func (s *spy) AddReturnMessage(msg string)     { s.real.AddReturnMessage(msg) }
func (s *spy) GetStorage(key []byte) []byte    { return s.real.GetStorage(key) }
func (s *spy) GetStorageFromAddress(address []byte, key []byte) []byte {
	return s.real.GetStorageFromAddress(address, key)
}
func (s *spy) Finish(value []byte)               { s.real.Finish(value) }
func (s *spy) UseGas(gasToConsume uint64) error  { return s.real.UseGas(gasToConsume) }
func (s *spy) GasLeft() uint64                   { return s.real.GasLeft() }
func (s *spy) BlockChainHook() vm.BlockchainHook { return s.real.BlockChainHook() }
func (s *spy) CryptoHook() vmcommon.CryptoHook   { return s.real.CryptoHook() }
func (s *spy) IsValidator(blsKey []byte) bool    { return s.real.IsValidator(blsKey) }
func (s *spy) StatusFromValidatorStatistics(blsKey []byte) string {
	return s.real.StatusFromValidatorStatistics(blsKey)
}
func (s *spy) CanUnJail(blsKey []byte) bool   { return s.real.CanUnJail(blsKey) }
func (s *spy) IsBadRating(blsKey []byte) bool { return s.real.IsBadRating(blsKey) }
func (s *spy) CleanStorageUpdates()           { s.real.CleanStorageUpdates() }
func (s *spy) IsInterfaceNil() bool           { return s == nil }
func (s *spy) GetContract(address []byte) (vm.SystemSmartContract, error) {
	return s.real.GetContract(address)
}
func (s *spy) SetSystemSCContainer(scContainer vm.SystemSCContainer) error {
	return s.real.SetSystemSCContainer(scContainer)
}
func (s *spy) CreateVMOutput() *vmcommon.VMOutput { return s.real.CreateVMOutput() }
func (s *spy) CleanCache()                        { s.real.CleanCache() }
func (s *spy) AddCode(addr []byte, code []byte)   { s.real.AddCode(addr, code) }
func (s *spy) SetGasProvided(gasProvided uint64)  { s.real.SetGasProvided(gasProvided) }
