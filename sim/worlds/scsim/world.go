// Package scsim is world W12: the metachain system smart contracts (delegation manager, delegation, validator,
// staking, esdt) running inside the real vmContext / systemVM over a simulator-owned chain stub (C38-C41).
package scsim

import (
	"github.com/ElrondNetwork/elrond-go/config"

	"verifsim/simkit"
)

// run kinds (knob "run")
const (
	runDeleg = 1
	runStake = 2
	runSynth = 3
	runEsdt  = 4
)

// World implements simkit.World.
type World struct{}

func (World) Name() string         { return "scsim" }
func (World) Properties() []string { return []string{"C38", "C39", "C40", "C41"} }

func (World) Real(prop string) []string {
	r := []string{"vm/systemSmartContracts.vmContext (eei: storage cache, output accounts, ExecuteOnDestContext, DeploySystemSC, CreateVMOutput)",
		"vm/process.systemVM (RunSmartContractCall / RunSmartContractCreate: context clean-up, call value, gas)",
		"vm/factory.systemSCFactory.Create + SystemSCContainer (staking, validator, esdt, governance, delegationManager, delegation template)",
		"elrond-vm-common/parsers.CallArgsParser, marshal.GogoProtoMarshalizer, hashing/blake2b, data/state.peerAccount (peer list answers)"}
	switch prop {
	case "C38":
		r = append(r, "delegationManager.createNewDelegationContract -> DeploySystemSC -> delegation.init; delegation (delegate, unDelegate, withdraw, claimRewards, reDelegateRewards, updateRewards, node and config functions, view functions); validator (stake, unStakeTokens, unBondTokens, unStakeNodes, unBondNodes, unJail, reStakeUnStakedNodes); staking")
	case "C39":
		r = append(r, "validator (stake, unStake, unStakeNodes, unBond, unBondNodes, unJail, reStakeUnStakedNodes, unStakeTokens, unBondTokens) -> staking (stake/register, unStake, unBond, unJail, jail, switchJailedWithWaiting, stakeNodesFromQueue, unStakeAtEndOfEpoch, updateConfigMaxNodes/MinNodes, resetLastUnJailedFromQueue, cleanAdditionalQueue)")
	case "C40":
		r = append(r, "nested calls through vmContext.ExecuteOnDestContext (copyToNewContext / softCleanCache / mergeContext), between synthetic contracts registered in the real container and between validator -> staking, delegation -> validator -> staking")
	case "C41":
		r = append(r, "esdt.issue / issueSemiFungible / issueNonFungible -> createNewToken -> createNewTokenIdentifier")
	}
	return r
}

func (World) Stub(prop string) []string {
	s := []string{"vm.BlockchainHook: account / storage / code map of the harness with logical nonce, round, epoch and a simulator-owned CurrentRandomSeed",
		"applier of VMOutput (stand-in for scProcessor.processSCOutputAccounts): on return code Ok writes storage updates, balance deltas and code into the map, otherwise discards the output; it does not refuse an overdraft of a contract account (counted as probe delegation_contract_overdraft for the delegation contract)",
		"epoch notifier (delivers EpochConfirmed for the logical epoch), gas schedule notifier (constant costs from knobs), economics (total supply), nodes-config provider (min nodes), shard coordinator, message-signature verifier (accepts), crypto hook (unused)",
		"validator statistics: peer accounts answered from a table key -> (list, temp rating) set by plan steps; chance computer table",
		"protocol callers: the driver sends the end-of-epoch / jailing calls (updateRewards, jail, switchJailedWithWaiting, stakeNodesFromQueue, unStakeAtEndOfEpoch, updateConfigMaxNodes/MinNodes) from the reserved addresses and runs the delegation manager init at its enable epoch, as epochStart/metachain/systemSCs.go does",
		"spy: a forwarding vm.ContextHandler between contracts and vmContext that records per nested-call frame the keys written and transfers made (observation only)"}
	if prop == "C40" {
		s = append(s, "synthetic contracts S0..S3 (harness code implementing vm.SystemSmartContract) whose programs are plan steps: write own / foreign storage, transfer, call a deeper contract, fail or run out of gas at a planned point")
	}
	if prop == "C41" {
		s = append(s, "pre-existing identifiers: plan steps write token records directly under TICKER-xxxxxx keys of the esdt account before an issue")
	}
	return s
}

func (World) Assumptions(prop string) []string {
	a := []string{"one metachain, one transaction at a time; a transaction's VMOutput is applied only when its return code is Ok",
		"activation epochs, prices, unbond periods, gas costs and node limits are knobs of the plan"}
	switch prop {
	case "C38":
		a = append(a, "sums are taken over the owner and the delegators of the run (the only callers); view functions first (getTotalActiveStake, getUserActiveStake, getTotalUnStaked, getUserUnStakedValue), then GlobalFundData / DelegatorData / Fund decoded from the harness storage",
			"payments are measured at the contract boundary: balance delta of the caller in the Ok output of withdraw / claimRewards, increase of the caller's active stake by reDelegateRewards, call value of updateRewards, argument of unDelegate. The stand-in applier does not reject an overdraft, so 'rewards paid > rewards received' means the contract returned Ok for a payment it never received funds for",
			"updateRewards is sent by the end-of-epoch address at arbitrary points of an epoch, at most once per epoch")
	case "C39":
		a = append(a, "registered keys = the BLS keys of the plan (nobody else calls); records decoded with StakedDataV2_0 (V1_0 / V1_1 are field prefixes of it)",
			"precondition kept by the driver as the protocol does: stakeNodesFromQueue is sent with at most MaxNumNodes - StakedNodes nodes",
			"the clause StakedNodes <= MaxNumNodes is not evaluated any more after a successful updateConfigMaxNodes that lowered the maximum",
			"well-formed = following NextKey from FirstKey visits Length distinct elements stored under w_<key>, ends at LastKey with an empty NextKey, each element's PreviousKey is the key of the element before it (the first element points to itself by the contract's convention; not demanded), LastJailedKey is empty or the key of a visited element")
	case "C40":
		a = append(a, "the call value moved by ExecuteOnDestContext itself before the callee runs is not counted as a transfer of the inner call (probe call_value_of_failed_call_stays_moved); only storage writes and eei.Transfer calls made while the failed callee (or its callees) ran are",
			"the final-output clause is evaluated only for transactions that end Ok (a caller that continued) and only for balance deltas of addresses whose balance moves by eei.Transfer alone")
	case "C41":
		a = append(a, "identifier of an issue = the identifier handed back (return data for semi/non-fungible, ESDTTransfer data for fungible) and every key that newly appears in the esdt account; each is judged from the property text alone: 3-10 upper-case ASCII letters or digits, '-', six lower-case hex digits, and its ticker part is the requested ticker. Issues the contract refuses (illegal tickers) demand nothing",
			"candidates derive from blake2b(caller || seed)[:3]; seeds near ffffff come from a table searched offline, collisions are made by pre-existing records",
			"overwriting spare capacity of the caller / ticker argument buffers is not part of the statement: counted as probe arg_spare_capacity_overwritten")
	}
	return a
}

func (World) Rule(prop string) string {
	switch prop {
	case "C38":
		return "one delegation contract created through the manager, owner + 2-4 delegators, 10-80 transactions (delegate, unDelegate [literal / all / leaving dust / leaving the minimum], withdraw, claimRewards, reDelegateRewards, updateRewards, add/stake/unStake/unBond/reStake/unJail nodes, cap, fee, automatic activation, min delegation change, jail), epoch ticks, gas limits swept on some steps, final claim/withdraw sweep in most runs; non-trivial = a non-owner delegated, somebody undelegated, rewards arrived and a claim or withdrawal paid out; distinct = hash of full plan"
	case "C39":
		return "3-8 BLS keys of 1-3 owners, max nodes 1-4, min nodes 1-max, 10-80 calls through validator (stake with top-up, unStake, unStakeNodes, unBond, unBondNodes, unJail, reStakeUnStakedNodes, unStakeTokens, unBondTokens) and protocol calls to staking (jail, switchJailedWithWaiting, stakeNodesFromQueue, unStakeAtEndOfEpoch, updateConfigMaxNodes, updateConfigMinNodes, resetLastUnJailedFromQueue, cleanAdditionalQueue), peer-list changes, nonce/epoch ticks, activation epochs drawn per run; non-trivial = the waiting list was non-empty at a check and a key left the staked or waiting set; distinct = hash of full plan"
	case "C40":
		return "arm synth: 2-4 synthetic contracts with 2-8 program ops each (set, del, foreign set, transfer, nested call with/without value, planned failure always or at the n-th invocation, gas use), pre-existing storage, 1-2 transactions, gas limit swept in the gas arm; arms stake / deleg: the C39 / C38 run types with their real nested calls; non-trivial = a nested call failed after writing storage or transferring and the transaction still ended Ok (caller continued); distinct = hash of full plan"
	case "C41":
		return "3-14 issue calls (fungible, semi-fungible, non-fungible) by 1-3 callers with tickers that are legal (3-10 characters A-Z/0-9), legal except for 1-2 bytes drawn from all 256 values, arbitrary bytes of length 0-14 (mostly 1-3 and 10-12), or printable but outside the alphabet; per call a random seed that is fresh, repeated, or taken from the near-ffffff table; before some issues 1-60 consecutive identifiers starting at the candidate are made pre-existing; non-trivial = >=2 successful issues of which one had to retry or met the ffffff boundary; distinct = hash of full plan"
	}
	return ""
}

func (World) Budget(prop, tier string) int {
	q := map[string]int{"C38": 7000, "C39": 9000, "C40": 14000, "C41": 20000}[prop]
	if tier == "thorough" {
		return q * 30
	}
	return q
}

func (World) Generate(r *simkit.Rand, prop, tier string, race bool) *simkit.Plan {
	switch prop {
	case "C38":
		return genDeleg(r, "C38")
	case "C39":
		return genStake(r, "C39")
	case "C40":
		switch r.Weighted([]int{6, 3, 1}) {
		case 0:
			return genSynth(r)
		case 1:
			return genStake(r, "C40")
		default:
			return genDeleg(r, "C40")
		}
	case "C41":
		return genEsdt(r)
	}
	return nil
}

func (World) Execute(c *simkit.Ctx) bool {
	switch c.Plan.Knob("run", 0) {
	case runDeleg:
		return execDeleg(c)
	case runStake:
		return execStake(c)
	case runSynth:
		return execSynth(c)
	case runEsdt:
		return execEsdt(c)
	}
	c.HarnessErr("plan without run kind")
	return false
}

// knobs shared by all run kinds -------------------------------------------------------------------

func genCommonKnobs(r *simkit.Rand, p *simkit.Plan) {
	k := p.Knobs
	pick := func(v ...int64) int64 { return v[r.Intn(len(v))] }
	k["node_price"] = pick(100, 100, 250, 1000)
	k["min_delegation"] = pick(1, 10, 10, 25)
	k["min_deposit"] = pick(50, 100, 100, 300)
	k["unjail"] = pick(5, 15)
	k["unbond_epochs"] = pick(0, 1, 1, 2, 3)
	k["unbond_nonces"] = pick(0, 2, 5)
	k["max_nodes"] = int64(r.Range(1, 4))
	k["min_nodes"] = int64(r.Range(1, int(k["max_nodes"])))
	k["max_fee"] = pick(100, 10000)
	k["ep_stakingv2"] = pick(0, 0, 0, 1, 2)
	k["ep_stake"] = pick(0, 0, 0, 1)
	k["ep_mgr"] = pick(0, 0, 1)
	k["ep_deleg"] = pick(0, 0, 1)
	k["ep_redeleg_min"] = pick(0, 2, 1000)
	k["ep_unbond_v2"] = pick(0, 2, 1000)
	k["ep_v2d"] = pick(0, 1000)
	k["ep_doublekey"] = pick(0, 1, 1000)
	k["ep_lastunjailed"] = pick(0, 0, 2, 1000)
	k["ep_esdt"] = 0
	if r.Chance(0.3) {
		for _, n := range []string{"Stake", "UnStake", "UnBond", "UnJail", "DelegationOps", "UnStakeTokens", "UnBondTokens", "DelegationMgrOps", "GetAllNodeStates", "Get", "ESDTIssue"} {
			k["gas_"+n] = int64(r.Range(1, 9))
		}
	}
}

func defaultCfg(p *simkit.Plan) envCfg {
	cfg := envCfg{
		nodePrice: p.Knob("node_price", 100), minStake: 1, unJail: p.Knob("unjail", 5), minDeposit: p.Knob("min_deposit", 100),
		minDelegation: p.Knob("min_delegation", 10), baseIssue: p.Knob("base_issue", 50),
		unBondNonces: uint64(p.Knob("unbond_nonces", 2)), unBondEpochs: uint32(p.Knob("unbond_epochs", 1)),
		maxNodes: uint64(p.Knob("max_nodes", 3)), minNodes: uint64(p.Knob("min_nodes", 1)),
		minFee: 0, maxFee: uint64(p.Knob("max_fee", 10000)), gas: map[string]uint64{},
	}
	if cfg.minNodes > cfg.maxNodes {
		cfg.minNodes = cfg.maxNodes
	}
	if cfg.minNodes < 1 {
		cfg.minNodes = 1
	}
	if cfg.maxNodes < 1 {
		cfg.maxNodes = 1
	}
	cfg.epochs = config.EnableEpochs{
		StakingV2EnableEpoch: uint32(p.Knob("ep_stakingv2", 0)), StakeEnableEpoch: uint32(p.Knob("ep_stake", 0)),
		DelegationManagerEnableEpoch: uint32(p.Knob("ep_mgr", 0)), DelegationSmartContractEnableEpoch: uint32(p.Knob("ep_deleg", 0)),
		ReDelegateBelowMinCheckEnableEpoch: uint32(p.Knob("ep_redeleg_min", 0)), UnbondTokensV2EnableEpoch: uint32(p.Knob("ep_unbond_v2", 0)),
		ValidatorToDelegationEnableEpoch: uint32(p.Knob("ep_v2d", 0)), DoubleKeyProtectionEnableEpoch: uint32(p.Knob("ep_doublekey", 0)),
		CorrectLastUnjailedEnableEpoch: uint32(p.Knob("ep_lastunjailed", 0)), ESDTEnableEpoch: uint32(p.Knob("ep_esdt", 0)),
		GovernanceEnableEpoch: 1000,
	}
	for _, n := range []string{"Stake", "UnStake", "UnBond", "UnJail", "DelegationOps", "UnStakeTokens", "UnBondTokens", "DelegationMgrOps", "GetAllNodeStates", "Get", "ESDTIssue"} {
		if v, ok := p.Knobs["gas_"+n]; ok && v > 0 {
			cfg.gas[n] = uint64(v)
		}
	}
	return cfg
}
