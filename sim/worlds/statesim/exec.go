package statesim

import (
	"bytes"
	"fmt"
	"math/big"
	"sort"

	"github.com/ElrondNetwork/elrond-go/config"
	"github.com/ElrondNetwork/elrond-go/data/state"

	"verifsim/simkit"
	"verifsim/triekit"
)

type acct struct {
	balance  int64
	nonce    uint64
	owner    []byte
	codeHash []byte
	meta     []byte
	storage  map[string][]byte
}

type model struct {
	accts map[string]*acct
}

func (m *model) clone() *model {
	o := &model{accts: map[string]*acct{}}
	for k, a := range m.accts {
		b := *a
		b.storage = map[string][]byte{}
		for sk, sv := range a.storage {
			b.storage[sk] = sv
		}
		o.accts[k] = &b
	}
	return o
}

func (m *model) refs(codeHash []byte) int {
	n := 0
	for _, a := range m.accts {
		if len(codeHash) > 0 && bytes.Equal(a.codeHash, codeHash) {
			n++
		}
	}
	return n
}

type keptHandler struct {
	ua    state.UserAccountHandler
	after *acct
}

type snapshot struct {
	jlen int
	m    *model
	root []byte
}

type run struct {
	c         *simkit.Ctx
	disk, ewl *simkit.SimDisk
	se        *triekit.StateEnv
	m         *model
	committed *model
	lastRoot  []byte
	snaps     []snapshot
	keys      [][]byte
	codes     [][]byte
	nAddr     int

	revertsUndoing, sharedReleased, storeWrites, arenaWrites, readAfterPersist int
	sharedSeen                                                                map[string]bool
	kept                                                                      map[int]*keptHandler
	nextFaulty                                                                bool
}

func (r *run) open(root []byte) bool {
	p := r.c.Plan
	se, err := triekit.NewStateEnv(r.disk, r.ewl, int(p.Knob("cache", 8)), uint(p.Knob("max_level", 5)), 100, config.TrieStorageManagerConfig{}, 0, root)
	if err != nil {
		r.c.Violate("C06", "state-not-reopenable", "RecreateTrie", "cannot reopen the accounts DB on the last committed root %x: %v", root, err)
		return false
	}
	r.se = se
	return true
}

func execute(c *simkit.Ctx) bool {
	p := c.Plan
	r := &run{c: c, m: &model{accts: map[string]*acct{}}, sharedSeen: map[string]bool{}, kept: map[int]*keptHandler{}}
	r.committed = r.m.clone()
	r.disk, r.ewl = simkit.NewSimDisk("trie", c), simkit.NewSimDisk("ewl", nil)
	if !r.open(nil) {
		return false
	}
	defer func() { r.se.Close() }()
	seen := map[string]bool{}
	for i := range p.Steps {
		st := &p.Steps[i]
		if st.T+1 > r.nAddr {
			r.nAddr = st.T + 1
		}
		if st.Op == "save" && st.Int(4, -1)+1 > int64(r.nAddr) {
			r.nAddr = int(st.Int(4, -1)) + 1
		}
		for j := 0; j < len(st.B); j += 2 {
			if !seen[string(st.B[j])] {
				seen[string(st.B[j])] = true
				r.keys = append(r.keys, st.B[j])
			}
		}
	}
	for k := 1; k <= 3; k++ {
		r.codes = append(r.codes, Code(k))
	}
	prop := p.Property
	for i := range p.Steps {
		c.CurStep = i
		r.nextFaulty = i+1 < len(p.Steps) && p.Steps[i+1].Fault == "get_error"
		r.step(&p.Steps[i])
		c.StepsDone++
		// the oracle reads every account and code entry and thereby loads their trie paths into memory; it is
		// skipped before a step with an armed read error, so that the faulty step still has disk reads to fail
		nextFaulty := r.nextFaulty
		if !c.Failed(prop) && c.Harness == "" && !nextFaulty {
			r.checkCode()
		}
		if c.Failed(prop) || c.Harness != "" {
			break
		}
	}
	if !c.Failed(prop) && c.Harness == "" {
		c.CurStep = len(p.Steps)
		r.checkAll("final", false)
	}
	switch prop {
	case "C06":
		return r.revertsUndoing > 0
	case "C07":
		return r.sharedReleased > 0
	case "C08":
		return r.storeWrites >= 3 && r.arenaWrites > 0 && r.readAfterPersist > 0
	}
	return false
}

func sortedAcctKeys(m map[string]*acct) []string {
	ks := make([]string, 0, len(m))
	for k := range m {
		ks = append(ks, k)
	}
	sort.Strings(ks)
	return ks
}

// checkCode is the C07 oracle: code entry exists <=> referenced, NumReferences == number of referring accounts.
func (r *run) checkCode() {
	// first from the accounts as the API shows them: every code hash an account refers to must have an entry whose
	// reference count is the number of accounts holding that hash
	held := map[string]int{}
	for i := 0; i < r.nAddr; i++ {
		acc, err := r.se.ADB.GetExistingAccount(Addr(i))
		if err != nil {
			continue
		}
		if h := acc.(state.UserAccountHandler).GetCodeHash(); len(h) > 0 {
			held[string(h)]++
		}
	}
	hashes := make([]string, 0, len(held))
	for h := range held {
		hashes = append(hashes, h)
	}
	sort.Strings(hashes)
	for _, h := range hashes {
		raw, err := r.se.ADB.VerifMainTrieGet([]byte(h))
		ce := &state.CodeEntry{}
		if err != nil || len(raw) == 0 || triekit.Marshalizer.Unmarshal(ce, raw) != nil {
			r.c.Violate("C07", "missing-code-entry", "code entry", "%d account(s) refer to code hash %x but no code entry exists under it (err %v)", held[h], h, err)
			return
		}
		if int(ce.NumReferences) != held[h] {
			r.c.Violate("C07", "wrong-reference-count", "code entry", "code hash %x: NumReferences=%d but %d account(s) refer to it", h, ce.NumReferences, held[h])
			return
		}
	}
	for k, code := range r.codes {
		h := triekit.Hash(code)
		refs := r.m.refs(h)
		if refs >= 2 {
			r.sharedSeen[string(h)] = true
		} else if r.sharedSeen[string(h)] {
			delete(r.sharedSeen, string(h))
			r.sharedReleased++
			r.c.Probe("shared_code_released")
		}
		raw, err := r.se.ADB.VerifMainTrieGet(h)
		if err != nil {
			r.c.Violate("C07", "code-entry-unreadable", "mainTrie.Get", "code entry of blob %d cannot be read with no fault armed: %v", k+1, err)
			return
		}
		if refs == 0 {
			if len(raw) != 0 {
				ce := &state.CodeEntry{}
				_ = triekit.Marshalizer.Unmarshal(ce, raw)
				r.c.Violate("C07", "orphan-code-entry", "code entry", "no account refers to code blob %d any more but its entry still exists (NumReferences=%d)", k+1, ce.NumReferences)
				return
			}
			continue
		}
		if len(raw) == 0 {
			r.c.Violate("C07", "missing-code-entry", "code entry", "%d account(s) refer to code blob %d but no entry exists under its hash", refs, k+1)
			return
		}
		ce := &state.CodeEntry{}
		if err := triekit.Marshalizer.Unmarshal(ce, raw); err != nil {
			r.c.Violate("C07", "missing-code-entry", "code entry", "entry of code blob %d does not decode: %v", k+1, err)
			return
		}
		if int(ce.NumReferences) != refs {
			r.c.Violate("C07", "wrong-reference-count", "code entry", "code blob %d: NumReferences=%d but %d account(s) refer to it", k+1, ce.NumReferences, refs)
			return
		}
		if !bytes.Equal(ce.Code, code) {
			r.c.Violate("C07", "wrong-code-bytes", "code entry", "code blob %d: stored bytes differ from the deployed code", k+1)
			return
		}
		if got := r.se.ADB.GetCode(h); !bytes.Equal(got, code) {
			r.c.Violate("C07", "wrong-code-bytes", "GetCode", "GetCode of blob %d returns %d bytes, deployed %d", k+1, len(got), len(code))
			return
		}
	}
}

// checkAll compares the whole observable state with the model. afterRevert selects the property a
// difference is attributed to (C06 after a revert; storage differences are C08 otherwise).
func (r *run) checkAll(site string, afterRevert bool) {
	c := r.c
	for i := 0; i < r.nAddr; i++ {
		addr := Addr(i)
		ma := r.m.accts[string(addr)]
		acc, err := r.se.ADB.GetExistingAccount(addr)
		if ma == nil {
			if err == nil {
				if afterRevert {
					c.Violate("C06", "revert-state-differs", site, "account %d exists after the revert but did not exist when the snapshot was taken", i)
					return
				}
				c.Probe("anomaly_account_should_not_exist")
			}
			continue
		}
		if err != nil {
			if afterRevert {
				c.Violate("C06", "revert-state-differs", site, "account %d existed when the snapshot was taken but is not found after the revert: %v", i, err)
				return
			}
			c.Probe("anomaly_account_missing")
			continue
		}
		ua := acc.(state.UserAccountHandler)
		diff := ""
		switch {
		case ua.GetBalance().Cmp(big.NewInt(ma.balance)) != 0:
			diff = fmt.Sprintf("balance %s, expected %d", ua.GetBalance(), ma.balance)
		case ua.GetNonce() != ma.nonce:
			diff = fmt.Sprintf("nonce %d, expected %d", ua.GetNonce(), ma.nonce)
		case !bytes.Equal(ua.GetOwnerAddress(), ma.owner):
			diff = fmt.Sprintf("owner %x, expected %x", ua.GetOwnerAddress(), ma.owner)
		case !bytes.Equal(ua.GetCodeHash(), ma.codeHash):
			diff = fmt.Sprintf("code hash %x, expected %x", ua.GetCodeHash(), ma.codeHash)
		case !bytes.Equal(ua.GetCodeMetadata(), ma.meta):
			diff = fmt.Sprintf("code metadata %x, expected %x", ua.GetCodeMetadata(), ma.meta)
		}
		if diff == "" && len(ma.codeHash) > 0 {
			for _, code := range r.codes {
				if bytes.Equal(triekit.Hash(code), ma.codeHash) && !bytes.Equal(r.se.ADB.GetCode(ma.codeHash), code) {
					diff = "code bytes differ"
				}
			}
		}
		if diff != "" {
			if afterRevert {
				c.Violate("C06", "revert-state-differs", site, "account %d after the revert: %s", i, diff)
				return
			}
			c.Probe("anomaly_field_mismatch")
			c.Eventf("anomaly account %d at %s: %s", i, site, diff)
		}
		for _, k := range r.keys {
			got, err := ua.DataTrieTracker().RetrieveValue(k)
			want := ma.storage[string(k)]
			if err != nil && len(want) == 0 {
				continue
			}
			if err != nil || !bytes.Equal(got, want) {
				if afterRevert {
					c.Violate("C06", "revert-state-differs", site, "account %d storage key %x reads %x (err %v) after the revert, value at snapshot time was %x", i, k, got, err, want)
				} else {
					c.Violate("C08", "storage-readback-differs", site, "account %d storage key %x reads %x (err %v), last value written is %x", i, k, got, err, want)
				}
				return
			}
		}
	}
}

func (r *run) failedStep(site string) {
	// a step failed with an injected read error: abort like a block abort and compare with the committed state
	r.disk.Disarm()
	if err := r.se.ADB.RevertToSnapshot(0); err != nil {
		r.c.Violate("C06", "revert-zero-fails", "RevertToSnapshot", "RevertToSnapshot(0) after a failed step fails with no fault armed: %v", err)
		return
	}
	r.m = r.committed.clone()
	r.snaps = nil
	r.c.Probe("revert_zero_after_io_error")
	r.checkRootIs(r.lastRoot, "RevertToSnapshot(0)")
	if !r.c.Failed("C06") {
		r.checkAll("RevertToSnapshot(0)", true)
	}
}

func (r *run) checkRootIs(want []byte, site string) {
	rh, err := r.se.ADB.RootHash()
	if err != nil {
		r.c.Violate("C06", "revert-state-differs", site, "RootHash fails after the revert: %v", err)
		return
	}
	if len(want) == 0 {
		want = triekit.EmptyHash
	}
	if !bytes.Equal(rh, want) {
		r.c.Violate("C06", "revert-root-differs", site, "state root after the revert is %x, recorded root was %x", rh, want)
	}
}

func (r *run) step(st *simkit.Step) {
	c := r.c
	adb := r.se.ADB
	addr := Addr(st.T)
	fault := st.Fault == "get_error"
	firedBefore := c.Faults["get_error"]
	if fault {
		r.se.Store.ClearCache()
		if st.FaultAt > 0 && len(st.B) == 0 && (st.Op == "save" || st.Op == "resave") {
			// without storage writes the order of disk reads of SaveAccount does not depend on Go map iteration:
			// only its n-th read fails (reaches reads deep inside the operation, e.g. of a code entry). Armed right
			// before SaveAccount (armNth), after the account was loaded.
		} else {
			r.disk.ArmAll("get_error")
		}
	}
	defer r.disk.Disarm()
	fired := func() bool { return c.Faults["get_error"] > firedBefore }
	armNth := func() {
		if fault && st.FaultAt > 0 && len(st.B) == 0 {
			r.se.Store.ClearCache()
			r.disk.Arm("get_error", (st.FaultAt-1)%4)
		}
	}
	jlen0 := 0
	var root0 []byte
	if st.Op == "save" || st.Op == "remove" || st.Op == "resave" {
		jlen0 = adb.JournalLen()
		root0, _ = adb.RootHash()
	}
	// opFailed: an operation returned an error although no fault fired. No property says it must succeed; the
	// driver does what a transaction processor does (revert to the journal length at the start of the step) and
	// the revert must restore everything (C06).
	opFailed := func(site string, err error) {
		r.disk.Disarm()
		undo := adb.JournalLen() - jlen0
		c.Probe("op_error_then_revert")
		c.Eventf("%d %s returned %v; reverting %d entries", c.CurStep, site, err, undo)
		if rerr := adb.RevertToSnapshot(jlen0); rerr != nil {
			c.Violate("C06", "revert-fails", "RevertToSnapshot", "RevertToSnapshot(%d) after a failed %s failed: %v", jlen0, site, rerr)
			return
		}
		r.checkRootIs(root0, "RevertToSnapshot after failed "+site)
		if !c.Failed("C06") {
			r.checkAll("RevertToSnapshot after failed "+site, true)
		}
		if undo > 0 {
			r.revertsUndoing++
		}
	}
	switch st.Op {
	case "save":
		acc, err := adb.LoadAccount(addr)
		if err != nil {
			if fired() {
				r.failedStep("LoadAccount")
			} else {
				opFailed("LoadAccount", err)
			}
			return
		}
		ua := acc.(state.UserAccountHandler)
		ma := r.m.accts[string(addr)]
		na := &acct{storage: map[string][]byte{}}
		if ma != nil {
			cp := *ma
			cp.storage = map[string][]byte{}
			for k, v := range ma.storage {
				cp.storage[k] = v
			}
			na = &cp
		}
		if d := st.Int(0, 0); d >= 0 {
			_ = ua.AddToBalance(big.NewInt(d))
			na.balance += d
		} else if ua.SubFromBalance(big.NewInt(-d)) == nil {
			na.balance += d
		}
		if st.Int(1, 0) == 1 {
			ua.IncreaseNonce(1)
			na.nonce++
		}
		if sel := st.Int(2, -1); sel >= 0 {
			if sel == 0 {
				if st.Int(5, 0)%2 == 1 {
					ua.SetCode([]byte{}) // cleared with an empty, non-nil slice (e.g. decoded from an empty string)
				} else {
					ua.SetCode(nil)
				}
				na.codeHash = nil
			} else {
				code := r.codes[(int(sel)-1)%len(r.codes)]
				ua.SetCode(append([]byte(nil), code...))
				na.codeHash = triekit.Hash(code)
			}
		}
		if sel := st.Int(3, -1); sel >= 0 {
			meta := []byte{byte(sel), 1}
			ua.SetCodeMetadata(meta)
			na.meta = meta
		}
		if sel := st.Int(4, -1); sel >= 0 {
			o := Addr(int(sel))
			ua.SetOwnerAddress(o)
			na.owner = o
		}
		mode := st.Int(5, 0)
		arena := make([]byte, 8192)
		for j := 0; j+1 < len(st.B); j += 2 {
			k, v := []byte(st.B[j]), []byte(st.B[j+1])
			var kb, vb []byte
			switch {
			case mode == 0 || len(k)+len(v)+600 > len(arena):
				kb, vb = append([]byte(nil), k...), append([]byte(nil), v...)
			case mode == 3: // key and value adjacent in one buffer, as a VM host hands out its memory
				copy(arena, k)
				copy(arena[len(k):], v)
				kb, vb = arena[:len(k)], arena[len(k):len(k)+len(v)]
				r.arenaWrites++
			default: // separate regions of one arena, both with spare capacity
				copy(arena, k)
				copy(arena[4096:], v)
				kb, vb = arena[:len(k)], arena[4096:4096+len(v)]
				r.arenaWrites++
			}
			if err := ua.DataTrieTracker().SaveKeyValue(kb, vb); err != nil {
				c.Violate("C08", "storage-write-rejected", "SaveKeyValue", "SaveKeyValue(key %x, %d bytes) rejected: %v", k, len(v), err)
				return
			}
			if mode != 0 { // the caller reuses its memory
				for x := range arena {
					arena[x] = 0xEE
				}
			}
			na.storage[string(k)] = v
			if len(v) == 0 {
				delete(na.storage, string(k))
			}
			r.storeWrites++
			// read back before saving
			got, err := ua.DataTrieTracker().RetrieveValue(k)
			// a deleted key may read as empty or as "no value" (error) before saving; a written value must read back
			if (err != nil && len(v) > 0) || (err == nil && !bytes.Equal(got, v)) {
				c.Violate("C08", "storage-readback-differs", "RetrieveValue before save", "account %d key %x: wrote %x (buffer mode %d), reads %x (err %v) before SaveAccount", st.T, k, v, mode, got, err)
				return
			}
		}
		armNth()
		err = adb.SaveAccount(ua)
		c.Eventf("%d save acct=%d %v pairs=%d -> err=%v", c.CurStep, st.T, st.I, len(st.B)/2, err != nil)
		if err == nil && fired() {
			c.Probe("save_succeeded_although_a_read_failed")
		}
		if fired() {
			c.Probe("read_error_fired_in_save")
		}
		if err != nil {
			if fired() {
				r.failedStep("SaveAccount")
			} else {
				opFailed("SaveAccount", err)
			}
			return
		}
		r.m.accts[string(addr)] = na
		// keep the handler for a later "resave" (a retried operation saves the same in-memory handler again), but only
		// for accounts that never had storage: a handler with a data trie carries a root hash that a revert makes stale
		// and only for a handler whose code was set in this very step (a retried deploy / code change): a handler that
		// merely carries a code hash it loaded would, saved again over a different state, be a stale overwrite by the caller
		if len(st.B) == 0 && len(na.storage) == 0 && len(ua.GetRootHash()) == 0 && st.Int(2, -1) >= 0 {
			cp := *na
			cp.storage = map[string][]byte{}
			r.kept[st.T] = &keptHandler{ua: ua, after: &cp}
		} else {
			delete(r.kept, st.T)
		}
		if len(st.B) > 0 && !fired() {
			// read back after saving through a freshly loaded account
			acc2, err := adb.GetExistingAccount(addr)
			if err != nil {
				c.Violate("C08", "storage-readback-differs", "GetExistingAccount", "account %d cannot be loaded right after SaveAccount: %v", st.T, err)
				return
			}
			for j := 0; j+1 < len(st.B); j += 2 {
				k := []byte(st.B[j])
				want := na.storage[string(k)]
				got, err := acc2.(state.UserAccountHandler).DataTrieTracker().RetrieveValue(k)
				if (err != nil && len(want) > 0) || (err == nil && !bytes.Equal(got, want)) {
					c.Violate("C08", "storage-readback-differs", "RetrieveValue after save", "account %d key %x: wrote %x (buffer mode %d), reads %x (err %v) after SaveAccount", st.T, k, want, mode, got, err)
					return
				}
			}
		}
	case "resave":
		// the same in-memory handler is saved once more (retry of an operation whose first save may have been reverted)
		k := r.kept[st.T]
		if k == nil {
			return
		}
		armNth()
		err := adb.SaveAccount(k.ua)
		c.Eventf("%d resave acct=%d -> err=%v", c.CurStep, st.T, err != nil)
		if err != nil {
			if fired() {
				r.failedStep("SaveAccount")
			} else {
				opFailed("SaveAccount", err)
			}
			return
		}
		cp := *k.after
		cp.storage = map[string][]byte{}
		r.m.accts[string(addr)] = &cp
		c.Probe("handler_saved_again")
	case "remove":
		delete(r.kept, st.T)
		err := adb.RemoveAccount(addr)
		_, exists := r.m.accts[string(addr)]
		c.Eventf("%d remove acct=%d -> err=%v", c.CurStep, st.T, err != nil)
		if err != nil {
			if fired() {
				r.failedStep("RemoveAccount")
			} else {
				_ = exists
				opFailed("RemoveAccount", err)
			}
			return
		}
		delete(r.m.accts, string(addr))
	case "snap":
		rh, err := adb.RootHash()
		if err != nil {
			c.Violate("C06", "operation-fails-without-fault", "RootHash", "RootHash failed: %v", err)
			return
		}
		r.snaps = append(r.snaps, snapshot{jlen: adb.JournalLen(), m: r.m.clone(), root: rh})
		c.Eventf("%d snap len=%d root=%x", c.CurStep, adb.JournalLen(), rh)
		c.FPBytes(rh)
	case "revert":
		if len(r.snaps) == 0 {
			return
		}
		k := int(st.Int(0, 0)) % len(r.snaps)
		sn := r.snaps[k]
		undo := adb.JournalLen() - sn.jlen
		err := adb.RevertToSnapshot(sn.jlen)
		c.Eventf("%d revert to len=%d (undoing %d entries) -> err=%v", c.CurStep, sn.jlen, undo, err != nil)
		if err != nil {
			c.Violate("C06", "revert-fails", "RevertToSnapshot", "RevertToSnapshot(%d) with journal length %d failed: %v", sn.jlen, sn.jlen+undo, err)
			return
		}
		r.m = sn.m.clone()
		r.snaps = r.snaps[:k+1]
		for len(r.snaps) > 0 && r.snaps[len(r.snaps)-1].jlen > sn.jlen {
			r.snaps = r.snaps[:len(r.snaps)-1]
		}
		r.checkRootIs(sn.root, "RevertToSnapshot")
		if !c.Failed("C06") {
			r.checkAll("RevertToSnapshot", true)
		}
		if undo > 0 {
			r.revertsUndoing++
			c.Probe("revert_undoing_entries")
		}
		if k < len(r.snaps)-1 {
			c.Probe("nested_revert")
		}
	case "revert0":
		err := adb.RevertToSnapshot(0)
		c.Eventf("%d revert0 -> err=%v", c.CurStep, err != nil)
		if err != nil {
			c.Violate("C06", "revert-zero-fails", "RevertToSnapshot", "RevertToSnapshot(0) failed: %v", err)
			return
		}
		if adb.JournalLen() > 0 {
			r.revertsUndoing++
		}
		r.m = r.committed.clone()
		r.snaps = nil
		r.checkRootIs(r.lastRoot, "RevertToSnapshot(0)")
		if !c.Failed("C06") {
			r.checkAll("RevertToSnapshot(0)", true)
		}
	case "commit":
		putsBefore := c.Faults["put_error"]
		if st.Fault == "put_error" {
			// disk full during Commit: every write from the n-th one on fails. Commit has already emptied the journal
			// when it fails; the block processor's cleanup is RevertToSnapshot(0), which must give the last committed state
			r.disk.Disarm()
			r.disk.ArmFrom("put_error", st.FaultAt)
		}
		rh, err := adb.Commit()
		r.disk.Disarm()
		c.Eventf("%d commit -> %x err=%v", c.CurStep, rh, err != nil)
		if err != nil {
			if c.Faults["put_error"] > putsBefore {
				r.failedStep("Commit")
				return
			}
			c.Violate("C06", "operation-fails-without-fault", "Commit", "Commit failed with no fault: %v", err)
			return
		}
		r.lastRoot = rh
		r.committed = r.m.clone()
		r.snaps = nil
		c.FPBytes(rh)
		if !r.nextFaulty {
			r.checkAll("after Commit", false)
		}
		if r.storeWrites > 0 {
			r.readAfterPersist++
		}
	case "restart":
		r.kept = map[int]*keptHandler{}
		r.se.Close()
		c.Fault("close_reopen")
		c.Eventf("%d restart on %x", c.CurStep, r.lastRoot)
		if !r.open(r.lastRoot) {
			return
		}
		r.m = r.committed.clone()
		r.snaps = nil
		if !r.nextFaulty {
			r.checkAll("after restart", false)
		}
		if r.storeWrites > 0 {
			r.readAfterPersist++
		}
	case "read":
		acc, err := adb.GetExistingAccount(addr)
		ma := r.m.accts[string(addr)]
		if err != nil {
			if fired() || ma == nil {
				return
			}
			c.Probe("anomaly_account_missing")
			return
		}
		if ma == nil {
			return
		}
		k := st.Bytes(0)
		got, err := acc.(state.UserAccountHandler).DataTrieTracker().RetrieveValue(k)
		want := ma.storage[string(k)]
		c.Eventf("%d read acct=%d key=%x -> %x err=%v", c.CurStep, st.T, k, got, err != nil)
		if err != nil {
			if !fired() && len(want) > 0 {
				c.Violate("C08", "storage-readback-differs", "RetrieveValue", "account %d key %x: read fails with no fault (%v), last value written is %x", st.T, k, err, want)
			}
			return
		}
		if !bytes.Equal(got, want) {
			c.Violate("C08", "storage-readback-differs", "RetrieveValue", "account %d key %x reads %x, last value written is %x", st.T, k, got, want)
		}
	}
}
