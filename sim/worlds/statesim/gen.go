package statesim

import (
	"fmt"

	"verifsim/simkit"
)

// Addr returns the 32-byte address of account i (shared tail: neighbours in the trie).
func Addr(i int) []byte {
	a := make([]byte, 32)
	for j := range a {
		a[j] = 0x11
	}
	a[0] = byte(i + 1)
	a[31] = byte(0x20 + (i % 2))
	return a
}

// Code returns code blob k (k>=1).
func Code(k int) []byte {
	b := []byte(fmt.Sprintf("code-blob-%d-", k))
	for i := 0; i < k*7; i++ {
		b = append(b, byte(k*31+i))
	}
	return b
}

func storageKeys(r *simkit.Rand) [][]byte {
	n := r.Range(2, 7)
	keys := [][]byte{}
	suffix := []byte{0xaa, 0xbb}
	for i := 0; i < n; i++ {
		switch r.Intn(5) {
		case 0:
			keys = append(keys, []byte{byte(i + 1)})
		case 1:
			keys = append(keys, append([]byte{byte(i + 1)}, suffix...))
		case 2:
			keys = append(keys, append([]byte{byte(i + 1), byte(i + 1)}, suffix...))
		case 3:
			keys = append(keys, []byte(fmt.Sprintf("key-%d", i)))
		default:
			k := make([]byte, 32)
			for j := range k {
				k[j] = byte(i*3 + j)
			}
			keys = append(keys, k)
		}
	}
	return keys
}

func generate(r *simkit.Rand, prop, tier string) *simkit.Plan {
	p := &simkit.Plan{Knobs: map[string]int64{}}
	p.Knobs["max_level"] = int64(r.Range(1, 8))
	p.Knobs["cache"] = int64([]int{1, 2, 8, 64}[r.Intn(4)])
	nAddr := r.Range(2, 5)
	nCode := r.Range(1, 3)
	keys := storageKeys(r)
	p.Arm = "faultfree"
	faulty := r.Chance(0.3)
	if faulty {
		p.Arm = "faults"
		p.Faults = []string{"get_error"}
	}
	ops := []string{"save", "remove", "snap", "revert", "revert0", "commit", "restart", "read", "resave"}
	w := []int{r.Range(6, 14), r.Range(0, 2), r.Range(1, 4), r.Range(1, 4), r.Range(0, 1), r.Range(1, 3), r.Range(0, 1), r.Range(0, 3), r.Range(0, 2)}
	pCode, pStore := 0.25, 0.4
	switch prop {
	case "C06":
		w[2] += 2
		w[3] += 2
	case "C07":
		pCode, pStore = 0.7, 0.15
		w[1] += 1
		w[3] += 1
		w[8] += 2
	case "C08":
		pCode, pStore = 0.1, 0.9
		w[7] += 3
		w[5] += 1
		w[6] += 1
	}
	n := r.Range(10, 80)
	if tier == "thorough" && r.Chance(0.3) {
		n = r.Range(80, 300) // thorough tier: a third of the runs are long
	}
	for i := 0; i < n; i++ {
		st := simkit.Step{Op: ops[r.Weighted(w)], T: r.Intn(nAddr)}
		switch st.Op {
		case "save":
			codeSel, metaSel, ownerSel := int64(-1), int64(-1), int64(-1)
			if r.Chance(pCode) {
				codeSel = int64(r.Range(0, nCode))
				if r.Chance(0.8) && codeSel == 0 {
					codeSel = int64(r.Range(1, nCode))
				}
			}
			if r.Chance(0.15) {
				metaSel = int64(r.Intn(4))
			}
			if r.Chance(0.15) {
				ownerSel = int64(r.Intn(nAddr))
			}
			st.I = []int64{int64(r.Range(-40, 60)), int64(r.Intn(2)), codeSel, metaSel, ownerSel, int64(r.Intn(4))}
			if r.Chance(pStore) {
				for j, m := 0, r.Range(1, 3); j < m; j++ {
					k := keys[r.Intn(len(keys))]
					var v []byte
					switch r.Intn(8) {
					case 0: // delete
					case 1: // value whose tail looks like key||address
						v = append([]byte(fmt.Sprintf("t%d", i)), k...)
						v = append(v, Addr(st.T)...)
					case 2: // value equal to key||address only
						v = append(append([]byte{}, k...), Addr(st.T)...)
					case 3:
						v = append([]byte(fmt.Sprintf("long%d-", i)), r.Bytes(r.Range(100, 2000))...)
					default:
						v = []byte(fmt.Sprintf("val-%d-%d", i, j))
					}
					st.B = append(st.B, k, v)
				}
			}
		case "revert":
			st.I = []int64{int64(r.Intn(1000))}
		case "read":
			st.B = []simkit.HexBytes{keys[r.Intn(len(keys))]}
		}
		pFault := 0.1
		if prop == "C07" {
			pFault = 0.25
		}
		if faulty && r.Chance(pFault) && (st.Op == "save" || st.Op == "remove" || st.Op == "read" || st.Op == "resave") {
			st.Fault = "get_error"
			if len(st.B) == 0 && r.Chance(0.7) {
				st.FaultAt = r.Range(1, 12) // n-th read of the step (only honoured for saves without storage writes)
			}
		}
		if faulty && st.Op == "commit" && r.Chance(0.15) {
			st.Fault = "put_error" // disk full from the n-th write of this Commit on
			st.FaultAt = r.Intn(8)
		}
		if st.Fault == "get_error" && r.Chance(0.6) {
			// a commit (collapses nodes below maxTrieLevelInMemory) and often a restart (everything collapsed) right
			// before the faulty step, so that the step has disk reads that can fail
			p.Steps = append(p.Steps, simkit.Step{Op: "commit"})
			if r.Chance(0.7) {
				p.Steps = append(p.Steps, simkit.Step{Op: "restart"})
			}
		}
		p.Steps = append(p.Steps, st)
	}
	return p
}
