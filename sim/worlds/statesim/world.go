// Package statesim is world W3: the accounts database (journal, code entries, account storage) over a
// simulated disk (C06, C07, C08).
package statesim

import (
	"verifsim/simkit"
)

// World implements simkit.World.
type World struct{}

func (World) Name() string         { return "statesim" }
func (World) Properties() []string { return []string{"C06", "C07", "C08"} }

func (World) Real(prop string) []string {
	return []string{"data/state.AccountsDB (journal, SaveAccount/RemoveAccount/RevertToSnapshot/Commit/RecreateTrie)", "data/state.userAccount + TrackableDataTrie",
		"data/state journal entries (account, creation, code, data-trie updates, data-trie remove)", "data/state/factory.AccountCreator",
		"data/trie.patriciaMerkleTrie + trieStorageManager", "storagePruningManager + evictionWaitingList (no prune calls are issued in this world)",
		"storage/storageUnit.Unit + lrucache", "marshal.GogoProtoMarshalizer, hashing/blake2b"}
}

func (World) Stub(prop string) []string {
	return []string{"disk: simkit.SimDisk as storage.Persister for the trie DB and for the eviction waiting list's spill DB (read-error injection, survives restarts)",
		"caller: the driver plays the transaction/block processor (JournalLen before, RevertToSnapshot after an error, Commit) and, for C08, a VM host that hands out sub-slices of one reused memory arena",
		"restart: AccountsDB, tries, storage manager and cache dropped and rebuilt over the same disks from the last committed root"}
}

func (World) Assumptions(prop string) []string {
	a := []string{"reference model: map address -> {balance, nonce, owner, code hash, code metadata, storage map} plus a code table; deep-copied at every snapshot",
		"read errors are injected as 'every disk read of this step fails' after the cache was purged (AccountsDB iterates Go maps internally, so 'the n-th read' would not replay); after a failed step the driver does RevertToSnapshot(0) like a block abort, and only 'state equals the last committed state' is asserted",
		"no write faults, torn writes or dirty crashes"}
	switch prop {
	case "C07":
		a = append(a, "the code entry under a code hash is read from the current main trie through the verif-tagged accessor VerifMainTrieGet and decoded with the exported CodeEntry type")
	case "C08":
		a = append(a, "buffer discipline is part of the plan: fresh copies; one arena with spare capacity that is overwritten after the call; key and value adjacent in one arena")
	}
	return a
}

func (World) Rule(prop string) string {
	base := "(thorough tier: a third of the runs have 80-300 steps) 10-80 steps over 2-5 addresses, 1-3 code blobs and a small storage-key pool: save (balance+-, nonce++, owner, code set/shared/changed/cleared, code metadata, 0-3 storage writes/deletes), remove, snapshot (JournalLen), revert(i) nested/repeated, revert(0), commit, restart, read; maxTrieLevelInMemory 1-8, cache 1-64; "
	switch prop {
	case "C06":
		return base + "non-trivial = at least one revert to a snapshot that undid >=1 journaled change, compared in full; distinct = hash of full plan"
	case "C07":
		return base + "code-heavy mix; non-trivial = a code blob was shared by >=2 accounts and later released (change/clear/remove/revert); distinct = hash of full plan"
	case "C08":
		return base + "storage-heavy mix with arena buffer modes; non-trivial = >=3 storage writes of which one used a shared arena, read back after save and after commit or restart; distinct = hash of full plan"
	}
	return base
}

func (World) Budget(prop, tier string) int {
	q := map[string]int{"C06": 6000, "C07": 6000, "C08": 6000}[prop]
	if tier == "thorough" {
		return q * 30
	}
	return q
}

func (World) Generate(r *simkit.Rand, prop, tier string, race bool) *simkit.Plan {
	return generate(r, prop, tier)
}

func (World) Execute(c *simkit.Ctx) bool { return execute(c) }
