package storersim

import (
	"errors"
	"fmt"
	"sort"

	logger "github.com/ElrondNetwork/elrond-go-logger"
	"github.com/ElrondNetwork/elrond-go/data"
	"github.com/ElrondNetwork/elrond-go/data/block"
	"github.com/ElrondNetwork/elrond-go/epochStart"
	"github.com/ElrondNetwork/elrond-go/storage"
	"github.com/ElrondNetwork/elrond-go/storage/mock"
	"github.com/ElrondNetwork/elrond-go/storage/pruning"
	"github.com/ElrondNetwork/elrond-go/storage/storageUnit"

	"verifsim/simkit"
)

func init() { _ = logger.SetLogLevel("*:NONE") }

// ---- generator -----------------------------------------------------------------------------------

var opNames = []string{"Put", "PutInEpoch", "Get", "GetFromEpoch", "Has", "SearchFirst", "Remove", "ClearCache", "ChangeEpoch", "SetEpochForPut", "Restart", "GetBulkFromEpoch"}

func genC30(r *simkit.Rand, tier string) *simkit.Plan {
	p := &simkit.Plan{Knobs: map[string]int64{}}
	switch x := r.Intn(100); {
	case x < 45:
		p.Arm = "faultfree"
	case x < 70:
		p.Arm = "restart"
		p.Faults = []string{"close_reopen"}
	default:
		p.Arm = "faults"
	}
	nap := r.Range(1, 3)
	keep := nap + []int{0, 0, 1, 1, 2, 3, 4}[r.Intn(7)]
	p.Knobs["nap"], p.Knobs["keep"] = int64(nap), int64(keep)
	p.Knobs["prune"] = 1
	if r.Chance(0.1) {
		p.Knobs["prune"] = 0
	}
	p.Knobs["bloom"] = 0
	if r.Chance(0.45) {
		p.Knobs["bloom"] = int64([]int{16, 64, 256, 2048}[r.Intn(4)])
		p.Knobs["bloom_h"] = int64([]int{1, 3}[r.Intn(2)])
	}
	if r.Chance(0.4) {
		p.Knobs["cache"] = int64(r.Range(1, 4))
	} else {
		p.Knobs["cache"] = int64(r.Range(1, 50))
	}
	p.Knobs["start"] = int64(r.Range(0, 3))
	p.Knobs["fh"] = 0
	if r.Chance(0.3) {
		p.Knobs["fh"] = 1
		p.Knobs["fh_old"] = int64(r.Range(1, 3))
	}
	p.Knobs["clean"] = 1
	if r.Chance(0.3) {
		p.Knobs["clean"] = 0
	}
	p.Knobs["lookup_ext"] = 0
	if r.Chance(0.15) {
		p.Knobs["lookup_ext"] = 1
	}

	// per-run fault selection (swarm)
	faultP := 0.0
	kinds := map[string]bool{}
	if p.Arm == "faults" {
		faultP = []float64{0.02, 0.05, 0.1}[r.Intn(3)]
		for _, k := range []string{"get_error", "put_error", "remove_error", "has_error", "close_reopen"} {
			if r.Chance(0.6) {
				kinds[k] = true
			}
		}
		if len(kinds) == 0 {
			kinds["get_error"] = true
		}
		for _, k := range []string{"close_reopen", "get_error", "has_error", "put_error", "remove_error"} {
			if kinds[k] {
				p.Faults = append(p.Faults, k)
			}
		}
	}
	restartOK := p.Arm == "restart" || kinds["close_reopen"]

	nKeys := r.Range(2, 8)
	n := r.Range(20, 120)
	// op weights per run
	w := []int{
		r.Range(3, 10), // Put
		r.Range(0, 5),  // PutInEpoch
		r.Range(2, 8),  // Get
		r.Range(1, 6),  // GetFromEpoch
		r.Range(0, 4),  // Has
		r.Range(0, 4),  // SearchFirst
		r.Range(0, 5),  // Remove
		r.Range(0, 4),  // ClearCache
		r.Range(1, 5),  // ChangeEpoch
		r.Range(0, 2),  // SetEpochForPut
		0,              // Restart
		r.Range(0, 2),  // GetBulkFromEpoch
	}
	if restartOK {
		w[10] = r.Range(1, 2)
	}
	// how epoch changes are announced in this run: 0 shard headers, 1 meta headers, 2 mixed
	hdrMode := r.Intn(3)
	prepareP := []float64{0, 0.3, 0.8}[r.Intn(3)]
	stuckDeltas := []int64{0, 1, 1, 1, 2, 3, 4, 5, 6}
	followPutEpoch := r.Chance(0.85)
	// some runs aim at the removal clause under a stuck-shard extension: a key is written into the oldest active epoch,
	// the next epoch change keeps (or re-opens) that epoch beyond the configured window, then Remove / ClearCache / read
	extBurst := r.Chance(0.35)
	// other runs interleave epoch-specific reads of retained, no longer active epochs between a Remove and plain reads
	retBurst := r.Chance(0.35)

	key := func() string { return fmt.Sprintf("k%d", r.Intn(nKeys)) }
	relEpoch := func() int64 { // distance below the current epoch; negative = future epoch
		switch x := r.Intn(20); {
		case x < 9:
			return int64(r.Intn(nap))
		case x < 15:
			return int64(r.Range(0, keep))
		case x < 17:
			return -1
		case x < 18:
			return int64(r.Range(keep, keep+3))
		default:
			return int64(r.Range(0, 2))
		}
	}
	for i := 0; i < n; i++ {
		op := opNames[r.Weighted(w)]
		st := simkit.Step{Op: op}
		switch op {
		case "Put":
			st.S = []string{key()}
			st.B = []simkit.HexBytes{[]byte(fmt.Sprintf("v%d", i))}
		case "PutInEpoch":
			st.S = []string{key()}
			st.B = []simkit.HexBytes{[]byte(fmt.Sprintf("v%d", i))}
			st.I = []int64{relEpoch()}
		case "Get", "Has", "SearchFirst", "Remove":
			st.S = []string{key()}
		case "GetFromEpoch", "GetBulkFromEpoch":
			st.S = []string{key()}
			st.I = []int64{relEpoch()}
		case "ChangeEpoch":
			kind := int64(hdrMode)
			if hdrMode == 2 {
				kind = int64(r.Intn(2))
			}
			prep := int64(0)
			if r.Chance(prepareP) {
				prep = 1
			}
			st.I = []int64{kind, prep, stuckDeltas[r.Intn(len(stuckDeltas))]}
		case "SetEpochForPut":
			st.I = []int64{[]int64{0, 0, 1, 1, 2, -1, 7}[r.Intn(7)]}
		case "Restart":
			st.I = []int64{[]int64{0, 0, 0, 1, -1, 2, -2}[r.Intn(7)]}
		}
		if faultP > 0 && r.Chance(faultP) {
			kind := ""
			switch op {
			case "Put", "PutInEpoch":
				kind, st.T = "put_error", -1
			case "Get", "GetFromEpoch", "SearchFirst", "GetBulkFromEpoch":
				kind, st.T = "get_error", r.Intn(nap+1)
			case "Has":
				kind, st.T = "has_error", r.Intn(nap+1)
			case "Remove":
				kind, st.T = "remove_error", r.Intn(nap+1)
				if r.Chance(0.3) {
					st.T = -1
				}
			}
			if kind != "" && kinds[kind] {
				st.Fault = kind
				st.FaultAt = 0
			} else {
				st.T = 0
			}
		}
		if retBurst && r.Chance(0.07) {
			k := key()
			p.Steps = append(p.Steps, simkit.Step{Op: "Remove", S: []string{k}})
			for j, m := 0, r.Range(1, 2); j < m; j++ {
				d := int64(r.Range(nap, keep))
				if r.Chance(0.15) {
					d = int64(r.Range(0, keep+1))
				}
				p.Steps = append(p.Steps, simkit.Step{Op: []string{"GetFromEpoch", "GetFromEpoch", "GetBulkFromEpoch"}[r.Intn(3)], S: []string{k}, I: []int64{d}})
			}
			p.Steps = append(p.Steps, simkit.Step{Op: []string{"Get", "Has", "SearchFirst"}[r.Intn(3)], S: []string{k}})
		}
		burstKey := ""
		if op == "ChangeEpoch" && extBurst && r.Chance(0.6) {
			burstKey = key()
			if r.Chance(0.7) {
				p.Steps = append(p.Steps, simkit.Step{Op: "PutInEpoch", S: []string{burstKey}, B: []simkit.HexBytes{[]byte(fmt.Sprintf("b%d", i))}, I: []int64{int64(nap - 1)}})
			}
			if r.Chance(0.5) {
				st.I[0] = 1 // meta header names the stuck epoch itself
			} else {
				st.I[1] = 1 // prepare header names it
			}
			st.I[2] = int64(nap + r.Intn(3))
		}
		p.Steps = append(p.Steps, st)
		if (op == "ChangeEpoch") && followPutEpoch {
			p.Steps = append(p.Steps, simkit.Step{Op: "SetEpochForPut", I: []int64{0}})
		}
		if burstKey != "" {
			p.Steps = append(p.Steps, simkit.Step{Op: "Remove", S: []string{burstKey}})
			if r.Chance(0.8) {
				p.Steps = append(p.Steps, simkit.Step{Op: "ClearCache"})
			}
			rd := simkit.Step{Op: []string{"Has", "SearchFirst", "Get", "GetFromEpoch"}[r.Intn(4)], S: []string{burstKey}}
			if rd.Op == "GetFromEpoch" {
				rd.I = []int64{int64(nap)}
			}
			p.Steps = append(p.Steps, rd)
		}
	}
	return p
}

// ---- simulator-owned boundary ---------------------------------------------------------------------

var errHandleClosed = errors.New("simdisk handle: database is closed")

// file is the durable state of one path; it survives restarts.
type file struct {
	disk  *simkit.SimDisk
	epoch uint32
	open  int
}

// handle is what Create returns: one open database handle on a file.
type handle struct {
	f      *file
	r      *run
	closed bool
}

var _ storage.Persister = (*handle)(nil)

func (h *handle) Put(k, v []byte) error {
	if h.closed {
		return errHandleClosed
	}
	return h.f.disk.Put(k, v)
}
func (h *handle) Get(k []byte) ([]byte, error) {
	if h.closed {
		return nil, errHandleClosed
	}
	return h.f.disk.Get(k)
}
func (h *handle) Has(k []byte) error {
	if h.closed {
		return errHandleClosed
	}
	return h.f.disk.Has(k)
}
func (h *handle) Remove(k []byte) error {
	if h.closed {
		return errHandleClosed
	}
	return h.f.disk.Remove(k)
}
func (h *handle) Init() error { return nil }
func (h *handle) Close() error {
	if !h.closed {
		h.closed = true
		h.f.open--
		h.r.closes++
	}
	return nil
}
func (h *handle) Destroy() error {
	_ = h.Close()
	return h.f.disk.Destroy()
}
func (h *handle) DestroyClosed() error                          { return h.f.disk.Destroy() }
func (h *handle) RangeKeys(f func(key []byte, val []byte) bool) { h.f.disk.RangeKeys(f) }
func (h *handle) IsInterfaceNil() bool                          { return h == nil }

// disabledHandle is the persister of shallow (never opened) epochs.
type disabledHandle struct{}

var errDisabled = errors.New("disabled persister")

func (disabledHandle) Put(_, _ []byte) error                     { return errDisabled }
func (disabledHandle) Get(_ []byte) ([]byte, error)              { return nil, errDisabled }
func (disabledHandle) Has(_ []byte) error                        { return errDisabled }
func (disabledHandle) Init() error                               { return errDisabled }
func (disabledHandle) Close() error                              { return errDisabled }
func (disabledHandle) Remove(_ []byte) error                     { return errDisabled }
func (disabledHandle) Destroy() error                            { return errDisabled }
func (disabledHandle) DestroyClosed() error                      { return errDisabled }
func (disabledHandle) RangeKeys(_ func(_ []byte, _ []byte) bool) {}
func (disabledHandle) IsInterfaceNil() bool                      { return false }

type factory struct{ r *run }

func (f *factory) Create(path string) (storage.Persister, error) {
	fl := f.r.files[path]
	if fl == nil {
		ep, ok := f.r.pathEpoch[path]
		if !ok {
			f.r.c.HarnessErr("Create(%q): path not produced by the path manager", path)
			return nil, errors.New("unknown path")
		}
		fl = &file{disk: simkit.NewSimDisk(path, f.r.c), epoch: ep}
		f.r.files[path] = fl
	} else {
		f.r.reopens++
	}
	if fl.open > 0 {
		f.r.c.Probe("double_open_of_one_path")
	}
	fl.open++
	return &handle{f: fl, r: f.r}, nil
}
func (f *factory) CreateDisabled() storage.Persister { return disabledHandle{} }
func (f *factory) IsInterfaceNil() bool              { return f == nil }

type pathManager struct{ r *run }

func (pm *pathManager) PathForEpoch(shardID string, epoch uint32, identifier string) string {
	p := fmt.Sprintf("Epoch_%d/Shard_%s/%s", epoch, shardID, identifier)
	pm.r.pathEpoch[p] = epoch
	return p
}
func (pm *pathManager) PathForStatic(shardID string, identifier string) string {
	return fmt.Sprintf("Static/Shard_%s/%s", shardID, identifier)
}
func (pm *pathManager) DatabasePath() string { return "db" }
func (pm *pathManager) IsInterfaceNil() bool { return pm == nil }

type notifierStub struct{ r *run }

func (n *notifierStub) RegisterHandler(h epochStart.ActionHandler) { n.r.handler = h }
func (n *notifierStub) IsInterfaceNil() bool                       { return n == nil }

type cleaner struct{ on bool }

func (cl *cleaner) ShouldClean() bool    { return cl.on }
func (cl *cleaner) IsInterfaceNil() bool { return cl == nil }

// ---- run state and reference model ----------------------------------------------------------------

type storer interface {
	storage.Storer
	SetEpochForPutOperation(epoch uint32)
}

type removedState struct {
	step   int
	active map[uint32]bool // the epochs that were active (extension epochs included) when Remove returned nil
	// reachable: since the Remove, some epoch that was not active then but still holds the key has been in the active
	// list (only maintained where the driver mirrors the active list exactly)
	reachable bool
}

func (rs *removedState) list() []uint32 {
	out := make([]uint32, 0, len(rs.active))
	for e := range rs.active {
		out = append(out, e)
	}
	sort.Slice(out, func(i, j int) bool { return out[i] < out[j] })
	return out
}

type run struct {
	c         *simkit.Ctx
	files     map[string]*file
	pathEpoch map[string]uint32
	handler   epochStart.ActionHandler
	st        storer

	nap, keep uint32
	prune     bool
	bloom     bool

	hdrEpoch uint32 // last epoch announced to the storer (or its starting epoch)
	putEpoch uint32 // model of epochForPutOperation

	must     map[uint32]map[string]bool // epoch -> key -> a value is promised to be stored there
	vals     map[string]map[string]bool // key -> every value ever handed to a put of that key
	removed  map[string]*removedState
	bloomHas map[string]bool // keys successfully written since the last restart

	// mirror of the storer's epoch bookkeeping for the plain PruningStorer with pruning on (exact there, see activeNow):
	// the active list newest first (stuck-shard extension epochs included), the epochs that have a persister entry, and
	// the oldest epoch named by the last prepare header (-1 = none yet)
	mActive   []uint32
	mMap      map[uint32]bool
	mPrepare  int64
	mirrorOK  bool
	cleanOn   bool
	lookupExt bool

	closes, reopens int

	epochChanges, checkedReads, earlierEpochReads, removeChecks int
}

// cur is the model's current epoch: with pruning disabled there is one persister (epoch 0) forever.
func (r *run) cur() uint32 {
	if !r.prune {
		return 0
	}
	return r.hdrEpoch
}

func lowBound(cur, n uint32) uint32 {
	if cur+1 >= n {
		return cur + 1 - n
	}
	return 0
}

// maxStuckEpochs mirrors maxNumEpochsToKeepIfAShardIsStuck.
const maxStuckEpochs = 5

// mirrorInit mirrors initPersistersInEpoch.
func (r *run) mirrorInit(start uint32) {
	r.mActive, r.mMap, r.mPrepare = nil, map[uint32]bool{}, -1
	r.mirrorOK = r.prune && r.c.Plan.Knob("fh", 0) == 0
	if !r.mirrorOK {
		return
	}
	if r.lookupExt {
		for e := uint32(0); e <= start; e++ {
			r.mMap[e] = true
		}
	}
	loKeep, loAct := lowBound(start, r.keep), lowBound(start, r.nap)
	for e := int64(start); e >= int64(loKeep); e-- {
		r.mMap[uint32(e)] = true
		if uint32(e) >= loAct {
			r.mActive = append(r.mActive, uint32(e))
		}
	}
}

// mirrorChange mirrors changeEpoch / extendSavedEpochsIfNeeded / extendActivePersisters / closePersisters of the plain
// PruningStorer: isMeta = the epoch-start header is a meta block naming stuck as its oldest finalized shard epoch;
// otherwise the last prepare header (if any) decides.
func (r *run) mirrorChange(newE uint32, isMeta bool, stuck uint32) (extended bool) {
	if !r.mirrorOK {
		return false
	}
	if r.mMap[newE] { // changeEpochWithExisting
		lo := lowBound(newE, r.nap)
		act := []uint32{}
		for e := int64(newE); e >= int64(lo); e-- {
			if !r.mMap[uint32(e)] {
				return false
			}
			act = append(act, uint32(e))
		}
		r.mActive = act
		return false
	}
	r.mActive = append([]uint32{newE}, r.mActive...)
	r.mMap[newE] = true
	oldestToKeep := int64(-1)
	if isMeta {
		oldestToKeep = int64(stuck)
	} else if r.mPrepare >= 0 {
		oldestToKeep = r.mPrepare
	}
	if oldestToKeep >= 0 {
		to := r.mActive[len(r.mActive)-1]
		from := uint32(oldestToKeep)
		if from <= to && newE-from < maxStuckEpochs {
			var add []uint32
			complete := true
			for e := int64(to); e >= int64(from); e-- {
				if !r.mMap[uint32(e)] {
					complete = false
					break
				}
				if uint32(e) < to {
					add = append(add, uint32(e))
				}
			}
			if complete {
				r.mActive = append(r.mActive, add...)
			}
			return true // closing is skipped either way
		}
	}
	// closePersisters
	if int(r.nap) < len(r.mActive) {
		r.mActive = r.mActive[:r.nap]
		r.mMap[newE-r.nap] = true
	}
	if r.cleanOn && uint32(len(r.mMap)) > r.keep {
		for idx := newE - r.keep; r.mMap[idx]; idx-- {
			delete(r.mMap, idx)
		}
	}
	return false
}

// activeNow returns the epochs that are active for the removal clause: the storer's whole active list including
// stuck-shard extension epochs where the driver mirrors it exactly (plain PruningStorer, pruning on), otherwise the
// numOfActivePersisters newest epochs (a subset of the real list, which keeps the clause sound).
func (r *run) activeNow() map[uint32]bool {
	out := map[uint32]bool{}
	if r.mirrorOK {
		for _, e := range r.mActive {
			out[e] = true
		}
		return out
	}
	for e := r.minLo(); e <= r.cur(); e++ {
		out[e] = true
	}
	return out
}

func (r *run) minLo() uint32 {
	if !r.prune {
		return 0
	}
	return lowBound(r.cur(), r.nap)
}

func (r *run) retLo() uint32 {
	if !r.prune {
		return 0
	}
	return lowBound(r.cur(), r.keep)
}

func (r *run) isOpen(e uint32) bool { return e >= r.minLo() && e <= r.cur() }

// absEpoch turns a plan's relative epoch (distance below the current epoch) into an epoch number.
func (r *run) absEpoch(d int64) uint32 {
	e := int64(r.cur()) - d
	if e < 0 {
		e = 0
	}
	return uint32(e)
}

func (r *run) diskOfEpoch(e uint32) *simkit.SimDisk {
	paths := make([]string, 0, 2)
	for p, ep := range r.pathEpoch {
		if ep == e {
			paths = append(paths, p)
		}
	}
	sort.Strings(paths)
	for _, p := range paths {
		if f := r.files[p]; f != nil {
			return f.disk
		}
	}
	return nil
}

func (r *run) allDisks() []*simkit.SimDisk {
	paths := make([]string, 0, len(r.files))
	for p := range r.files {
		paths = append(paths, p)
	}
	sort.Strings(paths)
	out := make([]*simkit.SimDisk, 0, len(paths))
	for _, p := range paths {
		out = append(out, r.files[p].disk)
	}
	return out
}

func (r *run) build(start uint32) error {
	p := r.c.Plan
	r.handler = nil
	args := &pruning.StorerArgs{
		Identifier:                "unit",
		ShardCoordinator:          mock.NewShardCoordinatorMock(0, 2),
		CacheConf:                 storageUnit.CacheConfig{Type: storageUnit.LRUCache, Capacity: uint32(p.Knob("cache", 10))},
		PathManager:               &pathManager{r: r},
		DbPath:                    "db",
		PersisterFactory:          &factory{r: r},
		Notifier:                  &notifierStub{r: r},
		OldDataCleanerProvider:    &cleaner{on: p.Knob("clean", 1) != 0},
		MaxBatchSize:              1,
		NumOfEpochsToKeep:         r.keep,
		NumOfActivePersisters:     r.nap,
		StartingEpoch:             start,
		PruningEnabled:            r.prune,
		EnabledDbLookupExtensions: p.Knob("lookup_ext", 0) != 0,
	}
	if r.bloom {
		hs := []storageUnit.HasherType{storageUnit.Fnv}
		if p.Knob("bloom_h", 1) >= 3 {
			hs = []storageUnit.HasherType{storageUnit.Keccak, storageUnit.Blake2b, storageUnit.Fnv}
		}
		args.BloomFilterConf = storageUnit.BloomConfig{Size: uint(p.Knob("bloom", 0)), HashFunc: hs}
	}
	var err error
	if p.Knob("fh", 0) != 0 {
		var fh *pruning.FullHistoryPruningStorer
		fh, err = pruning.NewFullHistoryPruningStorer(&pruning.FullHistoryStorerArgs{StorerArgs: args, NumOfOldActivePersisters: uint32(p.Knob("fh_old", 1))})
		if err == nil {
			r.st = fh
		}
	} else {
		var ps *pruning.PruningStorer
		ps, err = pruning.NewPruningStorer(args)
		if err == nil {
			r.st = ps
		}
	}
	if err != nil {
		return err
	}
	if r.handler == nil {
		return errors.New("storer did not register an epoch-start handler")
	}
	r.hdrEpoch, r.putEpoch = start, start
	r.bloomHas = map[string]bool{}
	r.mirrorInit(start)
	return nil
}

func (r *run) notePut(key string, val []byte) {
	if r.vals[key] == nil {
		r.vals[key] = map[string]bool{}
	}
	r.vals[key][string(val)] = true
	delete(r.removed, key)
}

func (r *run) promise(e uint32, key string) {
	if r.must[e] == nil {
		r.must[e] = map[string]bool{}
	}
	r.must[e][key] = true
}

// exemptSource reports whether an epoch that was not active at the Remove still holds the key on disk.
func (r *run) exemptSource(key string, rs *removedState) bool {
	for _, p := range sortedKeys(r.files) {
		f := r.files[p]
		if rs.active[f.epoch] {
			continue
		}
		if _, ok := f.disk.RawGet([]byte(key)); ok {
			return true
		}
	}
	return false
}

// refreshRemoved updates the reachable flag of every removed key against the current (mirrored) active list. The
// disks cannot change for a removed key (any put or Remove of it starts a new state), so it is enough to call this
// whenever the active list changes and before a read is judged.
func (r *run) refreshRemoved() {
	if !r.mirrorOK || len(r.removed) == 0 {
		return
	}
	for key, rs := range r.removed {
		if rs.reachable {
			continue
		}
		for _, e := range r.mActive {
			if rs.active[e] {
				continue
			}
			if d := r.diskOfEpoch(e); d != nil {
				if _, ok := d.RawGet([]byte(key)); ok {
					rs.reachable = true
					break
				}
			}
		}
	}
}

// legitSource says whether a plain read may legitimately have returned a removed key: where the active list is mirrored
// exactly, only if an epoch that holds the key and was not active at the Remove has been active since (plain reads and
// the cache only ever see active epochs); otherwise whenever any epoch not active at the Remove still holds the key.
func (r *run) legitSource(key string, rs *removedState) bool {
	if r.mirrorOK {
		r.refreshRemoved()
		return rs.reachable
	}
	return r.exemptSource(key, rs)
}

func sortedKeys(m map[string]*file) []string {
	ks := make([]string, 0, len(m))
	for k := range m {
		ks = append(ks, k)
	}
	sort.Strings(ks)
	return ks
}

// checkRead applies both clauses of the statement to one read.
func (r *run) checkRead(op, key string, e uint32, val []byte, err error, faultFired bool) {
	c := r.c
	ok := err == nil
	plain := op != "GetFromEpoch" && op != "GetBulkFromEpoch"
	if ok && op != "Has" && !r.vals[key][string(val)] {
		c.Violate("C30", "phantom-value", op, "%s(%s) returned %q which was never written for that key", op, key, val)
		return
	}
	if rs := r.removed[key]; rs != nil {
		applies := plain || rs.active[e]
		if applies {
			r.removeChecks++
			if ok {
				if r.legitSource(key, rs) {
					c.Probe("read_after_remove_from_epoch_not_active_at_remove")
				} else {
					c.Violate("C30", "readable-after-remove", op, "%s(%s) returned %q after Remove(%s) succeeded at step %d (epochs %v were active then, extension epochs included; current epoch %d); no epoch that holds the key has been active since",
						op, key, val, key, rs.step, rs.list(), r.cur())
				}
			}
		}
		return
	}
	// clause 1
	promised := false
	newest := uint32(0)
	if plain {
		for ep := r.minLo(); ep <= r.cur(); ep++ {
			if r.must[ep][key] {
				promised, newest = true, ep
			}
		}
		if promised && r.bloom && (op == "Get" || op == "Has") && !r.bloomHas[key] {
			if !ok {
				c.Probe("bloom_forgot_after_restart")
			}
			promised = false
		}
	} else if r.prune && e >= r.retLo() && e <= r.cur() && r.must[e][key] {
		promised, newest = true, e
	}
	if !promised {
		return
	}
	r.checkedReads++
	if newest < r.cur() {
		r.earlierEpochReads++
	}
	if !plain && !r.isOpen(e) && ok {
		c.Probe("epoch_read_from_closed_persister")
	}
	if ok || faultFired {
		return
	}
	if plain {
		c.Violate("C30", "unreadable-while-active", op, "%s(%s) failed (%v) although a value was put in epoch %d while it was open and epochs %d..%d are active", op, key, err, newest, r.minLo(), r.cur())
	} else {
		c.Violate("C30", "unreadable-while-retained", op, op+"(%s, %d) failed (%v) although a value was put in epoch %d while it was open and epochs %d..%d are retained", key, e, err, e, r.retLo(), r.cur())
	}
}

func show(v []byte, err error) string {
	if err != nil {
		return "err"
	}
	return string(v)
}

// ---- execution -----------------------------------------------------------------------------------

func execC30(c *simkit.Ctx) bool {
	p := c.Plan
	r := &run{c: c, files: map[string]*file{}, pathEpoch: map[string]uint32{},
		must: map[uint32]map[string]bool{}, vals: map[string]map[string]bool{}, removed: map[string]*removedState{}}
	r.nap = uint32(p.Knob("nap", 2))
	r.keep = uint32(p.Knob("keep", 3))
	if r.nap < 1 {
		r.nap = 1
	}
	if r.keep < r.nap {
		r.keep = r.nap
	}
	r.prune = p.Knob("prune", 1) != 0
	r.bloom = p.Knob("bloom", 0) > 0
	r.cleanOn = p.Knob("clean", 1) != 0
	r.lookupExt = p.Knob("lookup_ext", 0) != 0
	start := uint32(p.Knob("start", 0))
	if err := r.build(start); err != nil {
		c.HarnessErr("constructing the storer: %v", err)
		return false
	}

	for i := range p.Steps {
		st := &p.Steps[i]
		c.CurStep = i
		key := st.Str(0)
		val := st.Bytes(0)

		// arm the step's fault
		fired0 := 0
		var armed []*simkit.SimDisk
		if st.Fault != "" && st.Fault != "close_reopen" {
			fired0 = c.Faults[st.Fault]
			if st.T < 0 {
				armed = r.allDisks()
			} else if d := r.diskOfEpoch(r.absEpoch(int64(st.T))); d != nil {
				armed = []*simkit.SimDisk{d}
			}
			for _, d := range armed {
				d.Arm(st.Fault, st.FaultAt)
			}
		}
		disarm := func() bool {
			for _, d := range armed {
				d.Disarm()
			}
			armed = nil
			return st.Fault != "" && c.Faults[st.Fault] > fired0
		}

		switch st.Op {
		case "Put", "PutInEpoch":
			if key == "" {
				break
			}
			var err error
			target := r.putEpoch
			if st.Op == "Put" {
				err = r.st.Put([]byte(key), val)
			} else {
				target = r.absEpoch(st.Int(0, 0))
				err = r.st.PutInEpoch([]byte(key), val, target)
			}
			fired := disarm()
			r.notePut(key, val)
			if err == nil {
				r.bloomHas[key] = true
				switch {
				case !r.prune:
					if st.Op == "Put" {
						r.promise(0, key)
					}
				case r.isOpen(target):
					r.promise(target, key)
				default:
					c.Probe("put_epoch_not_open")
				}
			} else {
				if !fired {
					c.Probe("put_failed_without_fault")
				}
				// not covered by the statement: is the value of the failed put served anyway?
				if v, e2 := r.st.Get([]byte(key)); e2 == nil && string(v) == string(val) {
					c.Probe("failed_put_value_served")
				} else {
					c.Probe("failed_put_value_not_served")
				}
			}
			c.Eventf("%d %s %s=%s epoch=%d -> %s", i, st.Op, key, val, target, show(nil, err))
		case "Get", "SearchFirst":
			if key == "" {
				break
			}
			var v []byte
			var err error
			if st.Op == "Get" {
				v, err = r.st.Get([]byte(key))
			} else {
				v, err = r.st.SearchFirst([]byte(key))
			}
			fired := disarm()
			r.checkRead(st.Op, key, 0, v, err, fired)
			c.Eventf("%d %s %s -> %s", i, st.Op, key, show(v, err))
		case "Has":
			if key == "" {
				break
			}
			err := r.st.Has([]byte(key))
			fired := disarm()
			r.checkRead("Has", key, 0, nil, err, fired)
			c.Eventf("%d Has %s -> %s", i, key, show([]byte("yes"), err))
		case "GetFromEpoch":
			if key == "" {
				break
			}
			e := r.absEpoch(st.Int(0, 0))
			v, err := r.st.GetFromEpoch([]byte(key), e)
			fired := disarm()
			if !r.isOpen(e) && err == nil && r.removed[key] != nil {
				c.Probe("epoch_read_of_removed_key_from_inactive_epoch")
			}
			r.checkRead("GetFromEpoch", key, e, v, err, fired)
			c.Eventf("%d GetFromEpoch %s %d -> %s", i, key, e, show(v, err))
		case "GetBulkFromEpoch":
			if key == "" {
				break
			}
			e := r.absEpoch(st.Int(0, 0))
			m, err := r.st.GetBulkFromEpoch([][]byte{[]byte(key)}, e)
			fired := disarm()
			var v []byte
			if err == nil {
				var found bool
				if v, found = m[key]; !found {
					err = storage.ErrKeyNotFound
				}
			}
			if !r.isOpen(e) && err == nil && r.removed[key] != nil {
				c.Probe("epoch_read_of_removed_key_from_inactive_epoch")
			}
			r.checkRead("GetBulkFromEpoch", key, e, v, err, fired)
			c.Eventf("%d GetBulkFromEpoch %s %d -> %s", i, key, e, show(v, err))
		case "Remove":
			if key == "" {
				break
			}
			act := r.activeNow()
			removes0 := map[uint32]int{}
			for _, pth := range sortedKeys(r.files) {
				f := r.files[pth]
				removes0[f.epoch] += f.disk.Removes
				if !act[f.epoch] || f.epoch == r.cur() {
					continue
				}
				if _, ok := f.disk.RawGet([]byte(key)); ok {
					if f.epoch < r.minLo() {
						c.Probe("remove_of_key_held_by_extension_epoch")
					} else {
						c.Probe("remove_of_key_held_by_older_active_epoch")
					}
				}
			}
			err := r.st.Remove([]byte(key))
			fired := disarm()
			if r.mirrorOK && err == nil {
				// cross-check of the mirror (probe only): the disks the storer touched are the mirrored active list
				same := true
				for _, pth := range sortedKeys(r.files) {
					f := r.files[pth]
					if (f.disk.Removes > removes0[f.epoch]) != act[f.epoch] {
						same = false
					}
				}
				if !same {
					c.Probe("remove_touched_other_epochs_than_mirrored_active_list")
				}
			}
			for _, m := range r.must {
				delete(m, key)
			}
			if err == nil {
				r.removed[key] = &removedState{step: i, active: act}
			} else {
				delete(r.removed, key)
				if !fired {
					c.Probe("remove_failed_without_fault")
				}
			}
			c.Eventf("%d Remove %s -> %s", i, key, show(nil, err))
		case "ClearCache":
			r.st.ClearCache()
			c.Eventf("%d ClearCache", i)
		case "SetEpochForPut":
			e := r.absEpoch(st.Int(0, 0))
			if !r.prune {
				e = uint32(int64(r.hdrEpoch) - st.Int(0, 0))
			}
			r.st.SetEpochForPutOperation(e)
			r.putEpoch = e
			c.Eventf("%d SetEpochForPut %d", i, e)
		case "ChangeEpoch":
			newE := r.hdrEpoch + 1
			delta := st.Int(2, 1)
			if delta < 0 {
				delta = 0
			}
			stuck := uint32(0)
			if int64(newE) > delta {
				stuck = uint32(int64(newE) - delta)
			}
			meta := &block.MetaBlock{Epoch: newE, Round: uint64(newE) * 100, Nonce: uint64(newE) * 100,
				EpochStart: block.EpochStart{LastFinalizedHeaders: []block.EpochStartShardData{{ShardID: 0, Epoch: newE}, {ShardID: 1, Epoch: stuck}}}}
			closes0, reopens0 := r.closes, r.reopens
			if st.Int(1, 0) != 0 {
				r.handler.EpochStartPrepare(meta, nil)
			}
			var hdr data.HeaderHandler = &block.Header{Epoch: newE, Round: uint64(newE) * 100, Nonce: uint64(newE) * 100}
			if st.Int(0, 0) != 0 {
				hdr = meta
			}
			r.handler.EpochStartAction(hdr)
			r.hdrEpoch = newE
			r.epochChanges++
			if st.Int(1, 0) != 0 {
				r.mPrepare = int64(stuck)
			}
			if r.mirrorChange(newE, st.Int(0, 0) != 0, stuck) {
				c.Probe("stuck_shard_extension_branch_taken")
			}
			if r.mirrorOK && len(r.mActive) > int(r.nap) {
				c.Probe("active_list_longer_than_configured")
			}
			r.refreshRemoved()
			if r.closes > closes0 {
				c.Probe("persister_closed_on_epoch_change")
			}
			if r.reopens > reopens0 {
				c.Probe("stuck_shard_extension_reopened_persister")
			}
			if r.prune && newE >= r.nap {
				if d := r.fileOfEpoch(newE - r.nap); d != nil && d.open > 0 {
					c.Probe("epoch_beyond_window_left_open")
				}
			}
			c.Eventf("%d ChangeEpoch -> %d meta=%d prepare=%d stuck=%d closes=%d reopens=%d", i, newE, st.Int(0, 0), st.Int(1, 0), stuck, r.closes-closes0, r.reopens-reopens0)
		case "Restart":
			s := int64(r.hdrEpoch) + st.Int(0, 0)
			if s < 0 {
				s = 0
			}
			_ = r.st.Close()
			if err := r.build(uint32(s)); err != nil {
				c.HarnessErr("restart at epoch %d: %v", s, err)
				return false
			}
			r.refreshRemoved()
			c.Fault("close_reopen")
			c.Eventf("%d Restart start=%d", i, s)
		default:
			c.HarnessErr("unknown op %q", st.Op)
			return false
		}
		disarm()
		// state fingerprint: epochs and sizes of the disks
		fp := []interface{}{r.cur(), r.putEpoch}
		for _, pth := range sortedKeys(r.files) {
			fp = append(fp, r.files[pth].epoch, r.files[pth].disk.Len())
		}
		c.FP(fp...)
		c.StepsDone++
		if c.Failed("C30") {
			break
		}
	}
	_ = r.st.Close()
	if r.earlierEpochReads > 0 {
		c.Probe("checked_read_of_earlier_epoch")
	}
	if r.removeChecks > 0 {
		c.Probe("checked_read_after_remove")
	}
	return r.epochChanges >= 1 && (r.earlierEpochReads >= 1 || r.removeChecks >= 1)
}

func (r *run) fileOfEpoch(e uint32) *file {
	for _, p := range sortedKeys(r.files) {
		if r.files[p].epoch == e {
			return r.files[p]
		}
	}
	return nil
}
