// Package storersim is world W10: the epoch-partitioned PruningStorer / FullHistoryPruningStorer (C30) over
// simulator-owned disks, epoch-start notifications and restarts.
package storersim

import (
	"verifsim/simkit"
)

// World implements simkit.World.
type World struct{}

func (World) Name() string         { return "storersim" }
func (World) Properties() []string { return []string{"C30"} }

func (World) Real(prop string) []string {
	return []string{
		"storage/pruning.PruningStorer (Put/PutInEpoch/Get/GetFromEpoch/Has/SearchFirst/Remove/ClearCache/SetEpochForPutOperation/Close, changeEpoch, closePersisters, extendSavedEpochsIfNeeded, extendActivePersisters, changeEpochWithExisting)",
		"storage/pruning.FullHistoryPruningStorer (GetFromEpoch, getOrOpenPersister, onEvicted) in runs with knob fh=1",
		"storage/storageUnit.NewCache -> storage/lrucache (real LRU cache, capacity 1-50)",
		"storage/storageUnit.NewBloomFilter -> storage/bloom.Bloom with real hashers (runs with knob bloom>0)",
		"epochStart/notifier.NewHandlerForEpochStart (the subscribed handler the storer registers)",
		"data/block.Header, data/block.MetaBlock (epoch-start headers passed to the handler)",
	}
}

func (World) Stub(prop string) []string {
	return []string{
		"DbFactoryHandler: one simkit.SimDisk per path, surviving restarts; every Create(path) returns a new handle on that disk, a closed handle answers every call with an error (as leveldb does); no file lock is simulated (double opens are only counted)",
		"epoch-start notifier: captures the registered handler; the driver calls EpochStartPrepare/EpochStartAction itself",
		"path manager: Epoch_<e>/Shard_<s>/<id>",
		"old-data cleaner provider: constant ShouldClean (knob clean)",
		"shard coordinator: storage/mock.ShardCoordinatorMock(0,2)",
		"restart: the driver closes and drops the storer and builds a new one over the same disks with a planned starting epoch (clean restart, no torn writes)",
	}
}

func (World) Assumptions(prop string) []string {
	return []string{
		"'open' and 'active' epochs are the numOfActivePersisters newest epochs [cur-nAP+1, cur] (the window every reading of the configuration agrees on); 'retained' epochs are [cur-numOfEpochsToKeep+1, cur]; anything the storer keeps beyond these windows (stuck-shard extension, full-archive mode, lookup extensions, leaked handles) is allowed and only counted",
		"clause 1: a successful Put with the put-epoch inside the open window / PutInEpoch into an open epoch creates the promise; Get/Has/SearchFirst must then succeed while that epoch is in the active window, GetFromEpoch(e) while e is retained; the returned value only has to be one of the values ever written for that key (several epochs may hold different values of one key); any Remove of the key (successful or not) ends all promises for it",
		"clause 2 (removal): 'active epoch' here is every epoch in the storer's active list at the time of the Remove, stuck-shard extension epochs included. For the plain PruningStorer with pruning on the driver mirrors that list exactly (initPersistersInEpoch, changeEpoch, extendSavedEpochsIfNeeded with meta / stale prepare headers, extendActivePersisters, closePersisters with its one-at-a-time closing and map cleaning); the mirror is cross-checked against the disks Remove touched (probe remove_touched_other_epochs_than_mirrored_active_list, 0 on the repaired tree). For the full-history storer (its GetFromEpoch creates map entries the driver cannot see) and with pruning off, the numOfActivePersisters newest epochs are used, a subset of the real list",
		"clause 2 check: after a Remove that returned nil and until the next put attempt of that key, Get/Has/SearchFirst, and GetFromEpoch/GetBulkFromEpoch of an epoch that was active at the Remove, must not return the key. The only legitimate source is an epoch that was NOT active at the Remove and still holds the key: where the active list is mirrored (plain PruningStorer) such an epoch must actually have been in the active list at some moment since the Remove (re-opened by an extension, restart at another epoch), because plain reads and the cache only ever see active epochs - an epoch-specific read of a retained, inactive epoch in between does not make the key visible to plain reads; for the full-history storer / pruning off, any such epoch on disk exempts the read",
		"clause 1 stays on the conservative window (numOfActivePersisters newest epochs) although extension epochs are in the active list: Get deliberately reads only the first numOfActivePersisters entries, so promising plain reads from extension epochs would flag the unchanged, intended behaviour of Get",
		"restarts are not in the statement's quantifier: they are clean (Close, rebuild over the same disks). The bloom filter is memory-only, so with bloom on a key not written since the last restart is not promised to Get/Has (counted as probe bloom_forgot_after_restart); SearchFirst and GetFromEpoch are still checked",
		"pruning disabled (knob prune=0): one persister that is always active; plain reads are promised for every successful Put; nothing is promised for the epoch API",
		"faults: a read during which an injected get_error/has_error fired asserts nothing; a failed Put promises nothing; a failed Remove establishes no removed state; no read may ever return a value that was never written for that key",
		"failed puts leaving the value in the cache (PutInEpoch into an unknown epoch; put_error) are not covered by the statement and are only counted (probes failed_put_value_served / not_served)",
	}
}

func (World) Rule(prop string) string {
	return "knobs: active persisters 1-3, epochs to keep active..active+4, pruning on (90%), bloom off/16..2048 bytes with 1 or 3 hashers, cache 1-50, starting epoch 0-3, " +
		"full-history storer (30%), old-data cleaner on/off, db-lookup extensions on/off; 20-120 steps of Put|PutInEpoch|Get|GetFromEpoch|GetBulkFromEpoch|Has|SearchFirst|Remove|ClearCache|" +
		"ChangeEpoch(+1; shard or meta header, optional prepare header naming a stuck shard epoch)|SetEpochForPut|Restart(start epoch) over 2-8 keys with per-run op weights; " +
		"35% of the runs add bursts Remove -> GetFromEpoch|GetBulkFromEpoch of retained, no longer active epochs -> Get|Has|SearchFirst of that key; " +
		"35% of the runs add bursts PutInEpoch(oldest active epoch) -> ChangeEpoch with a stuck-shard extension -> Remove -> ClearCache -> Has|SearchFirst|Get|GetFromEpoch of that key; " +
		"arms faultfree / restart (close_reopen) / faults (get_error, put_error, remove_error, has_error on one epoch's disk + close_reopen); " +
		"non-trivial = at least one epoch change and at least one checked read of a value written in an earlier epoch or one checked read after a Remove; distinct = hash of full plan; " +
		"state fingerprint = (current epoch, put epoch, number of keys per epoch disk) after each step"
}

func (World) Budget(prop, tier string) int {
	q := 24000
	if tier == "thorough" {
		return q * 30
	}
	return q
}

func (World) Generate(r *simkit.Rand, prop, tier string, race bool) *simkit.Plan {
	return genC30(r, tier)
}

func (World) Execute(c *simkit.Ctx) bool {
	if c.Plan.Property != "C30" {
		c.HarnessErr("unknown property %s", c.Plan.Property)
		return false
	}
	return execC30(c)
}

// Simplify proposes plans with knobs moved toward the plainest configuration.
func (World) Simplify(p *simkit.Plan) []*simkit.Plan {
	var out []*simkit.Plan
	try := func(name string, v int64) {
		if cur, ok := p.Knobs[name]; ok && cur != v {
			q := p.Clone()
			q.Knobs[name] = v
			out = append(out, q)
		}
	}
	try("fh", 0)
	try("bloom", 0)
	try("lookup_ext", 0)
	try("clean", 1)
	try("cache", 50)
	try("start", 0)
	try("nap", 2)
	try("nap", 1)
	if p.Knobs["keep"] > p.Knobs["nap"] {
		try("keep", p.Knobs["nap"])
	}
	return out
}
