package syncsim

import (
	"bytes"
	"context"
	"errors"
	"fmt"
	"math/big"
	"runtime/debug"
	"sort"
	"strings"
	"sync"
	"testing/synctest"
	"time"

	"github.com/ElrondNetwork/elrond-go/config"
	"github.com/ElrondNetwork/elrond-go/core"
	"github.com/ElrondNetwork/elrond-go/core/throttler"
	"github.com/ElrondNetwork/elrond-go/data"
	"github.com/ElrondNetwork/elrond-go/data/state"
	"github.com/ElrondNetwork/elrond-go/data/syncer"
	"github.com/ElrondNetwork/elrond-go/data/trie"
	"github.com/ElrondNetwork/elrond-go/data/trie/statistics"
	"github.com/ElrondNetwork/elrond-go/dataRetriever/resolvers"
	"github.com/ElrondNetwork/elrond-go/process/interceptors/processor"
	"github.com/ElrondNetwork/elrond-go/storage"
	"github.com/ElrondNetwork/elrond-go/storage/lrucache"
	"github.com/ElrondNetwork/elrond-go/storage/lrucache/capacity"
	"github.com/ElrondNetwork/elrond-go/storage/storageCacherAdapter"
	trieNodeFactory "github.com/ElrondNetwork/elrond-go/storage/storageCacherAdapter/factory"

	"verifsim/simkit"
	"verifsim/triekit"
)

const (
	prop      = "C05"
	topic     = "accountTrieNodes_0"
	tickEvery = 100 * time.Millisecond
	tickShift = 250 * time.Microsecond // the driver looks at the world just after every polling instant of the syncers
	msgShift  = 500 * time.Microsecond // message times: whole milliseconds + 0.5 ms, never a polling instant
	stepShift = 750 * time.Microsecond // timed plan steps: whole milliseconds + 0.75 ms
	rescueFor = 600 * time.Second      // accounts arm: how long a perfect network may need after the limit
	poisonFor = 300 * time.Second      // accounts arm: after that every destination write fails, for this long
)

// expected is one trie the sync must have reconstructed.
type expected struct {
	name  string
	root  []byte
	model map[string][]byte
}

type peerT struct {
	id          int
	kind        int
	pid         core.PeerID
	slow        time.Duration
	seed        uint64
	subsetPm    int
	resolver    *resolvers.TrieNodeResolver
	partitioned bool
	weights     []int
	nServed     int
}

type netCfg struct {
	seed                                                    uint64
	reqDrop, reqDup, maxDelay, reorder, fanout, rDrop, rDup int64
}

type run struct {
	c  *simkit.Ctx
	mu sync.Mutex // guards what the seams touch from syncer goroutines
	t0 time.Time

	srcEnv    *triekit.Env
	srcTrie   data.Trie
	envs      []*triekit.Env
	destEnv   *triekit.Env
	destDisk  *simkit.SimDisk
	srcNodes  map[string][]byte
	srcHashes []string
	unrel     [][]byte
	want      []expected
	root      []byte

	peers   []*peerT
	destPID core.PeerID
	destRes *resolvers.TrieNodeResolver
	proc    *processor.TrieNodeInterceptorProcessor
	cacher  storage.Cacher

	net       netCfg
	queue     []*event
	seq       int
	nReq      int
	nResp     int
	saved     map[string]bool
	faults    map[string]int
	probes    map[string]int
	hardcap   int
	policy    int64
	shuffle   uint64
	prefetch  int64
	accounts  bool
	preseeded int
	delivered int
	viaNet    int

	started    bool
	done       bool
	result     error
	panicMsg   string
	panicStack string
	finishedAt time.Duration
	cancel     context.CancelFunc
	ending     bool
	rescue     bool
	pool       bool
	poolDisk   *simkit.SimDisk
	poisoned   bool
	gaveUp     bool
	putErrBase int
	stop       bool
}

func sortedKeys(m map[string][]byte) []string {
	ks := make([]string, 0, len(m))
	for k := range m {
		ks = append(ks, k)
	}
	sort.Strings(ks)
	return ks
}

func expand(seed int64, n int64) []byte {
	if n < 1 {
		n = 1
	}
	return simkit.NewRand(uint64(seed)).Bytes(int(n))
}

func (r *run) fault(k string) { r.faults[k]++ }
func (r *run) probe(k string) { r.probes[k]++ }

// violate records a violation (driver goroutine only) and makes the driver wind the run down.
func (r *run) violate(kind, site, format string, a ...interface{}) {
	if r.c.Failed(prop) {
		return
	}
	r.c.Violate(prop, kind, site, format, a...)
	r.stop = true
}

// repoSite names the first repository function on a stack.
func repoSite(stack string) string {
	for _, l := range strings.Split(stack, "\n") {
		l = strings.TrimSpace(l)
		if strings.HasPrefix(l, "github.com/ElrondNetwork/elrond-go/") {
			f := strings.TrimPrefix(l, "github.com/ElrondNetwork/elrond-go/")
			if i := strings.LastIndex(f, "("); i > 0 {
				f = f[:i]
			}
			return f
		}
	}
	return "?"
}

// guarded runs f (a call into repository code on the driver goroutine) and turns a panic into a violation.
func (r *run) guarded(kind string, describe func() string, f func()) {
	defer func() {
		if rec := recover(); rec != nil {
			st := string(debug.Stack())
			r.violate(kind, repoSite(st), "panic: %v; %s", rec, describe())
		}
	}()
	f()
}

func (r *run) newEnv(disk *simkit.SimDisk, cache int) *triekit.Env {
	env, err := triekit.NewEnv(disk, cache, config.TrieStorageManagerConfig{}, 0)
	if err != nil {
		r.c.HarnessErr("NewEnv(%s): %v", disk.Name, err)
		return nil
	}
	r.envs = append(r.envs, env)
	return env
}

// collect walks root on disk and adds every node to nodes.
func collect(disk *simkit.SimDisk, root []byte, nodes map[string][]byte) (*triekit.WalkResult, error) {
	w, err := triekit.Walk(disk, root)
	if err != nil {
		return nil, err
	}
	for h := range w.Nodes {
		b, _ := disk.RawGet([]byte(h))
		nodes[h] = b
	}
	return w, nil
}

// buildSource replays the history steps into real tries on the source environment.
func (r *run) buildSource() bool {
	c := r.c
	p := c.Plan
	maxLevel := uint(p.Knob("max_level", 5))
	srcDisk := simkit.NewSimDisk("src", nil)
	r.srcEnv = r.newEnv(srcDisk, 1000)
	if r.srcEnv == nil {
		return false
	}
	dataModel := map[int]map[string][]byte{}
	dataTrie := map[int]data.Trie{}
	if r.accounts {
		for i := range p.Steps {
			s := &p.Steps[i]
			if s.Op != "dput" || s.T < 0 || s.T > 2 {
				continue
			}
			if dataTrie[s.T] == nil {
				t, err := r.srcEnv.NewTrie(maxLevel)
				if err != nil {
					c.HarnessErr("NewTrie: %v", err)
					return false
				}
				dataTrie[s.T], dataModel[s.T] = t, map[string][]byte{}
			}
			v := expand(s.Int(1, 1), s.Int(0, 1))
			if err := dataTrie[s.T].Update(s.Bytes(0), v); err != nil {
				c.HarnessErr("source data trie update: %v", err)
				return false
			}
			dataModel[s.T][string(s.Bytes(0))] = v
		}
	}
	dataRoot := map[int][]byte{}
	for _, d := range []int{0, 1, 2} {
		if dataTrie[d] == nil {
			continue
		}
		if err := dataTrie[d].Commit(); err != nil {
			c.HarnessErr("source data trie commit: %v", err)
			return false
		}
		dataRoot[d], _ = dataTrie[d].RootHash()
	}
	tr, err := r.srcEnv.NewTrie(maxLevel)
	if err != nil {
		c.HarnessErr("NewTrie: %v", err)
		return false
	}
	model := map[string][]byte{}
	ref := map[string]int{}
	upd := func(k, v []byte) bool {
		if err := tr.Update(k, v); err != nil {
			c.HarnessErr("source update: %v", err)
			return false
		}
		model[string(k)] = v
		delete(ref, string(k))
		return true
	}
	for i := range p.Steps {
		s := &p.Steps[i]
		switch s.Op {
		case "put":
			v := expand(s.Int(1, 1), s.Int(0, 1))
			if r.accounts {
				v = append([]byte{0x07}, v...) // field 0 / wire type 7: never parses as an account record
			}
			if !upd(s.Bytes(0), v) {
				return false
			}
		case "acct":
			if !r.accounts {
				continue
			}
			d := int(s.Int(1, -1))
			acc := &state.UserAccountData{Nonce: uint64(s.Int(0, 0)), Balance: big.NewInt(s.Int(0, 0) * 7), DeveloperReward: big.NewInt(0), Address: s.Bytes(0)}
			if rh, ok := dataRoot[d]; ok && d >= 0 && !bytes.Equal(rh, triekit.EmptyHash) {
				acc.RootHash = rh
			}
			v, err := triekit.Marshalizer.Marshal(acc)
			if err != nil {
				c.HarnessErr("marshal account: %v", err)
				return false
			}
			if !upd(s.Bytes(0), v) {
				return false
			}
			if len(acc.RootHash) > 0 {
				ref[string(s.Bytes(0))] = d
			}
		case "del":
			if err := tr.Delete(s.Bytes(0)); err != nil {
				c.HarnessErr("source delete: %v", err)
				return false
			}
			delete(model, string(s.Bytes(0)))
			delete(ref, string(s.Bytes(0)))
		case "commit":
			if err := tr.Commit(); err != nil {
				c.HarnessErr("source commit: %v", err)
				return false
			}
		}
	}
	if err := tr.Commit(); err != nil {
		c.HarnessErr("source commit: %v", err)
		return false
	}
	r.srcTrie = tr
	r.root, _ = tr.RootHash()
	r.srcNodes = map[string][]byte{}
	all := []expected{{name: "main", root: r.root, model: model}}
	used := map[int]bool{}
	for _, d := range ref {
		used[d] = true
	}
	for _, d := range []int{0, 1, 2} {
		if used[d] {
			all = append(all, expected{name: fmt.Sprintf("data%d", d), root: dataRoot[d], model: dataModel[d]})
		}
	}
	seen := map[string]bool{}
	for _, e := range all { // two tries with equal contents are one trie
		if !seen[string(e.root)] {
			seen[string(e.root)] = true
			r.want = append(r.want, e)
		}
	}
	for _, e := range r.want {
		w, err := collect(srcDisk, e.root, r.srcNodes)
		if err != nil {
			c.HarnessErr("source trie %s does not walk: %v", e.name, err)
			return false
		}
		if d := triekit.SameLeaves(w.Leaves, e.model); d != "" {
			c.HarnessErr("source trie %s differs from its model: %s", e.name, d)
			return false
		}
	}
	for h := range r.srcNodes {
		r.srcHashes = append(r.srcHashes, h)
	}
	sort.Strings(r.srcHashes)
	c.Eventf("source tries=%d leaves=%d nodes=%d root=%x", len(r.want), len(model), len(r.srcHashes), r.root)
	c.FPBytes(r.root)
	return true
}

// buildUnrelated builds the trie the unrelated peer holds; Byzantine peers take foreign nodes from it.
func (r *run) buildUnrelated(seed uint64, n int) (*triekit.Env, data.Trie) {
	disk := simkit.NewSimDisk("unrelated", nil)
	env := r.newEnv(disk, 1000)
	if env == nil {
		return nil, nil
	}
	tr, err := env.NewTrie(5)
	if err != nil {
		r.c.HarnessErr("NewTrie: %v", err)
		return nil, nil
	}
	rr := simkit.NewRand(seed)
	if n < 1 {
		n = 1
	}
	for i := 0; i < n; i++ {
		k := rr.Bytes(rr.Range(1, 32))
		if rr.Chance(0.3) && len(r.want) > 0 { // same keys as the source, other values
			ks := sortedKeys(r.want[0].model)
			if len(ks) > 0 {
				k = []byte(ks[rr.Intn(len(ks))])
			}
		}
		_ = tr.Update(k, append([]byte("u"), rr.Bytes(rr.Range(1, 80))...))
	}
	if err := tr.Commit(); err != nil {
		r.c.HarnessErr("unrelated commit: %v", err)
		return nil, nil
	}
	root, _ := tr.RootHash()
	nodes := map[string][]byte{}
	if _, err := collect(disk, root, nodes); err != nil {
		r.c.HarnessErr("unrelated trie does not walk: %v", err)
		return nil, nil
	}
	for _, h := range sortedKeys(nodes) {
		if _, own := r.srcNodes[h]; !own {
			r.unrel = append(r.unrel, nodes[h])
		}
	}
	return env, tr
}

// clampGetter is the honest peers' TrieDataGetter: the real trie, with the sub-trie prefetch budget clamped by a
// knob so that small tries need several request rounds (0 = this peer does not prefetch).
type clampGetter struct {
	t     data.Trie
	clamp int64
}

func (g *clampGetter) GetSerializedNode(h []byte) ([]byte, error) { return g.t.GetSerializedNode(h) }
func (g *clampGetter) GetSerializedNodes(h []byte, max uint64) ([][]byte, uint64, error) {
	if g.clamp == 0 {
		return nil, max, errors.New("prefetch disabled on this peer")
	}
	if g.clamp > 0 && max > uint64(g.clamp) {
		max = uint64(g.clamp)
	}
	return g.t.GetSerializedNodes(h, max)
}
func (g *clampGetter) IsInterfaceNil() bool { return g == nil }

func (r *run) addPeer(s *simkit.Step, unrelTrie data.Trie) {
	for _, q := range r.peers {
		if q.id == s.T {
			return
		}
	}
	if s.T < 0 || s.T > 7 {
		return
	}
	p := &peerT{id: s.T, kind: int(s.Int(0, 0)), pid: core.PeerID(fmt.Sprintf("peer-%d", s.T)), slow: time.Duration(s.Int(1, 0)) * time.Millisecond,
		seed: uint64(s.Int(2, 1)), subsetPm: int(s.Int(3, 500))}
	var getter data.Trie
	switch p.kind {
	case peerFull, peerSloppy:
		getter = r.srcTrie
	case peerUnrelated:
		getter = unrelTrie
	case peerPartial:
		disk := simkit.NewSimDisk(fmt.Sprintf("partial-%d", p.id), nil)
		rr := simkit.NewRand(p.seed)
		for _, h := range r.srcHashes {
			if rr.Intn(1000) < p.subsetPm {
				disk.RawPut([]byte(h), r.srcNodes[h])
			}
		}
		env := r.newEnv(disk, 100)
		if env == nil {
			return
		}
		t, err := env.NewTrie(5)
		if err != nil {
			r.c.HarnessErr("NewTrie: %v", err)
			return
		}
		getter = t
	case peerByzantine:
		rr := simkit.NewRand(p.seed)
		p.weights = make([]int, nForgeKinds)
		for i := range p.weights {
			p.weights[i] = rr.Intn(5)
		}
		p.weights[rr.Intn(nForgeKinds)] += 3
	default:
		return
	}
	if getter != nil {
		res, err := resolvers.NewTrieNodeResolver(resolvers.ArgTrieNodeResolver{
			SenderResolver:   &sender{r: r, p: p},
			TrieDataGetter:   &clampGetter{t: getter, clamp: r.prefetch},
			Marshalizer:      triekit.Marshalizer,
			AntifloodHandler: permissive{},
			Throttler:        permissive{},
		})
		if err != nil {
			r.c.HarnessErr("NewTrieNodeResolver: %v", err)
			return
		}
		p.resolver = res
	}
	r.peers = append(r.peers, p)
	r.c.Eventf("peer %d kind=%d slow=%v", p.id, p.kind, p.slow)
}

// recCacher passes everything through to the real LRU and records what the probes need.
type recCacher struct {
	storage.Cacher
	r *run
}

func (w *recCacher) Put(key []byte, value interface{}, size int) bool {
	ev := w.Cacher.Put(key, value, size)
	w.r.mu.Lock()
	if ev {
		w.r.probe("cacher_eviction")
	}
	w.r.saved[string(key)] = true
	w.r.mu.Unlock()
	return ev
}

// Get counts entries the pool hands back from its persister (serialized bytes only).
func (w *recCacher) Get(key []byte) (interface{}, bool) {
	if w.r.pool {
		if _, inMem := w.Cacher.Peek(key); !inMem {
			v, ok := w.Cacher.Get(key)
			if ok {
				w.r.mu.Lock()
				w.r.probe("pool_entry_read_back_from_persister")
				w.r.mu.Unlock()
			}
			return v, ok
		}
	}
	return w.Cacher.Get(key)
}

func execute(c *simkit.Ctx) (nontrivial bool) {
	simkit.Bubble(c, func() {
		r := &run{c: c, saved: map[string]bool{}, faults: map[string]int{}, probes: map[string]int{}}
		defer r.teardown()
		nontrivial = r.main()
	})
	return nontrivial
}

func (r *run) teardown() {
	// whatever happened (harness error, violation, panic on the driver): the syncing goroutine must have returned
	// before the bubble ends
	if r.started {
		r.stop = true
		r.drive()
	}
	if r.cancel != nil {
		r.cancel()
	}
	synctest.Wait()
	for _, e := range r.envs {
		e.Close()
	}
	if r.cacher != nil {
		_ = r.cacher.Close()
	}
	for _, k := range sortedInts(r.faults) {
		for i := 0; i < r.faults[k]; i++ {
			r.c.Fault(k)
		}
	}
	for _, k := range sortedInts(r.probes) {
		for i := 0; i < r.probes[k]; i++ {
			r.c.Probe(k)
		}
	}
}

func sortedInts(m map[string]int) []string {
	ks := make([]string, 0, len(m))
	for k := range m {
		ks = append(ks, k)
	}
	sort.Strings(ks)
	return ks
}

func (r *run) main() bool {
	c := r.c
	p := c.Plan
	r.accounts = p.Knob("accounts", 0) == 1
	r.hardcap = int(p.Knob("hardcap", 100))
	if r.hardcap < 1 {
		r.hardcap = 1
	}
	r.policy = p.Knob("batch_policy", 0)
	r.shuffle = uint64(p.Knob("shuffle", 1))
	r.prefetch = p.Knob("prefetch", -1)
	r.destPID = core.PeerID("destination")
	r.t0 = time.Now()

	if !r.buildSource() {
		return false
	}
	var unrelTrie data.Trie
	r.net = netCfg{seed: 1, maxDelay: 5, fanout: 1}
	for i := range p.Steps {
		s := &p.Steps[i]
		switch s.Op {
		case "unrel":
			if unrelTrie == nil {
				_, unrelTrie = r.buildUnrelated(uint64(s.Int(0, 1)), int(s.Int(1, 5)))
			}
		case "net":
			r.net = netCfg{seed: uint64(s.Int(0, 1)), reqDrop: s.Int(1, 0), reqDup: s.Int(2, 0), maxDelay: s.Int(3, 5), reorder: s.Int(4, 0),
				fanout: s.Int(5, 1), rDrop: s.Int(6, 0), rDup: s.Int(7, 0)}
		}
	}
	if unrelTrie == nil {
		_, unrelTrie = r.buildUnrelated(7, 3)
	}
	if c.Harness != "" {
		return false
	}
	if r.net.maxDelay < 1 {
		r.net.maxDelay = 1
	}
	for i := range p.Steps {
		s := &p.Steps[i]
		c.CurStep = i
		switch s.Op {
		case "peer":
			r.addPeer(s, unrelTrie)
		case "partition", "heal", "cancel", "diskfault":
			at := time.Duration(s.Int(0, 0))*time.Millisecond + stepShift
			r.push(&event{at: at, kind: s.Op, peer: s.T, i: s.I})
		}
	}
	c.CurStep = len(p.Steps)
	c.StepsDone = len(p.Steps)
	if c.Harness != "" {
		return false
	}

	// ---- destination ----
	r.destDisk = simkit.NewSimDisk("dest", c)
	if pm := p.Knob("preseed_pm", 0); pm > 0 {
		rr := simkit.NewRand(uint64(p.Knob("preseed_seed", 1)))
		for _, h := range r.srcHashes {
			if rr.Int63n(1000) < pm {
				r.destDisk.RawPut([]byte(h), r.srcNodes[h])
				r.preseeded++
			}
		}
	}
	c.Eventf("destination preseeded=%d syncer=%d accounts=%v pool=%d", r.preseeded, p.Knob("syncer", 2), r.accounts, p.Knob("pool", 0))
	r.destEnv = r.newEnv(r.destDisk, int(p.Knob("dest_cache", 100)))
	if r.destEnv == nil {
		return false
	}
	var lru storage.Cacher
	var err error
	capN := int(p.Knob("cacher_cap", 100000))
	if capN < 1 {
		capN = 1
	}
	if p.Knob("pool", 0) == 1 {
		// what the node uses (dataRetriever/factory.NewDataPoolFromConfig): capacity LRU + persister + trie node factory
		pc := int(p.Knob("pool_cap", 5))
		if pc < 1 {
			pc = 1
		}
		pb := p.Knob("pool_bytes", 0)
		if pb < 1 {
			pb = 1 << 40
		}
		var clru storage.AdaptedSizedLRUCache
		clru, err = capacity.NewCapacityLRU(pc, pb)
		if err == nil {
			r.poolDisk = simkit.NewSimDisk("pool", nil)
			lru, err = storageCacherAdapter.NewStorageCacherAdapter(clru, r.poolDisk, trieNodeFactory.NewTrieNodeFactory(), triekit.Marshalizer)
		}
		r.pool = true
	} else if b := p.Knob("cacher_bytes", 0); b > 0 {
		lru, err = lrucache.NewCacheWithSizeInBytes(capN, b)
	} else {
		lru, err = lrucache.NewCache(capN)
	}
	if err != nil {
		c.HarnessErr("lrucache: %v", err)
		return false
	}
	r.cacher = &recCacher{Cacher: lru, r: r}
	r.proc, err = processor.NewTrieNodesInterceptorProcessor(r.cacher)
	if err != nil {
		c.HarnessErr("processor: %v", err)
		return false
	}
	r.destRes, err = resolvers.NewTrieNodeResolver(resolvers.ArgTrieNodeResolver{
		SenderResolver: &sender{r: r}, TrieDataGetter: &clampGetter{t: r.srcTrie}, Marshalizer: triekit.Marshalizer,
		AntifloodHandler: permissive{}, Throttler: permissive{},
	})
	if err != nil {
		c.HarnessErr("NewTrieNodeResolver(dest): %v", err)
		return false
	}
	timeout := time.Duration(p.Knob("timeout_s", 5)) * time.Second
	if timeout < time.Second {
		timeout = time.Second
	}
	version := int(p.Knob("syncer", 2))
	if version != 1 {
		version = 2
	}
	var start func() error
	if r.accounts {
		thr, err := throttler.NewNumGoRoutinesThrottler(int32(1 + p.Knob("shuffle", 0)%3))
		if err != nil {
			c.HarnessErr("throttler: %v", err)
			return false
		}
		uas, err := syncer.NewUserAccountsSyncer(syncer.ArgsNewUserAccountsSyncer{
			ArgsNewBaseAccountsSyncer: syncer.ArgsNewBaseAccountsSyncer{
				Hasher: triekit.Hasher, Marshalizer: triekit.Marshalizer, TrieStorageManager: r.destEnv.TSM, RequestHandler: r,
				Timeout: timeout, Cacher: r.cacher, MaxTrieLevelInMemory: 5, MaxHardCapForMissingNodes: r.hardcap, TrieSyncerVersion: version,
			},
			ShardId: 0, Throttler: thr,
		})
		if err != nil {
			c.HarnessErr("NewUserAccountsSyncer: %v", err)
			return false
		}
		start = func() error { return uas.SyncAccounts(r.root) }
	} else {
		arg := trie.ArgTrieSyncer{
			Marshalizer: triekit.Marshalizer, Hasher: triekit.Hasher, DB: r.destEnv.TSM.Database(), RequestHandler: r, InterceptedNodes: r.cacher,
			ShardId: 0, Topic: topic, TrieSyncStatistics: statistics.NewTrieSyncStatistics(),
			TimeoutBetweenTrieNodesCommits: timeout, MaxHardCapForMissingNodes: r.hardcap,
		}
		ts, err := trie.CreateTrieSyncer(arg, version)
		if err != nil {
			c.HarnessErr("CreateTrieSyncer: %v", err)
			return false
		}
		var ctx context.Context
		ctx, r.cancel = context.WithCancel(context.Background())
		start = func() error { return ts.StartSyncing(r.root, ctx) }
	}

	r.started = true
	go func() {
		defer func() {
			if rec := recover(); rec != nil {
				st := string(debug.Stack())
				r.mu.Lock()
				r.panicMsg, r.panicStack, r.done = fmt.Sprint(rec), st, true
				r.mu.Unlock()
			}
		}()
		err := start()
		r.mu.Lock()
		r.done, r.result, r.finishedAt = true, err, time.Since(r.t0)
		r.mu.Unlock()
	}()

	r.drive()
	c.SimNanos += int64(time.Since(r.t0))
	c.StepsDone += r.delivered
	return r.judge()
}

// drive is the only place where simulated time passes and messages are delivered.
func (r *run) drive() {
	p := r.c.Plan
	limit := time.Duration(p.Knob("limit_s", 60))*time.Second + stepShift
	if limit < time.Second {
		limit = time.Second + stepShift
	}
	hard := limit + rescueFor
	if r.gaveUp {
		return
	}
	for {
		synctest.Wait()
		r.mu.Lock()
		done := r.done
		r.mu.Unlock()
		if done {
			return
		}
		now := time.Since(r.t0)
		if (r.stop || now >= limit) && !r.ending {
			r.ending = true
			if !r.stop {
				r.probe("limit_reached")
			}
			if r.cancel != nil {
				r.cancel()
				continue
			}
			r.enterRescue()
		}
		if r.rescue && now >= hard && !r.poisoned {
			// Not a verdict and not a harness error: the statement speaks about syncs that complete. SyncAccounts has
			// no context, so the only way left to make it return is to let every write to the destination fail.
			r.poisoned = true
			r.probe("sync_never_returned_on_perfect_network")
			r.putErrBase = r.c.Faults["put_error"]
			r.destDisk.ArmAll("put_error")
		}
		if r.poisoned && now >= hard+poisonFor {
			r.gaveUp = true
			r.probe("sync_unstoppable")
			return
		}
		r.deliverDue(now)
		next := (now/tickEvery+1)*tickEvery + tickShift
		if now%tickEvery < tickShift {
			next = now/tickEvery*tickEvery + tickShift
		}
		if at, ok := r.nextAt(); ok && at < next {
			next = at
		}
		if !r.ending && limit < next {
			next = limit
		}
		if next <= now {
			next = now + tickShift
		}
		time.Sleep(next - now)
	}
}

// enterRescue (accounts arm, which has no context to cancel): from now on the network is perfect, one full honest
// peer answers with the resolver's own prefetch budget, the destination disk has no faults and the intercepted-nodes
// cacher is replaced by a roomy one (all syncer goroutines are parked in their polling sleep when this runs), so that
// SyncAccounts returns.
func (r *run) enterRescue() {
	r.mu.Lock()
	defer r.mu.Unlock()
	r.rescue = true
	r.destDisk.Disarm()
	r.net = netCfg{seed: r.net.seed, maxDelay: 3, fanout: 1}
	r.queue = nil
	full := &peerT{id: 9, kind: peerFull, pid: core.PeerID("peer-rescue")}
	res, err := resolvers.NewTrieNodeResolver(resolvers.ArgTrieNodeResolver{
		SenderResolver: &sender{r: r, p: full}, TrieDataGetter: &clampGetter{t: r.srcTrie, clamp: -1}, Marshalizer: triekit.Marshalizer,
		AntifloodHandler: permissive{}, Throttler: permissive{},
	})
	if err != nil {
		r.c.HarnessErr("rescue resolver: %v", err)
		return
	}
	full.resolver = res
	// no cache pressure either: the recorder now forwards to a cacher that holds every node of the source
	if rc, ok := r.cacher.(*recCacher); ok {
		if big, err := lrucache.NewCache(1000000); err == nil {
			old := rc.Cacher
			rc.Cacher = big
			_ = old.Close()
		}
	}
	full.slow = 0
	r.peers = []*peerT{full}
}

// judge applies the oracle of C05 to the destination disk.
func (r *run) judge() bool {
	c := r.c
	r.destDisk.Disarm()
	if r.poisoned { // writes failed on purpose to end the run: not an injected fault of the plan
		c.Faults["put_error"] = r.putErrBase
		if r.putErrBase == 0 {
			delete(c.Faults, "put_error")
		}
	}
	if r.gaveUp {
		return false
	}
	if r.poisoned {
		r.probe("ended_by_failing_every_write")
	}
	faultfree := c.Plan.Arm == "faultfree"
	if faultfree {
		r.probe("faultfree_runs")
	}
	if c.Harness != "" || c.Failed(prop) {
		return false
	}
	if r.panicMsg != "" {
		r.violate("panic-in-syncer", repoSite(r.panicStack), "the syncing goroutine panicked: %s", r.panicMsg)
		return false
	}
	if r.result != nil {
		switch {
		case errors.Is(r.result, trie.ErrContextClosing):
			if r.ending {
				r.probe("ended_by_limit")
			} else {
				r.probe("cancelled")
			}
		case errors.Is(r.result, trie.ErrTimeIsOut) || errors.Is(r.result, data.ErrTimeIsOut):
			r.probe("timeout")
		case errors.Is(r.result, simkit.ErrInjected):
			r.probe("failed_on_disk_error")
		default:
			r.probe("failed_other")
		}
		if faultfree {
			r.probe("no_completion_faultfree")
			c.Eventf("result: error in the fault-free arm: %v", r.result)
		}
		// nothing is asserted about a failed sync; count what the last clause of the statement would say
		for _, k := range r.destDisk.Keys() {
			v, _ := r.destDisk.RawGet([]byte(k))
			if !bytes.Equal(triekit.Hash(v), []byte(k)) {
				r.probe("foreign_key_after_failed_sync")
				break
			}
		}
		return false
	}
	if faultfree {
		r.probe("faultfree_completed")
		c.Eventf("result: synced")
	}
	if r.rescue {
		r.probe("completed_in_rescue_mode")
	}
	if r.preseeded > 0 && r.preseeded < len(r.srcHashes) {
		r.probe("resumed_from_preseeded_nodes")
	}

	// (1) every node reachable from the root is on the disk under the hash of its own bytes; leaves = source
	total := 0
	want := r.want
	if r.accounts && c.Faults["get_error"] > 0 && len(want) > 1 {
		// Which data tries SyncAccounts syncs is decided by a leaf scan of the synced main trie
		// (GetAllLeavesOnChannel), and that API logs a storage read error and closes the channel: after an injected
		// read error the scan may have been cut short, so a data trie may never have been started. The statement
		// speaks about a trie whose sync completed; only the main trie is known to be one. Counted, not judged.
		for _, e := range want[1:] {
			if _, err := triekit.Walk(r.destDisk, e.root); err != nil {
				r.probe("accounts_data_trie_skipped_after_read_error")
				break
			}
		}
		want = want[:1]
	}
	for _, e := range want {
		w, err := triekit.Walk(r.destDisk, e.root)
		if err != nil {
			kind := "malformed-node"
			if errors.Is(err, triekit.ErrMissing) {
				kind = "missing-node"
			} else if errors.Is(err, triekit.ErrForeign) {
				kind = "foreign-hash"
			}
			r.violate(kind, "walk "+e.name, "sync of root %x returned nil but the %s trie (root %x) on the destination disk: %v", r.root, e.name, e.root, err)
			return true
		}
		total += len(w.Nodes)
		if d := triekit.SameLeaves(w.Leaves, e.model); d != "" {
			r.violate("leaves-differ", "walk "+e.name, "sync of root %x returned nil but the %s trie on the destination disk differs from the source: %s", r.root, e.name, d)
			return true
		}
	}
	// (2) a node is only ever stored under the hash of its own content
	for _, k := range r.destDisk.Keys() {
		v, _ := r.destDisk.RawGet([]byte(k))
		if !bytes.Equal(triekit.Hash(v), []byte(k)) {
			r.violate("foreign-key-stored", "destination disk", "after a successful sync key %x holds %d bytes hashing to %x", k, len(v), triekit.Hash(v))
			return true
		}
	}
	// (3) the recreated trie (cold storage stack over the same disk) has that root hash and the source's contents
	cold := r.newEnv(r.destDisk, 10)
	if cold == nil {
		return false
	}
	for _, e := range want {
		base, err := cold.NewTrie(5)
		if err != nil {
			c.HarnessErr("NewTrie: %v", err)
			return false
		}
		rt, err := base.Recreate(e.root)
		if err != nil || rt == nil {
			r.violate("recreate-failed", "Recreate "+e.name, "sync returned nil but Recreate(%x) on the destination fails: %v", e.root, err)
			return true
		}
		rh, err := rt.RootHash()
		if err != nil || !bytes.Equal(rh, e.root) {
			r.violate("recreated-root-differs", "RootHash "+e.name, "recreated trie has root %x (err %v), requested %x", rh, err, e.root)
			return true
		}
		for _, k := range sortedKeys(e.model) {
			got, err := rt.Get([]byte(k))
			if err != nil || !bytes.Equal(got, e.model[k]) {
				r.violate("get-differs", "Get "+e.name, "recreated trie: Get(%x) = %x, %v; the source holds %x", k, got, err, e.model[k])
				return true
			}
		}
	}
	if faultfree {
		c.Eventf("destination nodes=%d", total)
	}
	r.c.FP("synced", total, r.preseeded)
	return total >= 3 && r.viaNet > 0
}
