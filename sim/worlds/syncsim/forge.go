package syncsim

import (
	"github.com/ElrondNetwork/elrond-go/data/batch"
	"github.com/ElrondNetwork/elrond-go/data/trie"

	"verifsim/simkit"
	"verifsim/triekit"
)

// Element kinds a Byzantine peer mixes into its answers.
const (
	fgGenuine      = iota // the requested node itself (a Byzantine peer is sometimes useful)
	fgForeign             // a node of the unrelated trie
	fgCorrupt             // the requested node with a flipped / cut / added byte or another type byte
	fgReencoded           // the requested node decoded, changed (child hash, value, key, fewer children) and re-encoded
	fgRandom              // random bytes
	fgShortBranch         // a branch whose child list has fewer or more than 17 entries
	fgDegenerate          // extension without child / key, leaf without key, branch with one child, all-empty branch
	fgTypedGarbage        // random bytes followed by a valid type byte
	fgNonCanonical        // the requested node with an unknown protobuf field added: same content, other bytes
	fgUnsolicited         // a genuine node of the source trie nobody asked for
	nForgeKinds
)

const (
	typeExtension = 0
	typeLeaf      = 1
	typeBranch    = 2
)

func enc(m interface{}, typ byte) []byte {
	b, err := triekit.Marshalizer.Marshal(m)
	if err != nil {
		return []byte{typ}
	}
	return append(b, typ)
}

func randHash(rr *simkit.Rand) []byte { return rr.Bytes(32) }

// forgeElement produces one element of a forged answer; real is the genuine encoding of a requested node (may be nil).
func (r *run) forgeElement(rr *simkit.Rand, kind int, real []byte) ([]byte, bool) {
	switch kind {
	case fgGenuine:
		if real != nil {
			return real, false
		}
	case fgForeign:
		if len(r.unrel) > 0 {
			return r.unrel[rr.Intn(len(r.unrel))], true
		}
	case fgCorrupt:
		if len(real) > 1 {
			b := append([]byte(nil), real...)
			switch rr.Intn(5) {
			case 0:
				b[rr.Intn(len(b))] ^= byte(1 << uint(rr.Intn(8)))
			case 1:
				b = b[:rr.Intn(len(b))]
			case 2:
				b = append(b, byte(rr.Intn(256)))
			case 3:
				b[len(b)-1] = byte(rr.Intn(4))
			default:
				b = append(b[:len(b)-1], rr.Bytes(rr.Range(1, 5))...)
				b = append(b, real[len(real)-1])
			}
			return b, true
		}
	case fgReencoded:
		if len(real) > 1 {
			typ, body := real[len(real)-1], real[:len(real)-1]
			switch typ {
			case typeBranch:
				bn := &trie.CollapsedBn{}
				if bn.Unmarshal(body) == nil && len(bn.EncodedChildren) > 0 {
					i := rr.Intn(len(bn.EncodedChildren))
					switch rr.Intn(4) {
					case 0:
						bn.EncodedChildren[i] = randHash(rr)
					case 1:
						bn.EncodedChildren[i] = nil
					case 2:
						bn.EncodedChildren = bn.EncodedChildren[:i]
					default:
						j := rr.Intn(len(bn.EncodedChildren))
						bn.EncodedChildren[i], bn.EncodedChildren[j] = bn.EncodedChildren[j], bn.EncodedChildren[i]
					}
					return enc(bn, typeBranch), true
				}
			case typeExtension:
				en := &trie.CollapsedEn{}
				if en.Unmarshal(body) == nil {
					switch rr.Intn(3) {
					case 0:
						en.EncodedChild = randHash(rr)
					case 1:
						en.Key = append(en.Key, byte(rr.Intn(16)))
					default:
						if len(en.Key) > 0 {
							en.Key = en.Key[1:]
						}
					}
					return enc(en, typeExtension), true
				}
			case typeLeaf:
				ln := &trie.CollapsedLn{}
				if ln.Unmarshal(body) == nil {
					switch rr.Intn(3) {
					case 0:
						ln.Value = append(append([]byte(nil), ln.Value...), 'x')
					case 1:
						ln.Value = rr.Bytes(rr.Range(1, 40))
					default:
						if len(ln.Key) > 0 {
							ln.Key = append([]byte(nil), ln.Key...)
							ln.Key[0] ^= 1
						}
					}
					return enc(ln, typeLeaf), true
				}
			}
		}
	case fgRandom:
		return rr.Bytes(rr.Intn(120)), true
	case fgShortBranch:
		n := []int{0, 1, 2, 3, 8, 15, 16, 18, 20, 40}[rr.Intn(10)]
		bn := &trie.CollapsedBn{EncodedChildren: make([][]byte, n)}
		for i, filled := 0, rr.Intn(4); i < filled && n > 0; i++ {
			bn.EncodedChildren[rr.Intn(n)] = randHash(rr)
		}
		if rr.Chance(0.25) {
			for i := range bn.EncodedChildren {
				bn.EncodedChildren[i] = randHash(rr)
			}
		}
		return enc(bn, typeBranch), true
	case fgDegenerate:
		switch rr.Intn(7) {
		case 0:
			return enc(&trie.CollapsedEn{Key: []byte{1, 2}}, typeExtension), true
		case 1:
			return enc(&trie.CollapsedEn{EncodedChild: randHash(rr)}, typeExtension), true
		case 2:
			return enc(&trie.CollapsedEn{}, typeExtension), true
		case 3:
			return enc(&trie.CollapsedLn{Value: []byte("v")}, typeLeaf), true
		case 4:
			return enc(&trie.CollapsedLn{}, typeLeaf), true
		case 5:
			bn := &trie.CollapsedBn{EncodedChildren: make([][]byte, 17)}
			bn.EncodedChildren[rr.Intn(17)] = randHash(rr)
			return enc(bn, typeBranch), true
		default:
			return enc(&trie.CollapsedBn{EncodedChildren: make([][]byte, 17)}, typeBranch), true
		}
	case fgTypedGarbage:
		return append(rr.Bytes(rr.Intn(80)), byte(rr.Intn(3))), true
	case fgNonCanonical:
		if nc := nonCanonical(rr, real); nc != nil {
			return nc, true
		}
	case fgUnsolicited:
		if len(r.srcHashes) > 0 {
			return r.srcNodes[r.srcHashes[rr.Intn(len(r.srcHashes))]], false
		}
	}
	return rr.Bytes(rr.Range(1, 40)), true
}

// byzantineAnswer answers request e the way peer p's profile says. The content is a function of (peer seed, number of
// requests this peer has seen, requested hashes).
func (r *run) byzantineAnswer(p *peerT, e *event) {
	rr := simkit.NewRand(simkit.Mix(p.seed, uint64(p.nServed)))
	switch rr.Intn(20) {
	case 0: // silence
		r.fault("forge")
		return
	case 1: // not a batch at all
		r.fault("forge")
		r.enqueueResponse(p, rr.Bytes(rr.Range(1, 60)), 1)
		return
	case 2: // an empty batch
		if b, err := triekit.Marshalizer.Marshal(&batch.Batch{}); err == nil {
			r.fault("forge")
			r.enqueueResponse(p, b, 1)
		}
		return
	}
	n := rr.Range(1, 6)
	if rr.Chance(0.1) {
		n = rr.Range(10, 40)
	}
	var elems [][]byte
	forged := 0
	for i := 0; i < n; i++ {
		var real []byte
		if len(e.hashes) > 0 {
			real = r.srcNodes[string(e.hashes[rr.Intn(len(e.hashes))])]
		}
		el, isForged := r.forgeElement(rr, rr.Weighted(p.weights), real)
		if isForged {
			forged++
		}
		elems = append(elems, el)
	}
	b, err := triekit.Marshalizer.Marshal(&batch.Batch{Data: elems})
	if err != nil {
		return
	}
	if forged > 0 {
		r.fault("forge")
	}
	// forged is at least 1 so that the seam leaves the element order alone and a panic is attributed to this peer
	r.enqueueResponse(p, b, forged+1)
}

// pbBytes encodes one length-delimited protobuf field.
func pbBytes(field byte, v []byte) []byte {
	out := []byte{field<<3 | 2}
	n := len(v)
	for n >= 0x80 {
		out = append(out, byte(n)|0x80)
		n >>= 7
	}
	out = append(out, byte(n))
	return append(out, v...)
}

// nonCanonical returns another byte string that decodes to exactly the node real encodes: an unknown protobuf field
// (number 15, varint) in front of, inside or behind the known fields, or - for extension and leaf nodes - the two
// fields in the opposite order. Its content hash (what the repository hashes: the re-marshalled node) is unchanged,
// the hash of the raw bytes is not.
func nonCanonical(rr *simkit.Rand, real []byte) []byte {
	if len(real) < 2 {
		return nil
	}
	typ, body := real[len(real)-1], real[:len(real)-1]
	unknown := []byte{0x78, byte(1 + rr.Intn(100))}
	variant := rr.Intn(3)
	if variant == 2 {
		switch typ {
		case typeExtension:
			en := &trie.CollapsedEn{}
			if en.Unmarshal(body) == nil && len(en.Key) > 0 && len(en.EncodedChild) > 0 {
				return append(append(pbBytes(2, en.EncodedChild), pbBytes(1, en.Key)...), typ)
			}
		case typeLeaf:
			ln := &trie.CollapsedLn{}
			if ln.Unmarshal(body) == nil && len(ln.Key) > 0 && len(ln.Value) > 0 {
				return append(append(pbBytes(2, ln.Value), pbBytes(1, ln.Key)...), typ)
			}
		}
		variant = rr.Intn(2)
	}
	var b []byte
	if variant == 0 {
		b = append(append(b, body...), unknown...)
	} else {
		b = append(append(b, unknown...), body...)
	}
	return append(b, typ)
}
