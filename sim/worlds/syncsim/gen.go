package syncsim

import (
	"verifsim/simkit"
)

// Peer kinds (Step "peer", I[0]).
const (
	peerFull      = 0 // honest, holds the whole source storage
	peerUnrelated = 1 // honest, holds an unrelated trie
	peerPartial   = 2 // honest, holds a subset of the source nodes
	peerByzantine = 3 // answers with forged material
	peerSloppy    = 4 // honest, holds the whole source storage, but encodes its answers non-canonically (same content)
)

// genKeys builds n distinct keys. The trie indexes keys by their nibbles in reverse order, so shared byte
// suffixes are shared nibble prefixes (extension nodes, deep paths).
func genKeys(r *simkit.Rand, n int, style int) [][]byte {
	seen := map[string]bool{}
	var out [][]byte
	add := func(k []byte) {
		if !seen[string(k)] {
			seen[string(k)] = true
			out = append(out, append([]byte(nil), k...))
		}
	}
	alpha := [][]byte{{0x00, 0x01, 0x10, 0x11}, {0x61, 0x62, 0x63, 0x64, 0x65, 0x66}, {0xff, 0xf0, 0x0f, 0xab, 0xba}, {0x12, 0x21, 0x22, 0x11, 0x02, 0x20, 0x01, 0x10}}[r.Intn(4)]
	pick := func() byte { return alpha[r.Intn(len(alpha))] }
	var suffixes [][]byte
	for i, ns := 0, r.Range(1, 4); i < ns; i++ {
		sl := r.Range(1, 6)
		if r.Chance(0.3) {
			sl = r.Range(20, 31)
		}
		s := make([]byte, sl)
		for j := range s {
			s[j] = pick()
		}
		suffixes = append(suffixes, s)
	}
	for tries := 0; len(out) < n && tries < 50*n+100; tries++ {
		st := style
		if st == 3 {
			st = r.Intn(3)
		}
		switch st {
		case 0: // address-like
			add(r.Bytes(32))
		case 1: // short, dense
			k := make([]byte, r.Range(1, 3))
			for j := range k {
				if r.Chance(0.8) {
					k[j] = pick()
				} else {
					k[j] = byte(r.Intn(256))
				}
			}
			add(k)
		default: // prefix + shared suffix, sometimes the bare suffix (a key that is a suffix of others)
			s := suffixes[r.Intn(len(suffixes))]
			if r.Chance(0.05) {
				add(s)
				continue
			}
			k := make([]byte, r.Range(1, 3))
			for j := range k {
				if r.Chance(0.7) {
					k[j] = pick()
				} else {
					k[j] = byte(r.Intn(256))
				}
			}
			add(append(k, s...))
		}
	}
	return out
}

func valLen(r *simkit.Rand, profile int) int64 {
	switch profile {
	case 0:
		return int64(r.Range(1, 40))
	case 1:
		if r.Chance(0.3) {
			return int64(r.Range(100, 500))
		}
		return int64(r.Range(1, 60))
	default: // a few large values so that the resolver's 256 KB budget binds
		if r.Chance(0.5) {
			return int64(r.Range(3000, 20000))
		}
		return int64(r.Range(1, 300))
	}
}

func pickInt(r *simkit.Rand, xs ...int) int64 { return int64(xs[r.Intn(len(xs))]) }

func generate(r *simkit.Rand, prop, tier string) *simkit.Plan {
	p := &simkit.Plan{Knobs: map[string]int64{}}
	faulty := r.Chance(0.72)
	p.Arm = "faultfree"
	if faulty {
		p.Arm = "faults"
	}
	accounts := r.Chance(0.15)
	syncer := int64(r.Range(1, 2))
	p.Knobs["syncer"] = syncer
	if accounts {
		p.Knobs["accounts"] = 1
	}
	p.Knobs["max_level"] = int64(r.Range(1, 8))
	p.Knobs["dest_cache"] = pickInt(r, 1, 4, 50, 5000)
	p.Knobs["batch_policy"] = int64(r.Intn(2))
	p.Knobs["shuffle"] = int64(r.Uint64() >> 1)

	// knobs that are not faults but decide how many rounds a sync needs
	if faulty {
		p.Knobs["hardcap"] = pickInt(r, 1, 2, 5, 20, 100, 5000)
		p.Knobs["cacher_cap"] = pickInt(r, 1, 3, 10, 50, 500, 100000)
		p.Knobs["timeout_s"] = pickInt(r, 1, 2, 5, 30)
		p.Knobs["limit_s"] = pickInt(r, 20, 60, 120)
	} else {
		// no cache pressure in the fault-free arm: the cacher holds a whole answer
		p.Knobs["hardcap"] = pickInt(r, 5, 20, 100, 5000)
		p.Knobs["cacher_cap"] = pickInt(r, 1000, 100000)
		p.Knobs["timeout_s"] = pickInt(r, 5, 30)
		p.Knobs["limit_s"] = 60
	}
	if r.Chance(0.3) {
		if faulty {
			p.Knobs["cacher_bytes"] = pickInt(r, 2000, 20000, 300000)
		} else {
			p.Knobs["cacher_bytes"] = pickInt(r, 1000000, 100000000)
		}
	}
	if r.Chance(0.4) { // the node's real intercepted-nodes pool: small capacity LRU spilling evicted entries to a persister
		p.Knobs["pool"] = 1
		p.Knobs["pool_cap"] = pickInt(r, 1, 2, 5, 20, 200)
		if r.Chance(0.3) {
			p.Knobs["pool_bytes"] = pickInt(r, 500, 3000, 30000)
		}
	}
	p.Knobs["prefetch"] = pickInt(r, -1, -1, 0, 300, 3000, 30000)
	if r.Chance(0.35) {
		p.Knobs["preseed_pm"] = pickInt(r, 50, 300, 700, 950, 1000)
		p.Knobs["preseed_seed"] = int64(r.Uint64() >> 1)
	}

	// ---- source history ----
	harsh := p.Knobs["hardcap"] <= 2 || p.Knobs["cacher_cap"] <= 10 || (p.Knobs["cacher_bytes"] > 0 && p.Knobs["cacher_bytes"] <= 2000)
	nLeaves := []int{1, 2, r.Range(3, 10), r.Range(10, 50), r.Range(50, 150), r.Range(150, 400)}[r.Weighted([]int{1, 1, 4, 6, 5, 3})]
	if harsh && nLeaves > 60 {
		nLeaves = r.Range(5, 60)
	}
	if accounts && nLeaves > 60 {
		nLeaves = r.Range(3, 60)
	}
	if !faulty && syncer == 1 && p.Knobs["hardcap"] < 100 && nLeaves > 60 { // one round per second: keep the fault-free arm inside its 60 s
		nLeaves = r.Range(5, 60)
	}
	profile := r.Weighted([]int{5, 4, 1})
	if profile == 2 && nLeaves > 50 {
		nLeaves = r.Range(10, 50)
	}
	style := r.Intn(4)
	if accounts {
		style = 0
	}
	keys := genKeys(r, nLeaves, style)
	nData := 0
	if accounts {
		nData = r.Range(1, 3)
	}
	vseed := func() int64 { return int64(r.Uint64() >> 1) }
	live := map[string]bool{}
	putStep := func(k []byte) simkit.Step {
		if accounts && r.Chance(0.8) {
			d := int64(-1)
			if r.Chance(0.5) {
				d = int64(r.Intn(nData))
			}
			return simkit.Step{Op: "acct", B: []simkit.HexBytes{k}, I: []int64{int64(r.Intn(1000)), d}}
		}
		return simkit.Step{Op: "put", B: []simkit.HexBytes{k}, I: []int64{valLen(r, profile), vseed()}}
	}
	for d := 0; d < nData; d++ {
		dk := genKeys(r, r.Range(1, 25), r.Intn(4))
		for _, k := range dk {
			p.Steps = append(p.Steps, simkit.Step{Op: "dput", T: d, B: []simkit.HexBytes{k}, I: []int64{valLen(r, r.Intn(2)), vseed()}})
		}
	}
	commitP := []float64{0, 0.01, 0.05}[r.Intn(3)]
	delP := []float64{0, 0.05, 0.2}[r.Intn(3)]
	for _, i := range r.Perm(len(keys)) {
		k := keys[i]
		p.Steps = append(p.Steps, putStep(k))
		live[string(k)] = true
		if r.Chance(0.08) { // overwrite an earlier key
			k2 := keys[r.Intn(len(keys))]
			if live[string(k2)] {
				p.Steps = append(p.Steps, putStep(k2))
			}
		}
		if r.Chance(delP) {
			k2 := keys[r.Intn(len(keys))]
			if live[string(k2)] {
				p.Steps = append(p.Steps, simkit.Step{Op: "del", B: []simkit.HexBytes{k2}})
				live[string(k2)] = false
				if r.Chance(0.5) {
					p.Steps = append(p.Steps, putStep(k2))
					live[string(k2)] = true
				}
			}
		}
		if r.Chance(commitP) {
			p.Steps = append(p.Steps, simkit.Step{Op: "commit"})
		}
	}
	p.Steps = append(p.Steps, simkit.Step{Op: "unrel", I: []int64{vseed(), int64(r.Range(1, 60))}})

	// ---- peers and network ----
	if !faulty {
		ffKind := int64(peerFull)
		if r.Chance(0.3) {
			ffKind = peerSloppy
		}
		p.Steps = append(p.Steps, simkit.Step{Op: "peer", T: 0, I: []int64{ffKind, 0, vseed(), int64(r.Range(200, 1000))}})
		p.Steps = append(p.Steps, simkit.Step{Op: "net", I: []int64{vseed(), 0, 0, int64(r.Range(1, 80)), 0, 1, 0, 0}})
		return p
	}
	en := map[string]bool{}
	for _, f := range []string{"drop", "duplicate", "delay", "partition", "forge", "slow_peer", "get_error", "put_error", "cancel"} {
		if r.Chance(0.45) {
			en[f] = true
			p.Faults = append(p.Faults, f)
		}
	}
	nPeers := r.Range(1, 4)
	hasFull := false
	for id := 0; id < nPeers; id++ {
		kind := int64(r.Weighted([]int{5, 1, 2, 0, 2}))
		if en["forge"] {
			kind = int64(r.Weighted([]int{4, 1, 2, 4, 2}))
		}
		if id == nPeers-1 && !hasFull && r.Chance(0.85) {
			kind = peerFull
		}
		if kind == peerFull || kind == peerSloppy {
			hasFull = true
		}
		slow := int64(0)
		if en["slow_peer"] && r.Chance(0.5) {
			slow = pickInt(r, 150, 700, 1300, 2600)
		}
		p.Steps = append(p.Steps, simkit.Step{Op: "peer", T: id, I: []int64{kind, slow, vseed(), int64(r.Range(100, 950))}})
	}
	net := []int64{vseed(), 0, 0, pickInt(r, 1, 20, 80, 250), 0, int64(r.Range(1, nPeers)), 0, 0}
	if en["drop"] {
		net[1] = pickInt(r, 20, 100, 300, 600)
		net[6] = pickInt(r, 0, 50, 200, 500)
	}
	if en["duplicate"] {
		net[2] = pickInt(r, 50, 300, 800)
		net[7] = pickInt(r, 50, 300, 800)
	}
	if en["delay"] {
		net[4] = pickInt(r, 50, 300, 800)
	}
	p.Steps = append(p.Steps, simkit.Step{Op: "net", I: net})
	limitMs := int(p.Knobs["limit_s"]) * 1000
	when := func() int64 {
		if r.Chance(0.6) {
			return int64(r.Range(0, 3000))
		}
		return int64(r.Range(0, limitMs/2))
	}
	if en["partition"] {
		for i, n := 0, r.Range(1, 3); i < n; i++ {
			id := r.Intn(nPeers)
			at := when()
			p.Steps = append(p.Steps, simkit.Step{Op: "partition", T: id, I: []int64{at}})
			if r.Chance(0.8) {
				p.Steps = append(p.Steps, simkit.Step{Op: "heal", T: id, I: []int64{at + int64(r.Range(100, 8000))}})
			}
		}
	}
	for _, k := range []string{"get_error", "put_error"} {
		if en[k] {
			kind := int64(0)
			if k == "put_error" {
				kind = 1
			}
			for i, n := 0, r.Range(1, 2); i < n; i++ {
				p.Steps = append(p.Steps, simkit.Step{Op: "diskfault", I: []int64{when(), kind, int64(r.Intn(20))}})
			}
		}
	}
	if en["cancel"] && r.Chance(0.6) {
		p.Steps = append(p.Steps, simkit.Step{Op: "cancel", I: []int64{when()}})
	}
	return p
}
