package syncsim

import (
	"bytes"
	"fmt"
	"sort"
	"time"

	"github.com/ElrondNetwork/elrond-go/core"
	"github.com/ElrondNetwork/elrond-go/data/batch"
	"github.com/ElrondNetwork/elrond-go/data/trie"
	"github.com/ElrondNetwork/elrond-go/dataRetriever"
	retrieverMock "github.com/ElrondNetwork/elrond-go/dataRetriever/mock"
	"github.com/ElrondNetwork/elrond-go/p2p"

	"verifsim/simkit"
	"verifsim/triekit"
)

// event is one entry of the simulated network's queue (or a timed plan step).
type event struct {
	at     time.Duration
	seq    int
	kind   string // "req", "resp", "partition", "heal", "cancel", "diskfault"
	peer   int
	data   []byte
	hashes [][]byte // req: the requested hashes (what a Byzantine peer reads out of the request)
	forged int      // resp: number of forged elements inside
	dup    bool
	i      []int64
}

func (r *run) push(e *event) {
	r.seq++
	e.seq = r.seq
	r.queue = append(r.queue, e)
}

func (r *run) nextAt() (time.Duration, bool) {
	r.mu.Lock()
	defer r.mu.Unlock()
	if len(r.queue) == 0 {
		return 0, false
	}
	m := r.queue[0].at
	for _, e := range r.queue[1:] {
		if e.at < m {
			m = e.at
		}
	}
	return m, true
}

func (r *run) popDue(now time.Duration) *event {
	r.mu.Lock()
	defer r.mu.Unlock()
	best := -1
	for i, e := range r.queue {
		if e.at > now {
			continue
		}
		if best < 0 || e.at < r.queue[best].at || (e.at == r.queue[best].at && e.seq < r.queue[best].seq) {
			best = i
		}
	}
	if best < 0 {
		return nil
	}
	e := r.queue[best]
	r.queue = append(r.queue[:best], r.queue[best+1:]...)
	return e
}

func (r *run) peerByID(id int) *peerT {
	for _, p := range r.peers {
		if p.id == id {
			return p
		}
	}
	return nil
}

func (r *run) deliverDue(now time.Duration) {
	for {
		e := r.popDue(now)
		if e == nil {
			return
		}
		if r.ending && !r.rescue {
			continue
		}
		r.delivered++
		switch e.kind {
		case "partition":
			if p := r.peerByID(e.peer); p != nil && !p.partitioned && !r.rescue {
				p.partitioned = true
				r.fault("partition")
			}
		case "heal":
			if p := r.peerByID(e.peer); p != nil && p.partitioned {
				p.partitioned = false
				r.fault("heal")
			}
		case "cancel":
			if r.cancel != nil && !r.ending {
				r.fault("cancel")
				r.cancel()
			}
		case "diskfault":
			if r.rescue || len(e.i) < 3 {
				continue
			}
			kind := "get_error"
			if e.i[1] == 1 {
				kind = "put_error"
			}
			r.destDisk.Arm(kind, int(e.i[2]))
		case "req":
			r.deliverRequest(e)
		case "resp":
			r.deliverResponse(e)
		}
	}
}

// ---- destination side: the request seam ----

// RequestTrieNodes is the syncers' RequestHandler. The hashes arrive in Go map order; the seam sorts them.
func (r *run) RequestTrieNodes(_ uint32, hashes [][]byte, _ string) {
	hs := make([][]byte, len(hashes))
	for i, h := range hashes {
		hs[i] = append([]byte(nil), h...)
	}
	sort.Slice(hs, func(i, j int) bool { return bytes.Compare(hs[i], hs[j]) < 0 })
	if len(hs) == 0 {
		return
	}
	// the real resolver marshals the request; its sender seam (below) puts it on the simulated network
	_ = r.destRes.RequestDataFromHashArray(hs, 0)
}

// RequestInterval is part of the RequestHandler interface.
func (r *run) RequestInterval() time.Duration { return time.Second }

// IsInterfaceNil is part of the RequestHandler interface.
func (r *run) IsInterfaceNil() bool { return r == nil }

// sender is the TopicResolverSender of one resolver: p == nil for the destination's resolver (requests go out),
// otherwise the serving peer (responses go out).
type sender struct {
	r *run
	p *peerT
}

func (s *sender) SendOnRequestTopic(rd *dataRetriever.RequestData, hashes [][]byte) error {
	buff, err := triekit.Marshalizer.Marshal(rd)
	if err != nil {
		return err
	}
	s.r.enqueueRequest(buff, hashes)
	return nil
}

func (s *sender) Send(buff []byte, _ core.PeerID) error {
	if s.p == nil {
		return nil
	}
	s.r.enqueueResponse(s.p, buff, 0)
	return nil
}
func (s *sender) RequestTopic() string            { return topic + "_REQUEST" }
func (s *sender) TargetShardID() uint32           { return 0 }
func (s *sender) SetNumPeersToQuery(_ int, _ int) {}
func (s *sender) NumPeersToQuery() (int, int)     { return 1, 1 }
func (s *sender) SetResolverDebugHandler(_ dataRetriever.ResolverDebugHandler) error {
	return nil
}
func (s *sender) ResolverDebugHandler() dataRetriever.ResolverDebugHandler {
	return &retrieverMock.ResolverDebugHandler{}
}
func (s *sender) IsInterfaceNil() bool { return s == nil }

// permissive is the antiflood handler and the throttler of every resolver.
type permissive struct{}

func (permissive) CanProcessMessage(_ p2p.MessageP2P, _ core.PeerID) error { return nil }
func (permissive) CanProcessMessagesOnTopic(_ core.PeerID, _ string, _ uint32, _ uint64, _ []byte) error {
	return nil
}
func (permissive) BlacklistPeer(_ core.PeerID, _ string, _ time.Duration) {}
func (permissive) CanProcess() bool                                       { return true }
func (permissive) StartProcessing()                                       {}
func (permissive) EndProcessing()                                         {}
func (permissive) IsInterfaceNil() bool                                   { return false }

func msDelay(rr *simkit.Rand, max int64) time.Duration {
	return time.Duration(1+rr.Int63n(max))*time.Millisecond + msgShift
}

// enqueueRequest runs on a syncer goroutine. The fate of request number k is a function of (net seed, k).
func (r *run) enqueueRequest(buff []byte, hashes [][]byte) {
	now := time.Since(r.t0)
	r.mu.Lock()
	defer r.mu.Unlock()
	idx := r.nReq
	r.nReq++
	if len(hashes) > r.hardcap {
		r.probe("request_larger_than_hard_cap")
	}
	for _, h := range hashes {
		if r.saved[string(h)] {
			if _, onDisk := r.destDisk.RawGet(h); !onDisk {
				r.probe("rerequested_after_cacher_loss")
				break
			}
		}
	}
	if len(r.peers) == 0 {
		return
	}
	rr := simkit.NewRand(simkit.Mix(r.net.seed, uint64(idx)))
	perm := rr.Perm(len(r.peers))
	fan := int(r.net.fanout)
	if fan < 1 {
		fan = 1
	}
	if fan > len(perm) {
		fan = len(perm)
	}
	for _, pi := range perm[:fan] {
		p := r.peers[pi]
		drop := rr.Int63n(1000) < r.net.reqDrop
		dup := rr.Int63n(1000) < r.net.reqDup
		late := rr.Int63n(1000) < r.net.reorder
		d1, d2, extra := msDelay(rr, r.net.maxDelay), msDelay(rr, r.net.maxDelay*3), time.Duration(rr.Int63n(3000))*time.Millisecond
		if drop {
			r.fault("drop")
			continue
		}
		if late {
			r.fault("delay")
			d1 += extra
		}
		r.push(&event{at: now + d1, kind: "req", peer: p.id, data: buff, hashes: hashes})
		if dup {
			r.fault("duplicate")
			r.push(&event{at: now + d2, kind: "req", peer: p.id, data: buff, hashes: hashes, dup: true})
		}
	}
}

// enqueueResponse runs on the driver goroutine (inside a peer's resolver or the Byzantine generator).
func (r *run) enqueueResponse(p *peerT, buff []byte, forged int) {
	now := time.Since(r.t0)
	r.mu.Lock()
	defer r.mu.Unlock()
	idx := r.nResp
	r.nResp++
	rr := simkit.NewRand(simkit.Mix(r.net.seed^0x5eed5eed5eed, uint64(idx)))
	drop := rr.Int63n(1000) < r.net.rDrop
	dup := rr.Int63n(1000) < r.net.rDup
	late := rr.Int63n(1000) < r.net.reorder
	d1, d2, extra := msDelay(rr, r.net.maxDelay), msDelay(rr, r.net.maxDelay*3), time.Duration(rr.Int63n(3000))*time.Millisecond
	// the resolver builds the batch from a Go map: the seam fixes the order (sorted, then shuffled from the plan)
	b := batch.Batch{}
	if forged == 0 && triekit.Marshalizer.Unmarshal(&b, buff) == nil && len(b.Data) > 0 {
		sort.Slice(b.Data, func(i, j int) bool { return bytes.Compare(b.Data[i], b.Data[j]) < 0 })
		sh := simkit.NewRand(simkit.Mix(r.shuffle, uint64(idx)))
		for i := len(b.Data) - 1; i > 0; i-- {
			j := sh.Intn(i + 1)
			b.Data[i], b.Data[j] = b.Data[j], b.Data[i]
		}
		if p.kind == peerSloppy { // same nodes, other bytes: a share of the elements is re-encoded non-canonically
			for i := range b.Data {
				if sh.Intn(1000) < p.subsetPm {
					if nc := nonCanonical(sh, b.Data[i]); nc != nil {
						b.Data[i] = nc
						r.probe("non_canonical_encoding_sent")
					}
				}
			}
		}
		if nb, err := triekit.Marshalizer.Marshal(&b); err == nil {
			buff = nb
		}
	}
	if drop {
		r.fault("drop")
		return
	}
	if p.slow > 0 {
		r.fault("slow_peer")
		d1 += p.slow
		d2 += p.slow
	}
	if late {
		r.fault("delay")
		d1 += extra
	}
	r.push(&event{at: now + d1, kind: "resp", peer: p.id, data: buff, forged: forged})
	if dup {
		r.fault("duplicate")
		r.push(&event{at: now + d2, kind: "resp", peer: p.id, data: buff, forged: forged, dup: true})
	}
}

// ---- peer side ----

func (r *run) deliverRequest(e *event) {
	p := r.peerByID(e.peer)
	if p == nil {
		return
	}
	if p.partitioned {
		r.probe("lost_to_partition")
		return
	}
	p.nServed++
	if p.kind == peerByzantine {
		r.byzantineAnswer(p, e)
		return
	}
	msg := &retrieverMock.P2PMessageMock{DataField: e.data, PeerField: r.destPID, FromField: []byte(r.destPID), TopicField: topic + "_REQUEST",
		SeqNoField: []byte{byte(e.seq >> 8), byte(e.seq)}}
	r.guarded("panic-in-resolver", func() string { return fmt.Sprintf("request for %d hashes at peer %d", len(e.hashes), p.id) }, func() {
		_ = p.resolver.ProcessReceivedMessage(msg, r.destPID)
	})
}

// ---- destination side: what the multi-data interceptor does with a message on the trie-nodes topic ----

func (r *run) deliverResponse(e *event) {
	p := r.peerByID(e.peer)
	if p == nil {
		return
	}
	if p.partitioned {
		r.probe("lost_to_partition")
		return
	}
	if e.dup {
		r.probe("duplicate_delivered")
	}
	kind := "panic-on-delivery"
	if e.forged > 0 {
		kind = "panic-on-forged-node"
	}
	b := batch.Batch{}
	if err := triekit.Marshalizer.Unmarshal(&b, e.data); err != nil {
		r.probe("undecodable_message")
		return
	}
	var accepted []*trie.InterceptedTrieNode
	for _, buf := range b.Data {
		var node *trie.InterceptedTrieNode
		var err error
		r.guarded(kind, func() string {
			return fmt.Sprintf("NewInterceptedTrieNode/CheckValidity on %d bytes %x from peer %d", len(buf), clip(buf, 96), p.id)
		}, func() {
			node, err = trie.NewInterceptedTrieNode(buf, triekit.Marshalizer, triekit.Hasher)
			if err == nil {
				err = node.CheckValidity()
			}
		})
		if r.stop {
			return
		}
		if err != nil {
			if e.forged > 0 {
				r.probe("forged_node_rejected")
			} else {
				r.probe("node_rejected")
			}
			if r.policy == 0 { // the real interceptor refuses the whole message
				return
			}
			continue
		}
		accepted = append(accepted, node)
	}
	for _, node := range accepted {
		n := node
		r.guarded(kind, func() string { return fmt.Sprintf("processor.Save of node %x", n.Hash()) }, func() {
			if err := r.proc.Validate(n, p.pid); err != nil {
				return
			}
			if err := r.proc.Save(n, p.pid, topic); err == nil {
				r.viaNet++
				if _, genuine := r.srcNodes[string(n.Hash())]; !genuine {
					r.probe("foreign_node_accepted_into_cacher")
				}
			}
		})
		if r.stop {
			return
		}
	}
}

func clip(b []byte, n int) []byte {
	if len(b) > n {
		return b[:n]
	}
	return b
}
