// Package syncsim is world W2: trie synchronisation over a simulated network inside a synctest bubble (C05).
//
// A source trie (built by a seeded history on its own simulated disk) is synced onto a fresh destination disk by one
// of the repository's two trie syncers (or, in the accounts arm, by the real userAccountsSyncer: main trie plus the
// data tries its account leaves name). Requests leave through the RequestHandler seam, are marshalled by a real
// TrieNodeResolver, travel through the simulated network to 1-4 peers (real TrieNodeResolvers over real tries, or a
// Byzantine generator), and the answers come back through NewInterceptedTrieNode -> CheckValidity -> the real
// TrieNodeInterceptorProcessor into the real LRU cacher the syncer polls. The bubble's root goroutine is the only
// one that lets time pass and delivers messages.
package syncsim

import (
	"verifsim/simkit"
)

// World implements simkit.World.
type World struct{}

func (World) Name() string         { return "syncsim" }
func (World) Properties() []string { return []string{"C05"} }

func (World) Real(string) []string {
	return []string{
		"data/trie.doubleListTrieSyncer and data/trie.trieSyncer (StartSyncing, chosen by knob through trie.CreateTrieSyncer)",
		"data/syncer.userAccountsSyncer (accounts arm: main trie, leaf scan, concurrent data-trie syncers, core/throttler.NumGoRoutinesThrottler)",
		"data/trie.InterceptedTrieNode (NewInterceptedTrieNode, CheckValidity), node decoding / hashing / loadChildren / encodeNodeAndCommitToDB",
		"process/interceptors/processor.TrieNodeInterceptorProcessor (Validate, Save)",
		"dataRetriever/resolvers.TrieNodeResolver: RequestDataFromHashArray on the destination, ProcessReceivedMessage on every honest peer (batching, sub-trie prefetch, 256 KB budget)",
		"data/trie.patriciaMerkleTrie (source tries built by Update/Delete/Commit; GetSerializedNode/GetSerializedNodes on the peers; Recreate/RootHash/Get on the destination)",
		"data/trie.trieStorageManager, storage/storageUnit.Unit + storage/lrucache in front of every disk; intercepted-nodes cacher: storage/lrucache (count- or size-bounded) or, in 40 % of the runs, the node's real pool storage/storageCacherAdapter over storage/lrucache/capacity.capacityLRU (1-200 entries) + storageCacherAdapter/factory.trieNodeFactory with a SimDisk persister (evicted entries are spilled as serialized bytes and read back as serialized-only InterceptedTrieNodes)",
		"data/trie/statistics.trieSyncStatistics, marshal.GogoProtoMarshalizer, hashing/blake2b, data/batch.Batch, dataRetriever.RequestData",
	}
}

func (World) Stub(string) []string {
	return []string{
		"RequestHandler: harness seam; it sorts the requested hashes (they arrive in Go map order) and hands them to the destination's real resolver; no requested-items cache, no accumulation window, no splitting into several messages",
		"TopicResolverSender of every resolver: puts request / response bytes on the simulated network; the response batch (built by the resolver from a Go map) is sorted and then shuffled from a plan seed",
		"multi-data interceptor: replaced by a loop on the driver goroutine that unmarshals the batch and calls NewInterceptedTrieNode, CheckValidity, processor.Validate and Save per element; knob batch_policy 0 refuses the whole message on the first bad element (as MultiDataInterceptor does), 1 skips bad elements; the chunk path for nodes above 256 KB is not exercised",
		"antiflood handler and resolver throttler: permissive; whitelist, peer blacklisting, originator checks: absent",
		"TrieDataGetter of honest peers: the real trie behind a wrapper that clamps the sub-trie prefetch budget (knob prefetch: -1 = the resolver's own budget, 0 = no prefetch)",
		"SimNet: per-request-index decisions (target peers, drop, duplicate, delay, late delivery) from (net seed, index); partitions, heals, context cancellation and disk faults at plan-given simulated times",
		"sloppy honest peers (and the fault-free arm's peer in 30 % of its runs): a real resolver over the full source whose answer elements are rewritten at the Send seam into equivalent non-canonical encodings (unknown protobuf field before/after the known ones, extension/leaf fields in reverse order): same decoded node, other bytes",
		"Byzantine peers: harness generator (genuine, foreign, corrupted, re-encoded, random, short/long branch, degenerate, typed garbage, non-canonical encoding, unsolicited nodes; silence, non-batch bytes, empty batch)",
		"disks: simkit.SimDisk (get_error / put_error on the destination); clock: testing/synctest bubble; intercepted-nodes cacher wrapped by a pass-through recorder for probes",
		"accounts arm after the time limit (SyncAccounts has no context to cancel): 'rescue' = perfect network, one full honest peer with the resolver's own prefetch budget, no disk faults, and the intercepted-nodes cacher behind the recorder is replaced by one of 1e6 entries; if SyncAccounts has still not returned 600 simulated seconds later every write to the destination disk is made to fail so that the syncers return an error",
	}
}

func (World) Assumptions(string) []string {
	return []string{
		"oracle applies only when StartSyncing / SyncAccounts returned nil: independent walker over the raw destination disk from the root (and from every data-trie root named by an account leaf) finds every node under the hash of its own bytes, leaves equal the source map; every key on the destination disk is the hash of its value; a cold storage stack over the same disk recreates the root with the same root hash and Get returns every source value",
		"when the sync returns an error nothing is asserted except that nothing panicked (panics in NewInterceptedTrieNode / CheckValidity / Save / resolver are caught at the delivery call; a panic of the syncing goroutine is caught in the harness goroutine that calls StartSyncing); foreign keys after a failed sync are only counted",
		"Go map iteration inside the syncers (iteration while inserting in processExistingNodes / checkIfSynced, request order, hard cap) decides the number of rounds, the request contents and thereby which per-index network fault hits which request; the verdict does not depend on it but the message trace does, therefore the event log holds only plan-derived lines, source/destination summaries and, in the fault-free arm, the result; in the fault arms whether a given plan ends in nil or in an error may differ between executions, so replay files are re-executed up to 20 times",
		"liveness is a probe, not a verdict: fault-free arm (one full honest peer, no faults, hard cap >= 5, intercepted-nodes cacher >= 1000 entries / >= 1 MB, <= 60 leaves when the 1 s syncer runs with a hard cap below 100) counts faultfree_runs / faultfree_completed / no_completion_faultfree within 60 simulated seconds",
		"probe request_larger_than_hard_cap approximates 'hard cap bound' from outside (a request carried more hashes than the cap); rerequested_after_cacher_loss = a hash already saved into the cacher is requested again while not on disk (evicted before use)",
		"accounts arm: the set of data tries userAccountsSyncer syncs comes from GetAllLeavesOnChannel over the synced main trie; that API logs a storage read error and closes the channel, so after an injected get_error SyncAccounts can return nil without having started a data trie (observed; counted as probe accounts_data_trie_skipped_after_read_error). The statement is about a trie whose sync completed, so in runs where a get_error fired only the main trie is judged; without read errors every data trie named by an account leaf is judged as well",
		"liveness is never judged: a sync that does not return within the limit is cancelled (plain arms) or rescued (accounts arm); a SyncAccounts that does not return even 600 s after the rescue began is counted as probe sync_never_returned_on_perfect_network and ended by failing writes (probe ended_by_failing_every_write; those injected failures are not counted as put_error faults); sync_unstoppable would mean even that did not end it. Seen before the rescue replaced the cacher: cacher capacity 1 + 1 s syncer + prefetching peer gains about one node per several rounds (every answer evicts all but its last node), which is slow, not hung",
		"no torn writes / dirty crashes; the destination is never restarted during a sync",
		"sensitivity (development time, scratch worktree, quick tier, all caught): doubleList syncer not storing leaves; extension node reporting no missing child; trieSyncer returning nil on ErrTimeIsOut; doubleList syncer returning nil on context cancel; branch loadChildren skipping child 16; hard-cap break dropping the node from the frontier; encodeNodeAndCommitToDB swallowing the Put error; getNodeFromStorage taking any cached node when the requested hash is absent; trieSyncer not storing extension nodes; node already in the DB assumed to have a complete sub-trie (needs pre-seed)",
	}
}

func (World) Rule(string) string {
	return "per run: source trie of 1-400 leaves (address-like, short dense, or shared-suffix keys; values 1-500 B, rarely 3-20 KB) built by puts/overwrites/deletes/commits; accounts arm (15 %) adds 1-3 data tries named by account leaves and drives userAccountsSyncer; knobs: syncer version, hard cap 1-5000, cacher capacity 1-100000 (optionally size-bounded), commit timeout 1-30 s, prefetch budget, destination pre-seed 0-100 %, storage cache, batch policy; 1-4 peers (full / unrelated / partial / Byzantine / sloppy = full with non-canonical encodings); intercepted-nodes pool = plain LRU or the real storageCacherAdapter with 1-200 entries and a fault schedule (drop, duplicate, delay, partition/heal, forge, slow peer, get/put error, cancel); 28 % fault-free arm. Non-trivial = the sync returned nil, the oracle walked >= 3 nodes and at least one node came through the interceptor path; distinct = hash of full plan"
}

func (World) Budget(_ string, tier string) int {
	if tier == "thorough" {
		return 3600 * 30
	}
	return 3600
}

// ReplayAttempts: the trace of a run depends on Go map iteration inside the syncers (see Assumptions).
func (World) ReplayAttempts(string) int { return 20 }

func (World) Generate(r *simkit.Rand, prop, tier string, race bool) *simkit.Plan {
	return generate(r, prop, tier)
}

func (World) Execute(c *simkit.Ctx) bool { return execute(c) }
