package syncsim

import (
	"fmt"
	"os"
	"testing"

	logger "github.com/ElrondNetwork/elrond-go-logger"

	"verifsim/simkit"
)

func TestFF(t *testing.T) {
	if os.Getenv("SYNCFF") == "" {
		t.Skip()
	}
	_ = logger.SetLogLevel("*:NONE")
	n, bad := 0, 0
	for i := 0; i < 3000; i++ {
		rs := simkit.Mix(1, uint64(i))
		p := World{}.Generate(simkit.NewRand(rs), "C05", "quick", false)
		p.Property, p.World, p.Seed = "C05", "syncsim", rs
		if p.Arm != "faultfree" {
			continue
		}
		n++
		c, _ := simkit.ExecutePlan(t, World{}, p)
		if c.Probes["no_completion_faultfree"] > 0 {
			bad++
			fmt.Printf("i=%d sim=%.1f knobs=%v probes=%v ev=%v\n", i, float64(c.SimNanos)/1e9, p.Knobs, c.Probes, c.Events)
		}
	}
	fmt.Println("faultfree", n, "not completed", bad)
}
