package syncsim

import (
	"fmt"
	"os"
	"sort"
	"testing"
	"time"

	logger "github.com/ElrondNetwork/elrond-go-logger"

	"verifsim/simkit"
)

func TestProf(t *testing.T) {
	if os.Getenv("SYNCPROF") == "" {
		t.Skip()
	}
	_ = logger.SetLogLevel("*:NONE")
	type rec struct {
		d    time.Duration
		desc string
	}
	var recs []rec
	var tot time.Duration
	for i := 0; i < 300; i++ {
		rs := simkit.Mix(1, uint64(i))
		p := World{}.Generate(simkit.NewRand(rs), "C05", "quick", false)
		p.Property, p.World, p.Seed = "C05", "syncsim", rs
		st := time.Now()
		c, nt := simkit.ExecutePlan(t, World{}, p)
		d := time.Since(st)
		tot += d
		recs = append(recs, rec{d, fmt.Sprintf("i=%d arm=%s nt=%v steps=%d sim=%.1fs knobs=%v probes=%v ev=%v", i, p.Arm, nt, c.StepsDone, float64(c.SimNanos)/1e9, p.Knobs, c.Probes, c.Events[:1])})
	}
	sort.Slice(recs, func(i, j int) bool { return recs[i].d > recs[j].d })
	fmt.Println("total", tot, "median", recs[len(recs)/2].d, "p90", recs[len(recs)/10].d, "min", recs[len(recs)-1].d)
	for _, r := range recs[:25] {
		fmt.Println(r.d, r.desc)
	}
}
