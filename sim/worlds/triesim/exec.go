package triesim

import (
	"bytes"
	"fmt"
	"runtime/debug"
	"sort"
	"strings"

	"github.com/ElrondNetwork/elrond-go/config"
	"github.com/ElrondNetwork/elrond-go/data"

	"verifsim/simkit"
	"verifsim/triekit"
)

type commitRec struct {
	root  []byte
	model map[string][]byte
}

type run struct {
	c         *simkit.Ctx
	disk      *simkit.SimDisk
	env       *triekit.Env
	canon     *triekit.Env
	tr        data.Trie
	model     map[string][]byte
	base      int
	recreated bool
	dirty     bool      // uncommitted mutations on the current trie
	shadow    data.Trie // a clean handle left behind by a Recreate: it must keep its committed state
	shadowIdx int
	commits   []commitRec
	maxLevel  uint
	cache     int
	pool      [][]byte

	nCommit, nDelPresent, nLeaves, nGetAfterDel, nTwin, nMutAfterRecreate, nCmpAfterRecreate, nProofOK, nProofNeg int
}

func copyModel(m map[string][]byte) map[string][]byte {
	o := make(map[string][]byte, len(m))
	for k, v := range m {
		o[k] = v
	}
	return o
}

func sortedKeys(m map[string][]byte) []string {
	ks := make([]string, 0, len(m))
	for k := range m {
		ks = append(ks, k)
	}
	sort.Strings(ks)
	return ks
}

func (r *run) canonRoot(m map[string][]byte) []byte {
	t, err := r.canon.NewTrie(20)
	if err != nil {
		r.c.HarnessErr("canon trie: %v", err)
		return nil
	}
	for _, k := range sortedKeys(m) {
		if err := t.Update([]byte(k), m[k]); err != nil {
			r.c.HarnessErr("canon update: %v", err)
		}
	}
	rh, _ := t.RootHash()
	return rh
}

func (r *run) fired() int { return r.c.Faults["get_error"] }

// violate23 reports a root/content divergence under C02, and under C03 as well when the current trie came
// out of a recreate or a restart (then it is also "further updates on the recreated trie behave differently").
func (r *run) violate23(kind, site, format string, a ...interface{}) {
	r.c.Violate("C02", kind, site, format, a...)
	if r.recreated {
		r.c.Violate("C03", kind, site, format, a...)
	}
}

func (r *run) checkRoot(site string) {
	rh, err := r.tr.RootHash()
	if err != nil {
		r.violate23("root-hash-error", site, "RootHash failed: %v", err)
		return
	}
	want := r.canonRoot(r.model)
	if want == nil {
		return
	}
	if r.recreated {
		r.nCmpAfterRecreate++
	}
	if len(r.model) == 0 && !bytes.Equal(rh, triekit.EmptyHash) {
		r.violate23("empty-trie-hash", site, "trie holds no key but RootHash is %x, not the empty-trie hash", rh)
		return
	}
	if !bytes.Equal(rh, want) {
		r.violate23("root-differs-from-canonical", site, "root %x after this history, but a fresh trie holding the same %d pairs (sorted inserts, never committed) has root %x", rh, len(r.model), want)
	}
}

// abandon is what a caller does after a mutation failed with an I/O error: the in-memory trie is dropped
// (a failed insert/delete may have modified nodes in place) and rebuilt from the last committed root.
// Whether the abandoned object was still self-consistent is counted, not judged: no property speaks about it.
func (r *run) abandon(key []byte, op string) {
	r.env.Disk.Disarm()
	if got, err := r.tr.Get(key); err == nil {
		old := r.model[string(key)]
		if !bytes.Equal(got, old) && !(len(got) == 0 && len(old) == 0) {
			r.c.Probe("failed_mutation_partially_applied")
		}
	}
	r.c.Probe("trie_abandoned_after_failed_mutation")
	r.dirty = false
	nt, err := r.env.NewTrie(r.maxLevel)
	if err != nil {
		r.c.HarnessErr("NewTrie: %v", err)
		return
	}
	r.model = map[string][]byte{}
	if r.base >= 0 {
		rec := r.commits[r.base]
		t2, err := nt.Recreate(rec.root)
		if err != nil || t2 == nil {
			r.c.Violate("C03", "root-not-recreatable", "Recreate", "Recreate of the last committed root %x failed with no fault armed: %v", rec.root, err)
			return
		}
		nt = t2
		r.model = copyModel(rec.model)
	}
	r.tr, r.recreated = nt, true
}

func (r *run) newEnv() bool {
	env, err := triekit.NewEnv(r.disk, r.cache, config.TrieStorageManagerConfig{}, 0)
	if err != nil {
		r.c.HarnessErr("NewEnv: %v", err)
		return false
	}
	r.env = env
	return true
}

func execute(c *simkit.Ctx) bool {
	p := c.Plan
	r := &run{c: c, base: -1, model: map[string][]byte{}, maxLevel: uint(p.Knob("max_level", 5)), cache: int(p.Knob("cache", 8))}
	r.disk = simkit.NewSimDisk("trie", c)
	if !r.newEnv() {
		return false
	}
	defer func() { r.env.Close() }()
	var err error
	r.canon, err = triekit.NewEnv(simkit.NewSimDisk("canon", nil), 1000, config.TrieStorageManagerConfig{}, 0)
	if err != nil {
		c.HarnessErr("canon env: %v", err)
		return false
	}
	defer r.canon.Close()
	r.tr, err = r.env.NewTrie(r.maxLevel)
	if err != nil {
		c.HarnessErr("NewTrie: %v", err)
		return false
	}
	seen := map[string]bool{}
	for i := range p.Steps {
		for _, b := range p.Steps[i].B {
			if !seen[string(b)] {
				seen[string(b)] = true
				r.pool = append(r.pool, b)
			}
		}
	}
	hashEach := p.Knob("hash_each", 0) == 1
	prop := p.Property
	for i := range p.Steps {
		st := &p.Steps[i]
		c.CurStep = i
		before := r.fired()
		if st.Fault == "get_error" {
			r.disk.Arm("get_error", st.FaultAt)
		}
		r.step(st, before, hashEach)
		r.disk.Disarm()
		c.StepsDone++
		if c.Failed(prop) || c.Harness != "" {
			break
		}
	}
	if !c.Failed(prop) && c.Harness == "" {
		c.CurStep = len(p.Steps)
		r.finalCheck()
	}
	switch prop {
	case "C01":
		return r.nCommit > 0 && r.nDelPresent > 0 && (r.nLeaves > 0 || r.nGetAfterDel > 0)
	case "C02":
		return r.nTwin > 0
	case "C03":
		return r.nMutAfterRecreate > 0 && r.nCmpAfterRecreate > 0
	case "C04":
		return r.nProofOK > 0 && r.nProofNeg > 0
	}
	return false
}

// checkShadow: a clean trie handle that a Recreate left behind must be unaffected by updates on the recreated trie.
func (r *run) checkShadow(site string) {
	if r.shadow == nil || r.c.Failed(r.c.Plan.Property) {
		return
	}
	rec := r.commits[r.shadowIdx]
	rh, err := r.shadow.RootHash()
	if err != nil || !bytes.Equal(rh, rec.root) {
		r.c.Violate("C03", "recreate-shares-state", site, "a trie handle committed at root %x and not touched since reports root %x (err %v) after updates on a trie recreated from storage", rec.root, rh, err)
		return
	}
	for _, k := range r.pool {
		got, err := r.shadow.Get(k)
		want := rec.model[string(k)]
		if err != nil || (!bytes.Equal(got, want) && !(len(got) == 0 && len(want) == 0)) {
			r.c.Violate("C03", "recreate-shares-state", site, "a trie handle committed at root %x and not touched since reads key %x as %x (err %v), committed value %x, after updates on a trie recreated from storage", rec.root, k, got, err, want)
			return
		}
	}
	r.c.Probe("shadow_handle_checked")
}

func (r *run) finalCheck() {
	r.checkShadow("final")
	for _, k := range r.pool {
		got, err := r.tr.Get(k)
		if err != nil {
			r.c.Violate("C01", "get-fails-without-fault", "Get", "final Get(%x) fails with no fault armed: %v", k, err)
			return
		}
		want := r.model[string(k)]
		if !bytes.Equal(got, want) && !(len(got) == 0 && len(want) == 0) {
			r.c.Violate("C01", "get-mismatch", "Get", "final Get(%x) = %x, last value written is %x", k, got, want)
			return
		}
	}
	r.checkRoot("final")
}

func (r *run) step(st *simkit.Step, firedBefore int, hashEach bool) {
	c := r.c
	key := st.Bytes(0)
	firedNow := func() bool { return r.fired() > firedBefore }
	mutated := false
	switch st.Op {
	case "upd", "updEmpty", "del":
		var newVal []byte
		var err error
		_, wasPresent := r.model[string(key)]
		switch st.Op {
		case "upd":
			newVal = st.Bytes(1)
			if len(newVal) == 0 {
				return
			}
			err = r.tr.Update(key, newVal)
		case "updEmpty":
			err = r.tr.Update(key, []byte{})
		default:
			err = r.tr.Delete(key)
		}
		c.Eventf("%d %s %x -> err=%v", c.CurStep, st.Op, key, err != nil)
		if err != nil {
			if !firedNow() {
				c.Violate("C01", "update-fails-without-fault", st.Op, "%s(%x) failed although no fault fired: %v", st.Op, key, err)
				return
			}
			r.abandon(key, st.Op)
			return
		}
		if len(newVal) == 0 {
			if wasPresent {
				r.nDelPresent++
				c.Probe("delete_present")
			}
			delete(r.model, string(key))
		} else {
			r.model[string(key)] = newVal
		}
		mutated = true
		r.dirty = true
		if r.recreated {
			r.nMutAfterRecreate++
		}
	case "get":
		got, err := r.tr.Get(key)
		c.Eventf("%d get %x -> %x err=%v", c.CurStep, key, got, err != nil)
		if err != nil {
			if !firedNow() {
				c.Violate("C01", "get-fails-without-fault", "Get", "Get(%x) failed although no fault fired: %v", key, err)
			}
			return
		}
		want := r.model[string(key)]
		if !bytes.Equal(got, want) && !(len(got) == 0 && len(want) == 0) {
			c.Violate("C01", "get-mismatch", "Get", "Get(%x) = %x, last value written is %x (empty = never written or deleted)", key, got, want)
			return
		}
		if r.nDelPresent > 0 {
			r.nGetAfterDel++
		}
	case "commit":
		err := r.tr.Commit()
		if err != nil {
			c.Violate("C03", "commit-fails", "Commit", "Commit failed with no write fault: %v", err)
			return
		}
		rh, _ := r.tr.RootHash()
		r.commits = append(r.commits, commitRec{root: rh, model: copyModel(r.model)})
		r.base = len(r.commits) - 1
		r.nCommit++
		r.dirty = false
		c.Eventf("%d commit -> root %x (%d keys)", c.CurStep, rh, len(r.model))
		c.FPBytes(rh)
		r.checkRoot("Commit")
		r.checkShadow("Commit")
	case "recreate":
		if len(r.commits) == 0 {
			return
		}
		j := int(st.Int(0, 0)) % len(r.commits)
		rec := r.commits[j]
		nt, err := r.tr.Recreate(rec.root)
		c.Eventf("%d recreate #%d %x -> err=%v", c.CurStep, j, rec.root, err != nil)
		if err != nil || nt == nil {
			if !firedNow() {
				c.Violate("C03", "root-not-recreatable", "Recreate", "Recreate of committed root #%d %x failed, no pruning and no fault: %v", j, rec.root, err)
			}
			return
		}
		rh, _ := nt.RootHash()
		if !bytes.Equal(rh, rec.root) {
			c.Violate("C03", "recreated-root-differs", "Recreate", "Recreate(%x) yields a trie whose RootHash is %x", rec.root, rh)
			return
		}
		if !r.dirty && r.base >= 0 {
			// the handle we leave behind is clean and stays alive: whatever happens to the recreated trie, it must
			// keep the root and the contents of its commit ("both tries stay in use")
			r.shadow, r.shadowIdx = r.tr, r.base
		}
		r.tr, r.model, r.base, r.recreated, r.dirty = nt, copyModel(rec.model), j, true, false
		c.Probe("recreate_older_root")
	case "leaves":
		if len(r.commits) == 0 {
			return
		}
		j := int(st.Int(0, 0)) % len(r.commits)
		rec := r.commits[j]
		ch, err := r.tr.GetAllLeavesOnChannel(rec.root)
		if err != nil {
			if !firedNow() {
				c.Violate("C01", "leaves-fails-without-fault", "GetAllLeavesOnChannel", "enumeration of committed root %x failed: %v", rec.root, err)
			}
			return
		}
		got := map[string][]byte{}
		dup := ""
		n := 0
		for kv := range ch {
			n++
			if _, d := got[string(kv.Key())]; d {
				dup = fmt.Sprintf("%x", kv.Key())
			}
			got[string(kv.Key())] = kv.Value()
		}
		c.Eventf("%d leaves #%d -> %d pairs", c.CurStep, j, n)
		if dup != "" {
			c.Violate("C01", "leaf-enumerated-twice", "GetAllLeavesOnChannel", "key %s enumerated more than once for root %x", dup, rec.root)
			return
		}
		if firedNow() {
			for _, k := range sortedKeys(got) {
				if w, ok := rec.model[k]; !ok || !bytes.Equal(w, got[k]) {
					c.Violate("C01", "leaves-wrong-data", "GetAllLeavesOnChannel", "enumeration (interrupted by a read error) produced pair %x=%x which is not in the committed state", k, got[k])
					return
				}
			}
			return
		}
		if d := triekit.SameLeaves(got, rec.model); d != "" {
			c.Violate("C01", "leaves-differ", "GetAllLeavesOnChannel", "leaves of committed root #%d %x differ from the live pairs at that commit: %s (got %d, expected %d)", j, rec.root, d, len(got), len(rec.model))
			return
		}
		r.nLeaves++
	case "restart":
		r.env.Close()
		if !r.newEnv() {
			return
		}
		nt, err := r.env.NewTrie(r.maxLevel)
		if err != nil {
			c.HarnessErr("NewTrie: %v", err)
			return
		}
		r.shadow, r.dirty = nil, false
		c.Eventf("%d restart (base #%d)", c.CurStep, r.base)
		c.Fault("close_reopen")
		r.model = map[string][]byte{}
		if r.base >= 0 {
			rec := r.commits[r.base]
			t2, err := nt.Recreate(rec.root)
			if err != nil || t2 == nil {
				if !firedNow() {
					c.Violate("C03", "root-not-recreatable", "Recreate", "after restart, Recreate of the last committed root %x failed: %v", rec.root, err)
				}
				// keep an empty trie; baseline is lost for this run
				r.base = -1
				r.tr = nt
				return
			}
			nt = t2
			r.model = copyModel(rec.model)
		}
		r.tr, r.recreated = nt, true
	case "cold":
		if len(r.commits) == 0 {
			return
		}
		r.disk.Disarm()
		j := int(st.Int(0, 0)) % len(r.commits)
		rec := r.commits[j]
		env2, err := triekit.NewEnv(r.disk, 1, config.TrieStorageManagerConfig{}, 0)
		if err != nil {
			c.HarnessErr("cold env: %v", err)
			return
		}
		defer env2.Close()
		t0, _ := env2.NewTrie(r.maxLevel)
		t2, err := t0.Recreate(rec.root)
		c.Eventf("%d cold #%d", c.CurStep, j)
		if err != nil || t2 == nil {
			c.Violate("C03", "root-not-recreatable", "Recreate", "cold Recreate (fresh cache, same disk) of committed root #%d %x failed: %v", j, rec.root, err)
			return
		}
		if rh, _ := t2.RootHash(); !bytes.Equal(rh, rec.root) {
			c.Violate("C03", "recreated-root-differs", "Recreate", "cold Recreate(%x) has RootHash %x", rec.root, rh)
			return
		}
		for _, k := range r.pool {
			got, err := t2.Get(k)
			want := rec.model[string(k)]
			if err != nil || (!bytes.Equal(got, want) && !(len(got) == 0 && len(want) == 0)) {
				c.Violate("C03", "recreated-contents-differ", "Get", "trie recreated cold from committed root #%d: Get(%x) = %x (err %v), committed value %x", j, k, got, err, want)
				return
			}
		}
		r.nCmpAfterRecreate++
		c.Probe("cold_check")
	case "twin":
		r.twin(st)
	case "proof":
		r.proof(st, firedBefore)
	}
	if mutated && hashEach && !c.Failed(c.Plan.Property) {
		r.checkRoot(st.Op)
	}
}

// twin rebuilds the current map on another storage through a different history and compares root hashes.
func (r *run) twin(st *simkit.Step) {
	c := r.c
	g := simkit.NewRand(uint64(st.Int(0, 1)))
	level := uint(st.Int(1, 5))
	commitEvery := int(st.Int(2, 0))
	detours := int(st.Int(3, 0))
	env, err := triekit.NewEnv(simkit.NewSimDisk("twin", nil), 1+g.Intn(8), config.TrieStorageManagerConfig{}, 0)
	if err != nil {
		c.HarnessErr("twin env: %v", err)
		return
	}
	defer env.Close()
	t, _ := env.NewTrie(level)
	keys := sortedKeys(r.model)
	order := g.Perm(len(keys))
	type op struct {
		k, v []byte
	}
	var ops []op
	for _, idx := range order {
		k := []byte(keys[idx])
		if g.Chance(0.3) { // overwrite: wrong value first
			ops = append(ops, op{k, []byte("x-old")})
		}
		ops = append(ops, op{k, r.model[keys[idx]]})
	}
	// detours: keys not in the map are inserted somewhere and deleted later
	for d := 0; d < detours && len(r.pool) > 0; d++ {
		k := append([]byte(nil), r.pool[g.Intn(len(r.pool))]...)
		if g.Chance(0.5) {
			k = append([]byte{byte(g.Intn(256))}, k...)
		}
		if _, in := r.model[string(k)]; in {
			continue
		}
		a := g.Intn(len(ops) + 1)
		ops = append(ops[:a], append([]op{{k, []byte("detour")}}, ops[a:]...)...)
		b := a + 1 + g.Intn(len(ops)-a)
		ops = append(ops[:b], append([]op{{k, nil}}, ops[b:]...)...)
	}
	for i, o := range ops {
		var err error
		if o.v == nil {
			if g.Chance(0.5) {
				err = t.Delete(o.k)
			} else {
				err = t.Update(o.k, []byte{})
			}
		} else {
			err = t.Update(o.k, o.v)
		}
		if err != nil {
			c.Violate("C02", "twin-op-fails", "Update", "twin history: operation on %x failed without faults: %v", o.k, err)
			return
		}
		if commitEvery > 0 && i%commitEvery == commitEvery-1 {
			if err := t.Commit(); err != nil {
				c.Violate("C02", "twin-op-fails", "Commit", "twin history: commit failed: %v", err)
				return
			}
			if g.Chance(0.3) {
				rh, _ := t.RootHash()
				if t2, err := t.Recreate(rh); err == nil && t2 != nil {
					t = t2
				}
			}
		}
	}
	twinRoot, _ := t.RootHash()
	mine, _ := r.tr.RootHash()
	c.Eventf("%d twin level=%d commitEvery=%d detours=%d ops=%d -> %x vs %x", c.CurStep, level, commitEvery, detours, len(ops), twinRoot, mine)
	if len(r.model) >= 3 {
		r.nTwin++
	}
	if len(r.model) == 0 && !bytes.Equal(twinRoot, triekit.EmptyHash) {
		c.Violate("C02", "empty-trie-hash", "RootHash", "twin trie emptied again reports %x, not the empty-trie hash", twinRoot)
		return
	}
	if !bytes.Equal(twinRoot, mine) {
		r.violate23("twin-root-differs", "RootHash", "same %d pairs, two histories: this trie %x, twin (maxTrieLevelInMemory %d, commit every %d, %d detours) %x", len(r.model), mine, level, commitEvery, detours, twinRoot)
		return
	}
	// the twin rebuilt entirely from its own disk
	if err := t.Commit(); err == nil {
		env2, err := triekit.NewEnv(env.Disk, 1, config.TrieStorageManagerConfig{}, 0)
		if err == nil {
			defer env2.Close()
			t0, _ := env2.NewTrie(uint(1 + g.Intn(8)))
			if t3, err := t0.Recreate(twinRoot); err == nil && t3 != nil {
				if rh, _ := t3.RootHash(); !bytes.Equal(rh, mine) {
					r.violate23("twin-root-differs", "Recreate", "twin recreated from disk reports %x, this trie %x", rh, mine)
				}
			} else if len(r.model) > 0 {
				c.Violate("C03", "root-not-recreatable", "Recreate", "twin's committed root %x cannot be recreated from its disk: %v", twinRoot, err)
			}
		}
	}
}

func panicSite(stack []byte) string {
	for _, l := range strings.Split(string(stack), "\n") {
		l = strings.TrimSpace(l)
		if strings.HasPrefix(l, "github.com/ElrondNetwork/elrond-go/") {
			f := strings.TrimPrefix(l, "github.com/ElrondNetwork/elrond-go/")
			if i := strings.LastIndex(f, "("); i > 0 {
				f = f[:i]
			}
			return f
		}
	}
	return "?"
}

func safeVerify(t data.Trie, key []byte, proof [][]byte) (ok bool, err error, panicked string, site string) {
	defer func() {
		if r := recover(); r != nil {
			panicked = fmt.Sprint(r)
			site = panicSite(debug.Stack())
		}
	}()
	ok, err = t.VerifyProof(key, proof)
	return
}

func safeGetProof(t data.Trie, key []byte) (proof [][]byte, err error, panicked string) {
	defer func() {
		if r := recover(); r != nil {
			panicked = fmt.Sprint(r)
		}
	}()
	proof, err = t.GetProof(key)
	return
}

var proofModes = []string{"none", "otherkey", "drop", "dup", "swap", "truncate", "corrupt", "foreign"}

func (r *run) proof(st *simkit.Step, firedBefore int) {
	c := r.c
	if len(r.commits) == 0 {
		return
	}
	j := int(st.Int(0, 0)) % len(r.commits)
	rec := r.commits[j]
	mode := int(st.Int(1, 0)) % len(proofModes)
	a, b := int(st.Int(2, 0)), int(st.Int(3, 0))
	key, vkey := st.Bytes(0), st.Bytes(1)
	if mode != 1 {
		vkey = key
	}
	prover, err := r.tr.Recreate(rec.root)
	if err != nil || prover == nil {
		if r.fired() == firedBefore {
			c.Violate("C03", "root-not-recreatable", "Recreate", "prover: Recreate of committed root %x failed: %v", rec.root, err)
		}
		return
	}
	proof, perr, pp := safeGetProof(prover, key)
	faultInProver := r.fired() > firedBefore
	r.disk.Disarm()
	_, present := rec.model[string(key)]
	if pp != "" {
		c.Probe("getproof_panic")
		if present && !faultInProver {
			c.Violate("C04", "valid-proof-rejected", "GetProof", "GetProof(%x) for a present key panicked: %s", key, pp)
		}
		return
	}
	if perr != nil || len(proof) == 0 {
		if present && !faultInProver {
			c.Violate("C04", "valid-proof-rejected", "GetProof", "GetProof(%x) for a key present under root %x failed: %v", key, rec.root, perr)
		}
		return
	}
	mp := make([][]byte, len(proof))
	for i := range proof {
		mp[i] = append([]byte(nil), proof[i]...)
	}
	switch proofModes[mode] {
	case "drop":
		i := a % len(mp)
		mp = append(mp[:i], mp[i+1:]...)
		c.Fault("proof_drop")
	case "dup":
		i := a % len(mp)
		mp = append(mp[:i+1], mp[i:]...)
		c.Fault("proof_duplicate")
	case "swap":
		if len(mp) > 1 {
			i := a % (len(mp) - 1)
			mp[i], mp[i+1] = mp[i+1], mp[i]
			c.Fault("proof_reorder")
		}
	case "truncate":
		i := a % len(mp)
		if len(mp[i]) > 0 {
			mp[i] = mp[i][:b%len(mp[i])]
		}
		c.Fault("proof_truncate")
	case "corrupt":
		i := a % len(mp)
		if len(mp[i]) > 0 {
			mp[i][b%len(mp[i])] ^= 1 << uint(a%8)
		}
		c.Fault("proof_corrupt")
	case "foreign":
		j2 := (j + 1 + a) % len(r.commits)
		if other, err := r.tr.Recreate(r.commits[j2].root); err == nil && other != nil {
			if fp, ferr, fpp := safeGetProof(other, key); ferr == nil && fpp == "" && len(fp) > 0 {
				mp = fp
				c.Fault("proof_foreign_root")
			}
		}
	case "otherkey":
		c.Fault("proof_misdeliver")
	}
	verifier, err := r.tr.Recreate(rec.root)
	if err != nil || verifier == nil {
		c.Violate("C03", "root-not-recreatable", "Recreate", "verifier: Recreate of committed root %x failed: %v", rec.root, err)
		return
	}
	ok, verr, panicked, site := safeVerify(verifier, vkey, mp)
	_, vpresent := rec.model[string(vkey)]
	c.Eventf("%d proof #%d mode=%s key=%x vkey=%x nodes=%d -> ok=%v err=%v panic=%v", c.CurStep, j, proofModes[mode], key, vkey, len(mp), ok, verr != nil, panicked != "")
	if panicked != "" {
		c.Violate("C04", "verify-panic", site, "VerifyProof(key %x, %d proof nodes generated for key %x, mode %s) panicked: %s", vkey, len(mp), key, proofModes[mode], panicked)
		return
	}
	if ok && !vpresent {
		c.Violate("C04", "absent-key-accepted", "VerifyProof", "VerifyProof accepted key %x which is absent under root %x (proof generated for key %x, mode %s)", vkey, rec.root, key, proofModes[mode])
		return
	}
	if mode == 0 && present && !faultInProver {
		if !ok {
			c.Violate("C04", "valid-proof-rejected", "VerifyProof", "proof returned for present key %x does not verify against root %x (err %v)", key, rec.root, verr)
			return
		}
		r.nProofOK++
	}
	if !vpresent || mode >= 2 {
		r.nProofNeg++
	}
}
