package triesim

import (
	"fmt"

	"verifsim/simkit"
)

// keyPool builds the structured key pool of one run. The trie indexes keys by their nibbles in REVERSE
// order, so shared byte suffixes become shared nibble prefixes (extension nodes), and a key that is a byte
// suffix of another ends at a branch's terminator child.
func keyPool(r *simkit.Rand, maxKeys int) [][]byte {
	alpha := [][]byte{{0x00, 0x01, 0x10, 0x11}, {0x61, 0x62, 0x63}, {0xff, 0xf0, 0x0f, 0xab}, {0x12, 0x21, 0x22}}[r.Intn(4)]
	pick := func() byte { return alpha[r.Intn(len(alpha))] }
	seen := map[string]bool{}
	var pool [][]byte
	add := func(k []byte) {
		if !seen[string(k)] && len(pool) < maxKeys {
			seen[string(k)] = true
			pool = append(pool, append([]byte(nil), k...))
		}
	}
	if r.Chance(0.5) {
		add([]byte{})
	}
	for i, n := 0, r.Range(1, 4); i < n; i++ {
		add([]byte{pick()})
	}
	for s, ns := 0, r.Range(1, 3)+maxKeys/45*2; s < ns; s++ {
		var suffix []byte
		sl := r.Range(1, 5)
		if r.Chance(0.2) {
			sl = 30
		}
		for i := 0; i < sl; i++ {
			suffix = append(suffix, pick())
		}
		if r.Chance(0.6) {
			add(suffix)
		}
		for i, n := 0, r.Range(2, 7); i < n; i++ {
			var k []byte
			for j, pl := 0, r.Range(1, 3); j < pl; j++ {
				k = append(k, pick())
			}
			add(append(k, suffix...))
		}
		// keys differing from a pooled key in one nibble inside the shared segment
		if len(pool) > 0 && len(suffix) > 1 {
			k := append([]byte(nil), pool[len(pool)-1]...)
			pos := len(k) - 1 - r.Intn(len(suffix))
			k[pos] ^= []byte{0x01, 0x10, 0x11}[r.Intn(3)]
			add(k)
		}
	}
	for i, n := 0, r.Range(0, 6); i < n; i++ {
		k := make([]byte, r.Range(1, 6))
		for j := range k {
			if r.Chance(0.7) {
				k[j] = pick()
			} else {
				k[j] = byte(r.Intn(256))
			}
		}
		add(k)
	}
	if r.Chance(0.4) {
		base := r.Bytes(32)
		add(base)
		for i, n := 0, r.Range(1, 3); i < n; i++ {
			k := append([]byte(nil), base...)
			k[r.Intn(3)] ^= byte(1 + r.Intn(255))
			add(k)
		}
	}
	if len(pool) < 3 {
		add([]byte{1})
		add([]byte{1, 1})
		add([]byte{2, 1})
	}
	return pool
}

func value(r *simkit.Rand, i int) []byte {
	v := []byte(fmt.Sprintf("v%d", i))
	switch r.Intn(10) {
	case 0:
		v = append(v, r.Bytes(r.Range(30, 300))...)
	case 1:
		v = v[:1+r.Intn(len(v))]
		v = append(v, byte(i), byte(i>>8), 0)
	}
	return v
}

func generate(r *simkit.Rand, prop, tier string) *simkit.Plan {
	p := &simkit.Plan{Knobs: map[string]int64{}}
	p.Knobs["max_level"] = int64(r.Range(1, 8))
	p.Knobs["cache"] = int64([]int{1, 2, 4, 8, 64}[r.Intn(5)])
	p.Knobs["hash_each"] = int64(r.Intn(2))
	deep := tier == "thorough" && r.Chance(0.3) // thorough tier: a third of the runs are long, over a larger key pool
	maxKeys := 40
	if deep {
		maxKeys = 90
	}
	pool := keyPool(r, maxKeys)
	// a part of the pool is never inserted (absent keys for lookups and proofs)
	nIns := len(pool) - r.Range(0, len(pool)/3)
	if nIns < 2 {
		nIns = len(pool)
	}
	ins := pool[:nIns]
	faulty := r.Chance(0.4)
	p.Arm = "faultfree"
	if faulty {
		p.Arm = "faults"
		p.Faults = []string{"get_error"}
	}
	// swarm weights
	ops := []string{"upd", "updEmpty", "del", "get", "commit", "recreate", "leaves", "restart", "cold", "twin", "proof"}
	w := []int{r.Range(4, 12), r.Range(0, 3), r.Range(1, 5), r.Range(1, 5), r.Range(1, 4), r.Range(0, 2), r.Range(0, 2), r.Range(0, 1), r.Range(0, 1), 0, 0}
	switch prop {
	case "C01":
		w[3] += 3
		w[6] += 2
	case "C02":
		w[9] = r.Range(1, 3)
	case "C03":
		w[5] += 2
		w[7] += 1
		w[8] += 1
		w[4] += 1
	case "C04":
		w[10] = r.Range(4, 10)
		w[4] += 2
	}
	n := r.Range(10, 150)
	if deep {
		n = r.Range(150, 500)
	}
	proofs := 0
	for i := 0; i < n; i++ {
		op := ops[r.Weighted(w)]
		st := simkit.Step{Op: op}
		key := pool[r.Intn(len(pool))]
		if op == "upd" || r.Chance(0.7) {
			key = ins[r.Intn(len(ins))]
		}
		switch op {
		case "upd":
			st.B = []simkit.HexBytes{key, value(r, i)}
		case "updEmpty", "del", "get":
			st.B = []simkit.HexBytes{key}
		case "recreate", "leaves", "cold":
			st.I = []int64{int64(r.Intn(1000))}
		case "twin":
			st.I = []int64{int64(r.Uint64() >> 1), int64(r.Range(1, 8)), int64(r.Range(0, 6)), int64(r.Range(0, 8))}
		case "proof":
			if proofs >= 30 {
				st.Op = "get"
				st.B = []simkit.HexBytes{key}
				break
			}
			proofs++
			// I = [commit index, mode, a, b]; B = [proved key, verified key]
			mode := r.Weighted([]int{6, 5, 2, 1, 1, 1, 1, 2}) // none, otherkey, drop, dup, swap, truncate, corrupt, foreign
			vkey := []byte(key)
			if mode == 1 {
				vkey = variantKey(r, key, pool)
			}
			st.I = []int64{int64(r.Intn(1000)), int64(mode), int64(r.Intn(8)), int64(r.Intn(1 << 16))}
			st.B = []simkit.HexBytes{key, vkey}
		}
		if faulty && r.Chance(0.12) && op != "commit" && op != "twin" {
			st.Fault = "get_error"
			st.FaultAt = r.Intn(6)
		}
		p.Steps = append(p.Steps, st)
	}
	return p
}

// variantKey derives the key a proof is (wrongly) verified for.
func variantKey(r *simkit.Rand, key []byte, pool [][]byte) []byte {
	k := append([]byte(nil), key...)
	switch r.Intn(7) {
	case 0: // another pooled key
		return pool[r.Intn(len(pool))]
	case 1: // byte suffix (ends earlier on the nibble path)
		if len(k) > 0 {
			return k[r.Intn(len(k)):]
		}
	case 2: // longer
		return append([]byte{byte(r.Intn(256))}, k...)
	case 3: // empty key
		return []byte{}
	case 4: // one nibble changed somewhere (possibly inside an extension segment)
		if len(k) > 0 {
			k[r.Intn(len(k))] ^= []byte{0x01, 0x10, 0x02, 0x20, 0x11}[r.Intn(5)]
			return k
		}
	case 5: // last byte changed (first nibbles of the path)
		if len(k) > 0 {
			k[len(k)-1] ^= byte(1 + r.Intn(255))
			return k
		}
	case 6: // first byte changed (deepest nibbles)
		if len(k) > 0 {
			k[0] ^= byte(1 + r.Intn(255))
			return k
		}
	}
	return []byte{byte(r.Intn(256))}
}
