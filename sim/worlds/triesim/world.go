// Package triesim is world W1: the Merkle-Patricia state trie over a simulated disk (C01, C02, C03, C04).
package triesim

import (
	"verifsim/simkit"
)

// World implements simkit.World.
type World struct{}

func (World) Name() string         { return "triesim" }
func (World) Properties() []string { return []string{"C01", "C02", "C03", "C04"} }

func (World) Real(prop string) []string {
	return []string{"data/trie.patriciaMerkleTrie (branch/extension/leaf nodes, insert/delete/reduce, commit, recreate, leaf enumeration, proofs)",
		"data/trie.trieStorageManager", "storage/storageUnit.Unit + storage/lrucache (real LRU in front of the disk)",
		"marshal.GogoProtoMarshalizer", "hashing/blake2b"}
}

func (World) Stub(prop string) []string {
	s := []string{"disk: simkit.SimDisk as storage.Persister (read-error injection, survives restarts)",
		"snapshot DBs: repository memorydb (type MemoryDB), unused in this world",
		"restart: storage manager, cache and tries dropped and rebuilt over the same disk"}
	if prop == "C04" {
		s = append(s, "proof channel: the proof byte slices pass through a simulated channel (misdeliver, drop, duplicate, swap, truncate, corrupt, foreign/forged nodes)")
	}
	return s
}

func (World) Assumptions(prop string) []string {
	common := []string{"no write faults, torn writes or dirty crashes are injected (the storage seam has no durability acknowledgement; the properties promise nothing about them)",
		"a step during which an injected read error fired is checked only for 'no wrong data': it may fail or return a subset"}
	switch prop {
	case "C01":
		return append(common, "reference model: Go map stepped with every operation; leaf enumeration compared with the model snapshot taken at that commit")
	case "C02":
		return append(common, "twin tries are built by the same implementation through different histories (permutation, detours, overwrites, commits, recreate, other maxTrieLevelInMemory); a defect that changes every history's hash alike is outside this property")
	case "C03":
		return append(common, "no pruning in this world: every committed root must stay recreatable", "cold check = fresh cache and storage manager over the same disk")
	case "C04":
		return append(common, "verifier is a trie recreated from the root, as nodeFacade.VerifyProof does", "a panic inside VerifyProof is caught per call and reported as a violation")
	}
	return common
}

func (World) Rule(prop string) string {
	base := "(thorough tier: a third of the runs have 150-500 steps over a pool of up to 90 keys) 10-150 steps of update/update-with-empty/delete/get/commit/recreate(older root)/leaves(root)/restart/cold-check over a structured key pool (lengths 0-6 and 32, shared suffixes = shared nibble prefixes, single-byte and empty key, keys that are suffixes of other keys), unique values, maxTrieLevelInMemory 1-8, cache 1-64, read errors armed inside steps; "
	switch prop {
	case "C01":
		return base + "non-trivial = at least one commit, one delete of a present key and one leaf enumeration or get after them; distinct = hash of full plan"
	case "C02":
		return base + "plus twin steps that rebuild the same map through another history; non-trivial = at least one twin comparison over a map of >=3 keys; distinct = hash of full plan"
	case "C03":
		return base + "non-trivial = a recreate of an older root or a restart followed by further mutations and a comparison; distinct = hash of full plan"
	case "C04":
		return base + "plus up to 30 proof requests for present and absent keys (shorter, longer, differing inside an extension segment, empty) with channel faults; non-trivial = at least one proof of a present key verified and one absent-key or tampered verification; distinct = hash of full plan"
	}
	return base
}

func (World) Budget(prop, tier string) int {
	q := map[string]int{"C01": 14000, "C02": 6000, "C03": 9000, "C04": 12000}[prop]
	if tier == "thorough" {
		return q * 30
	}
	return q
}

func (World) Generate(r *simkit.Rand, prop, tier string, race bool) *simkit.Plan {
	return generate(r, prop, tier)
}

func (World) Execute(c *simkit.Ctx) bool { return execute(c) }
