package triggersim

import (
	"encoding/hex"
	"fmt"
	"math"
	"math/big"
	"time"

	logger "github.com/ElrondNetwork/elrond-go-logger"
	"github.com/ElrondNetwork/elrond-go/config"
	"github.com/ElrondNetwork/elrond-go/core"
	"github.com/ElrondNetwork/elrond-go/data"
	"github.com/ElrondNetwork/elrond-go/data/block"
	"github.com/ElrondNetwork/elrond-go/data/endProcess"
	"github.com/ElrondNetwork/elrond-go/dataRetriever"
	"github.com/ElrondNetwork/elrond-go/epochStart/metachain"
	esmock "github.com/ElrondNetwork/elrond-go/epochStart/mock"
	"github.com/ElrondNetwork/elrond-go/hashing/sha256"
	"github.com/ElrondNetwork/elrond-go/marshal"
	"github.com/ElrondNetwork/elrond-go/storage"
	"github.com/ElrondNetwork/elrond-go/storage/storageUnit"
	"github.com/ElrondNetwork/elrond-go/update"
	upmock "github.com/ElrondNetwork/elrond-go/update/mock"
	hftrigger "github.com/ElrondNetwork/elrond-go/update/trigger"
	vmcommon "github.com/ElrondNetwork/elrond-vm-common"
	"github.com/ElrondNetwork/elrond-vm-common/parsers"

	"verifsim/simkit"
)

func init() { _ = logger.SetLogLevel("*:NONE") }

// ---- generator -----------------------------------------------------------------------------------

func genC34(r *simkit.Rand, tier string) *simkit.Plan {
	p := &simkit.Plan{Knobs: map[string]int64{}}
	p.Arm = "faultfree"
	if r.Chance(0.5) {
		p.Arm = "history"
		p.Faults = []string{"close_reopen"}
	}
	rpe := r.Range(5, 30)
	maxMin := 10
	if rpe < maxMin {
		maxMin = rpe
	}
	minR := r.Range(1, maxMin)
	p.Knobs["rpe"], p.Knobs["min"] = int64(rpe), int64(minR)
	p.Knobs["epoch0"] = 0
	if r.Chance(0.3) {
		p.Knobs["epoch0"] = int64(r.Range(1, 3))
	}
	p.Knobs["round0"] = 0
	if r.Chance(0.4) {
		p.Knobs["round0"] = int64(r.Range(1, 40))
	}
	p.Knobs["nonce0"] = int64(r.Range(4, 50))
	if r.Chance(0.25) {
		p.Knobs["nonce0"] = 0
	}

	n := r.Range(30, 160)
	ops := []string{"Update", "Force", "SetProcessed", "SetFinality", "Revert", "Restart"}
	w := []int{r.Range(8, 20), r.Range(0, 4), r.Range(1, 5), r.Range(0, 1), 0, 0}
	if p.Arm == "history" {
		w[4], w[5] = r.Range(0, 2), r.Range(0, 2)
		if w[4]+w[5] == 0 {
			w[4] = 1
		}
	}
	skipMode := r.Intn(3)
	autoCommit := []float64{0, 0.5, 0.9}[r.Intn(3)]
	viaW := []int{r.Range(1, 6), r.Range(0, 2), r.Range(0, 3)} // direct, hardfork Trigger, hardfork message
	for i := 0; i < n; i++ {
		op := ops[r.Weighted(w)]
		st := simkit.Step{Op: op}
		switch op {
		case "Update":
			var skip int
			switch skipMode {
			case 0:
				skip = 1
				if r.Chance(0.1) {
					skip = r.Range(0, 3)
				}
			case 1:
				skip = r.Range(0, 5)
			default:
				skip = r.Range(1, 3)
				if r.Chance(0.15) {
					skip = r.Range(rpe/2, rpe+3)
				}
			}
			commit := int64(0)
			if r.Chance(autoCommit) {
				commit = 1
			}
			st.I = []int64{int64(skip), int64(r.Intn(2)), commit}
		case "Force":
			var delta, special, base int64
			switch r.Intn(9) {
			case 0, 1: // ahead of the current round
				delta = int64(r.Range(1, rpe))
			case 2: // the current round
				delta = 0
			case 3: // behind the current round
				delta = -int64(r.Range(1, 2*rpe))
			case 4: // far behind: before the current epoch's start
				delta = -int64(rpe + r.Range(0, 3*rpe))
			case 5: // far ahead
				delta = int64(rpe*r.Range(2, 4) + r.Range(0, 5))
			case 6, 7: // relative to the start round of the current epoch, around the two thresholds
				base = 1
				delta = []int64{int64(minR) - 1, int64(minR), int64(minR) + 1, int64(rpe) - 1, int64(rpe), int64(rpe) + 1, 0, -1, 1, -int64(minR)}[r.Intn(10)]
			default:
				special = 1 // the "disabled" sentinel itself
			}
			st.I = []int64{delta, int64(r.Weighted(viaW)), special, base}
		case "SetProcessed":
			st.I = []int64{0}
			if r.Chance(0.15) {
				st.I[0] = 1 // an ordinary (not epoch-start) block
			}
		case "Revert":
			st.I = []int64{[]int64{0, 0, 0, 1, 1, 2}[r.Intn(6)]}
		}
		p.Steps = append(p.Steps, st)
	}
	return p
}

// ---- boundary --------------------------------------------------------------------------------------

// metaTrigger is the part of the (unexported) metachain trigger the driver uses.
type metaTrigger interface {
	Update(round uint64, nonce uint64)
	ForceEpochStart(round uint64)
	SetProcessed(header data.HeaderHandler, body data.BodyHandler)
	RevertStateToBlock(header data.HeaderHandler) error
	SetFinalityAttestingRound(round uint64)
	Epoch() uint32
	MetaEpoch() uint32
	IsEpochStart() bool
	EpochStartRound() uint64
	LoadState(key []byte) error
	GetSavedStateKey() []byte
	IsInterfaceNil() bool
}

type hardfork interface {
	Trigger(epoch uint32, withEarlyEndOfEpoch bool) error
	TriggerReceived(payload []byte, data []byte, pkBytes []byte) (bool, error)
}

// argsParser is process.ArgumentsParser over the real call-data parser.
type argsParser struct {
	call interface {
		ParseData(data string) (string, [][]byte, error)
	}
}

func (a *argsParser) ParseCallData(d string) (string, [][]byte, error) { return a.call.ParseData(d) }
func (a *argsParser) ParseDeployData(_ string) (*parsers.DeployArgs, error) {
	return nil, fmt.Errorf("not used")
}
func (a *argsParser) CreateDataFromStorageUpdate(_ []*vmcommon.StorageUpdate) string { return "" }
func (a *argsParser) GetStorageUpdates(_ string) ([]*vmcommon.StorageUpdate, error) {
	return nil, fmt.Errorf("not used")
}
func (a *argsParser) IsInterfaceNil() bool { return a == nil }

type obs struct {
	epoch   uint32
	isStart bool
	start   uint64
}

type run struct {
	c                  *simkit.Ctx
	bootDisk, metaDisk *simkit.SimDisk
	marsh              marshal.Marshalizer
	trig               metaTrigger
	hf                 hardfork
	notified           int

	rpe, minR uint64
	epoch0    uint32
	round0    uint64
	clock     uint64
	nonce     uint64

	forcePending bool

	// the history as the driver knows it: current epoch, the round it started in (moved to the round of the committed
	// epoch-start block, restored by reverts and restarts), and whether its epoch-start block is still to be committed
	mEpoch      uint32
	mStart      uint64
	mPending    bool
	saved       map[string]obs              // mirror of the trigger registry: state saved under each state key
	startBlocks map[uint32]*block.MetaBlock // committed epoch-start block per epoch (genesis included)
	parents     map[uint32]*block.MetaBlock // parent header of each committed epoch-start block
	lastStart   *block.MetaBlock

	// the boot storer of the node: the trigger state key recorded with the current chain head
	bootKey   []byte
	keyBefore map[uint32][]byte // boot key of the head just before the epoch-start block of an epoch was committed

	starts int
}

var triggerPk = []byte("trigger-public-key")

func newMeta() *block.MetaBlock {
	return &block.MetaBlock{
		AccumulatedFees: big.NewInt(0), AccumulatedFeesInEpoch: big.NewInt(0), DeveloperFees: big.NewInt(0), DevFeesInEpoch: big.NewInt(0),
		EpochStart: block.EpochStart{Economics: block.Economics{TotalSupply: big.NewInt(0), TotalToDistribute: big.NewInt(0), TotalNewlyMinted: big.NewInt(0),
			RewardsPerBlock: big.NewInt(0), RewardsForProtocolSustainability: big.NewInt(0), NodePrice: big.NewInt(0)}},
	}
}

// chainEpoch is the epoch of the last committed epoch-start block according to the history.
func (r *run) chainEpoch() uint32 {
	if r.mPending && r.mEpoch > 0 {
		return r.mEpoch - 1
	}
	return r.mEpoch
}

func (r *run) observe() obs {
	return obs{epoch: r.trig.Epoch(), isStart: r.trig.IsEpochStart(), start: r.trig.EpochStartRound()}
}

// build creates the storage units over the disks, the trigger and the hardfork trigger.
func (r *run) build() error {
	mkUnit := func(d *simkit.SimDisk) (storage.Storer, error) {
		cache, err := storageUnit.NewCache(storageUnit.CacheConfig{Type: storageUnit.LRUCache, Capacity: 8})
		if err != nil {
			return nil, err
		}
		d.Reopen()
		return storageUnit.NewStorageUnit(cache, d)
	}
	boot, err := mkUnit(r.bootDisk)
	if err != nil {
		return err
	}
	meta, err := mkUnit(r.metaDisk)
	if err != nil {
		return err
	}
	args := &metachain.ArgsNewMetaEpochStartTrigger{
		GenesisTime:     time.Unix(0, 0),
		Settings:        &config.EpochStartConfig{MinRoundsBetweenEpochs: int64(r.minR), RoundsPerEpoch: int64(r.rpe)},
		Epoch:           r.epoch0,
		EpochStartRound: r.round0,
		EpochStartNotifier: &esmock.EpochStartNotifierStub{
			NotifyAllCalled: func(_ data.HeaderHandler) { r.notified++ },
		},
		Marshalizer:      r.marsh,
		Hasher:           sha256.NewSha256(),
		AppStatusHandler: &esmock.AppStatusHandlerStub{},
		Storage: &esmock.ChainStorerStub{GetStorerCalled: func(unit dataRetriever.UnitType) storage.Storer {
			if unit == dataRetriever.BootstrapUnit {
				return boot
			}
			return meta
		}},
	}
	t, err := metachain.NewEpochStartTrigger(args)
	if err != nil {
		return err
	}
	r.trig = t
	hf, err := hftrigger.NewTrigger(hftrigger.ArgHardforkTrigger{
		Enabled: true, EnabledAuthenticated: true, CloseAfterExportInMinutes: 10,
		TriggerPubKeyBytes: triggerPk, SelfPubKeyBytes: triggerPk,
		ArgumentParser:         &argsParser{call: parsers.NewCallArgsParser()},
		EpochProvider:          t,
		ExportFactoryHandler:   &upmock.ExportFactoryHandlerStub{CreateCalled: func() (update.ExportHandler, error) { return nil, fmt.Errorf("no export in this world") }},
		ChanStopNodeProcess:    make(chan endProcess.ArgEndProcess, 1),
		EpochConfirmedNotifier: &upmock.EpochStartNotifierStub{},
		ImportStartHandler:     &upmock.ImportStartHandlerStub{},
		RoundHandler:           &upmock.RoundHandlerStub{IndexCalled: func() int64 { return int64(r.clock) }},
	})
	if err != nil {
		return err
	}
	r.hf = hf
	r.saved[string(t.GetSavedStateKey())] = obs{epoch: r.epoch0, start: r.round0} // the constructor saves the genesis state
	return nil
}

func (r *run) hash(h *block.MetaBlock) []byte {
	b, err := core.CalculateHash(r.marsh, sha256.NewSha256(), h)
	if err != nil {
		r.c.HarnessErr("hashing a header: %v", err)
	}
	return b
}

// ---- execution -----------------------------------------------------------------------------------

func execC34(c *simkit.Ctx) bool {
	p := c.Plan
	r := &run{c: c, marsh: &marshal.GogoProtoMarshalizer{}, startBlocks: map[uint32]*block.MetaBlock{}, parents: map[uint32]*block.MetaBlock{}, keyBefore: map[uint32][]byte{}, saved: map[string]obs{}}
	r.rpe = uint64(p.Knob("rpe", 10))
	r.minR = uint64(p.Knob("min", 3))
	if r.rpe < 1 {
		r.rpe = 1
	}
	if r.minR < 1 {
		r.minR = 1
	}
	if r.minR > r.rpe {
		r.minR = r.rpe
	}
	r.epoch0 = uint32(p.Knob("epoch0", 0))
	r.round0 = uint64(p.Knob("round0", 0))
	r.clock = r.round0
	r.nonce = uint64(p.Knob("nonce0", 4))
	r.bootDisk = simkit.NewSimDisk("boot", c)
	r.metaDisk = simkit.NewSimDisk("meta", c)

	// the genesis creator stores the genesis meta block under its epoch-start identifier
	gen := newMeta()
	gen.Epoch, gen.Round, gen.Nonce = r.epoch0, r.round0, 0
	gen.EpochStart.LastFinalizedHeaders = []block.EpochStartShardData{{ShardID: 0, Epoch: r.epoch0}}
	gb, err := r.marsh.Marshal(gen)
	if err != nil {
		c.HarnessErr("marshal genesis: %v", err)
		return false
	}
	r.metaDisk.RawPut([]byte(core.EpochStartIdentifier(r.epoch0)), gb)
	r.startBlocks[r.epoch0] = gen

	if err := r.build(); err != nil {
		c.HarnessErr("constructing the trigger: %v", err)
		return false
	}
	r.bootKey = append([]byte(nil), r.trig.GetSavedStateKey()...)
	r.mEpoch, r.mStart = r.epoch0, r.round0

	// commitStartBlock does what the meta processor does once the trigger says "epoch start": build, commit, SetProcessed.
	commitStartBlock := func() {
		e := r.trig.Epoch()
		parent := newMeta()
		parent.Epoch, parent.Round, parent.Nonce = e-1, r.clock, r.nonce
		parent.RandSeed = []byte(fmt.Sprintf("parent-of-%d-at-%d", e, r.clock))
		r.nonce++
		blk := newMeta()
		blk.Epoch, blk.Round, blk.Nonce = e, r.clock, r.nonce
		blk.PrevHash = r.hash(parent)
		blk.EpochStart.LastFinalizedHeaders = []block.EpochStartShardData{{ShardID: 0, Epoch: e - 1, Round: r.clock}}
		if prev, ok := r.startBlocks[e-1]; ok {
			blk.EpochStart.Economics.PrevEpochStartRound = prev.Round
		} else {
			blk.EpochStart.Economics.PrevEpochStartRound = r.round0
		}
		if r.clock > r.trig.EpochStartRound() {
			c.Probe("start_block_later_than_trigger_round")
		}
		r.keyBefore[e] = r.bootKey
		r.trig.SetProcessed(blk, nil)
		r.bootKey = append([]byte(nil), r.trig.GetSavedStateKey()...)
		r.startBlocks[e], r.parents[e], r.lastStart = blk, parent, blk
		r.mEpoch, r.mStart, r.mPending = e, blk.Round, false
		r.saved[string(r.bootKey)] = obs{epoch: e, start: blk.Round}
	}

	for i := range p.Steps {
		st := &p.Steps[i]
		c.CurStep = i
		before := r.observe()
		wasPending := r.forcePending
		prevStart := r.mStart
		prevEpoch := r.mEpoch // the epoch of the chain history before this step
		desc := ""
		switch st.Op {
		case "Update":
			skip := st.Int(0, 1)
			if skip < 0 {
				skip = 0
			}
			r.clock += uint64(skip)
			if st.Int(1, 0) != 0 {
				r.nonce++
			}
			r.trig.Update(r.clock, r.nonce)
			after := r.observe()
			started := after.epoch != before.epoch
			desc = fmt.Sprintf("round=%d nonce=%d", r.clock, r.nonce)
			if before.isStart && !r.mPending {
				c.Probe("trigger_reports_pending_start_after_commit")
			}
			if !r.mPending && !wasPending {
				due := r.clock > prevStart+r.rpe
				switch {
				case due && !started && r.nonce >= 4:
					c.Violate("C34", "late-start", "Update", "Update(round=%d, nonce=%d): no epoch start although no force is pending and the round is after start %d + %d rounds per epoch (epoch %d)",
						r.clock, r.nonce, prevStart, r.rpe, before.epoch)
				case due && !started:
					c.Probe("zero_epoch_edge_case_nonce_below_4")
				case !due && started:
					c.Violate("C34", "early-start-without-force", "Update", "Update(round=%d): epoch %d started although no force is pending and the round is not after start %d + %d rounds per epoch",
						r.clock, after.epoch, prevStart, r.rpe)
				}
			}
			if started && after.epoch == before.epoch+1 {
				r.mEpoch, r.mStart, r.mPending = after.epoch, r.clock, true
				if wasPending && r.clock <= prevStart+r.rpe {
					c.Probe("epoch_started_by_force")
				} else {
					c.Probe("epoch_started_normally")
				}
				if st.Int(2, 0) != 0 && after.isStart {
					commitStartBlock()
				}
			}
		case "Force":
			base := r.clock
			if st.Int(3, 0) != 0 {
				base = before.start
			}
			req := uint64(0)
			if d := st.Int(0, 0); d >= 0 {
				req = base + uint64(d)
			} else if uint64(-d) <= base {
				req = base - uint64(-d)
			}
			if st.Int(2, 0) != 0 {
				req = math.MaxUint64
			}
			via := st.Int(1, 0)
			switch via {
			case 1:
				req = r.clock + 10 // what the hardfork trigger computes: current round + deltaRoundsForForcedEpoch
				if err := r.hf.Trigger(r.trig.MetaEpoch()+1, true); err != nil {
					c.HarnessErr("hardfork Trigger: %v", err)
					return false
				}
			case 2:
				msg := "hardfork trigger" +
					"@" + hex.EncodeToString([]byte("4102444800")) +
					"@" + hex.EncodeToString([]byte(fmt.Sprintf("%d", r.trig.MetaEpoch()+1))) +
					"@" + hex.EncodeToString([]byte("true")) +
					"@" + hex.EncodeToString([]byte(fmt.Sprintf("%d", req)))
				if ok, err := r.hf.TriggerReceived([]byte(msg), []byte(msg), triggerPk); err != nil || !ok {
					c.HarnessErr("hardfork TriggerReceived: ok=%v err=%v", ok, err)
					return false
				}
			default:
				r.trig.ForceEpochStart(req)
			}
			r.forcePending = true
			switch {
			case req == math.MaxUint64:
				c.Probe("force_with_disabled_sentinel")
			case req < before.start:
				c.Probe("force_round_before_current_epoch_start")
			case req < r.clock:
				c.Probe("force_round_in_the_past")
			case req == r.clock:
				c.Probe("force_round_is_current_round")
			case req > before.start+r.rpe:
				c.Probe("force_round_beyond_normal_epoch_end")
			default:
				c.Probe("force_round_ahead")
			}
			if req != math.MaxUint64 && req < before.start+r.minR {
				c.Probe("force_round_below_minimum_distance")
			}
			if before.isStart {
				c.Probe("force_while_start_pending")
			}
			if via != 0 {
				c.Probe("force_through_hardfork_trigger")
			}
			desc = fmt.Sprintf("req=%d via=%d", req, via)
		case "SetProcessed":
			if st.Int(0, 0) != 0 {
				blk := newMeta() // an ordinary block: SetProcessed must ignore it
				blk.Epoch, blk.Round, blk.Nonce = before.epoch, r.clock, r.nonce
				r.trig.SetProcessed(blk, nil)
				desc = "ordinary"
			} else if before.isStart {
				commitStartBlock()
				desc = "start-block"
			} else {
				desc = "noop"
			}
		case "SetFinality":
			// the meta processor attests finality of a committed epoch-start block when a later block is committed
			if !before.isStart && r.lastStart != nil && r.lastStart.Epoch == before.epoch && before.epoch > r.epoch0 {
				r.trig.SetFinalityAttestingRound(r.clock)
				if r.clock > before.start { // the trigger saved its state under a new key
					r.bootKey = append([]byte(nil), r.trig.GetSavedStateKey()...)
					r.saved[string(r.bootKey)] = obs{epoch: r.mEpoch, start: r.mStart}
				}
				desc = "attested"
			} else {
				desc = "noop"
			}
		case "Revert":
			mode := st.Int(0, 0)
			switch {
			case mode == 0 && r.lastStart != nil && r.lastStart.Epoch > r.epoch0 && r.lastStart.Epoch == r.chainEpoch() && r.parents[r.lastStart.Epoch] != nil:
				// the last committed epoch-start block itself is rolled back: the new head is its parent (the trigger may
				// already have fired for the following epoch without that block being committed)
				ce := r.lastStart.Epoch
				if r.mPending {
					c.Probe("revert_behind_start_block_while_next_start_pending")
				}
				if err := r.trig.RevertStateToBlock(r.parents[ce]); err != nil {
					c.Probe("revert_returned_error")
					desc = "start-block-rollback-failed"
					break
				}
				c.Probe("revert_of_epoch_start_block")
				if k := r.keyBefore[ce]; k != nil {
					r.bootKey = k
				}
				delete(r.keyBefore, ce)
				delete(r.startBlocks, ce)
				delete(r.parents, ce)
				r.lastStart = r.startBlocks[ce-1]
				if r.lastStart != nil && r.parents[r.lastStart.Epoch] == nil && r.lastStart.Epoch != r.epoch0 {
					r.lastStart = nil
				}
				r.mEpoch, r.mStart, r.mPending = ce-1, r.round0, false
				if prev := r.startBlocks[ce-1]; prev != nil {
					r.mStart = prev.Round
				}
				desc = "start-block-rolled-back"
			case mode == 1 && r.lastStart != nil && r.lastStart.Epoch > r.epoch0:
				// the block after the epoch-start block is rolled back: the new head is the epoch-start block
				if r.mPending {
					c.Probe("revert_to_start_block_while_next_start_pending")
				}
				if err := r.trig.RevertStateToBlock(r.lastStart); err != nil {
					c.Probe("revert_returned_error")
				} else {
					c.Probe("revert_to_epoch_start_block")
				}
				r.bootKey = append([]byte(nil), r.trig.GetSavedStateKey()...)
				r.mEpoch, r.mStart, r.mPending = r.lastStart.Epoch, r.lastStart.Round, false
				r.saved[string(r.bootKey)] = obs{epoch: r.mEpoch, start: r.mStart}
				desc = "to-start-block"
			default:
				h := newMeta()
				h.Epoch, h.Round, h.Nonce = before.epoch, r.clock, r.nonce
				h.RandSeed = []byte(fmt.Sprintf("unrelated-%d", i))
				if err := r.trig.RevertStateToBlock(h); err != nil {
					c.Probe("revert_returned_error")
				}
				desc = "unrelated"
			}
		case "Restart":
			key := r.bootKey
			if before.isStart {
				c.Probe("restart_while_start_pending")
			}
			if err := r.build(); err != nil {
				c.HarnessErr("restart: %v", err)
				return false
			}
			if err := r.trig.LoadState(key); err != nil {
				c.HarnessErr("LoadState(%q): %v", key, err)
				return false
			}
			exp, ok := r.saved[string(key)]
			if !ok {
				c.HarnessErr("no mirrored registry state for key %q", key)
				return false
			}
			r.mEpoch, r.mStart, r.mPending = exp.epoch, exp.start, false
			r.forcePending = false
			c.Fault("close_reopen")
			c.Probe("restart")
		default:
			c.HarnessErr("unknown op %q", st.Op)
			return false
		}

		// every operation: an increase of the epoch is an epoch start
		after := r.observe()
		if (st.Op == "Restart" || st.Op == "Revert") && after.epoch > before.epoch {
			// re-positioning the trigger on another chain state is not an epoch start
			c.Probe("epoch_higher_after_" + st.Op)
		} else if after.epoch > before.epoch {
			r.starts++
			r.forcePending = false
			if after.epoch != before.epoch+1 {
				c.Violate("C34", "epoch-jump", st.Op, "%s: epoch went from %d to %d in one epoch start", st.Op, before.epoch, after.epoch)
			} else if st.Op == "Update" && after.epoch != prevEpoch+1 {
				c.Violate("C34", "epoch-jump", "Update", "Update(round=%d) started epoch %d, but the chain history is in epoch %d (last operations: reverts/restarts put the trigger back there): the epoch must increase by exactly one per epoch start",
					r.clock, after.epoch, prevEpoch)
			} else if st.Op == "Update" {
				// the start round of the new epoch as the trigger itself decided it (before any epoch-start block moved it)
				newStart := r.clock
				if newStart < prevStart || newStart-prevStart < r.minR {
					c.Violate("C34", "min-rounds", "Update", "epoch %d started in round %d, %d rounds after epoch %d started (round %d); minimum is %d (force pending: %v)",
						after.epoch, newStart, int64(newStart)-int64(prevStart), before.epoch, prevStart, r.minR, wasPending)
				}
			} else {
				if after.start < prevStart || after.start-prevStart < r.minR {
					c.Violate("C34", "min-rounds", st.Op, "%s: epoch %d started in round %d, previous epoch %d started in round %d; minimum distance is %d",
						st.Op, after.epoch, after.start, before.epoch, prevStart, r.minR)
				}
				r.mEpoch, r.mStart, r.mPending = after.epoch, after.start, after.isStart
			}
		}
		if after.epoch != r.mEpoch || after.start != r.mStart {
			c.Probe("reported_state_differs_from_history")
		}
		c.Eventf("%d %s %s -> epoch=%d isStart=%v startRound=%d pendingForce=%v", i, st.Op, desc, after.epoch, after.isStart, after.start, r.forcePending)
		c.FP(after.epoch, int64(after.start)-int64(r.clock), after.isStart, r.forcePending)
		c.StepsDone++
		if c.Failed("C34") {
			break
		}
	}
	if r.starts >= 2 {
		c.Probe("two_or_more_epoch_starts")
	}
	return r.starts >= 2
}
