// Package triggersim is world W11: the metachain epoch-start trigger (C34) driven by a logical round clock,
// forced epoch-start requests (direct and through the hardfork trigger), epoch-start blocks, reverts and restarts.
package triggersim

import (
	"verifsim/simkit"
)

// World implements simkit.World.
type World struct{}

func (World) Name() string         { return "triggersim" }
func (World) Properties() []string { return []string{"C34"} }

func (World) Real(prop string) []string {
	return []string{
		"epochStart/metachain.trigger (NewEpochStartTrigger, Update, ForceEpochStart, SetProcessed, RevertStateToBlock/revert, SetFinalityAttestingRound, Epoch, IsEpochStart, EpochStartRound)",
		"epochStart/metachain trigger registry (saveState / LoadState, JSON) over the boot storage unit",
		"update/trigger.trigger (hardfork trigger): Trigger(epoch, withEarlyEndOfEpoch) and TriggerReceived(message) as callers of ForceEpochStart (steps with via=1/2)",
		"storage/storageUnit.Unit + real LRU cache over the simulator's disks (BootstrapUnit, MetaBlockUnit)",
		"marshal.GogoProtoMarshalizer, hashing/sha256, data/block.MetaBlock, elrond-vm-common parsers.CallArgsParser (hardfork message)",
	}
}

func (World) Stub(prop string) []string {
	return []string{
		"round clock: the round numbers in the plan (monotone, with skips and repeats); the hardfork trigger's RoundHandler.Index returns the same clock",
		"storage service: epochStart/mock.ChainStorerStub handing out two real storage units over simkit.SimDisk",
		"epoch-start notifier: epochStart/mock.EpochStartNotifierStub (counts notifications); app status handler stub",
		"block production: the driver builds the epoch-start meta block the way the meta processor does (Epoch = trigger.Epoch(), Round = round of the last Update, PrevEpochStartRound = round of the previous epoch-start block, PrevHash = hash of a parent header) and calls SetProcessed after commit",
		"revert: the driver calls RevertStateToBlock(parent of the epoch-start block) / RevertStateToBlock(epoch-start block) as the block processor does on rollback; the genesis epoch-start block is pre-stored under its epoch-start identifier as the genesis creator does",
		"restart: a new trigger over the same disks followed by LoadState(state key recorded with the current chain head), as the bootstrapper does with the boot storer entry of the head block",
		"hardfork trigger collaborators: export factory, import-start handler, epoch-confirmed notifier (never calls back, so no export is started), stop channel; message timestamps are far in the future so the wall-clock grace check never decides anything",
	}
}

func (World) Assumptions(prop string) []string {
	return []string{
		"an epoch start is an observed increase of Epoch() (every operation is bracketed by reads of Epoch()/IsEpochStart()/EpochStartRound()): the increase must be exactly one, and the round of the Update that started the epoch must be at least MinRoundsBetweenEpochs after the start round of the previous epoch",
		"the start round of the current epoch is taken from the history the driver produced, not from the trigger: the round of the Update that started it, then the round of its committed epoch-start block (SetProcessed), after a rollback of that block the round of the previous epoch's start block, after a restart the state that was saved under the boot key (the driver mirrors which state the registry saved under which key); on the repaired tree EpochStartRound()/Epoch() agreed with this history after every step (probe reported_state_differs_from_history = 0)",
		"'without forcing': no ForceEpochStart call (direct or through the hardfork trigger) since the last epoch start or restart; then an Update starts the epoch iff round > start round + RoundsPerEpoch (both directions), provided the previous epoch-start block is committed and nonce >= 4 (the code's genesis edge case nonce < 4 never starts an epoch; counted as probe, not asserted)",
		"with a force pending only the +1 and the minimum-distance clauses are asserted",
		"'+1' is judged twice: against Epoch() read just before the operation, and against the epoch of the chain history the driver produced (after a rollback to / behind an epoch-start block, also while the trigger had already fired for the following epoch whose block was never committed, the history is back in the earlier epoch and the next epoch start must lead to that epoch + 1)",
		"rounds given to Update never decrease (the node's round clock); the epoch-start block carries the round of the latest Update; SetFinalityAttestingRound is only called for a committed epoch-start block; a restart loads the state key recorded with the current chain head (rolled back together with the head); Epoch() changing on revert or restart is not an epoch start",
		"constructor preconditions are enforced by the generator: 1 <= MinRoundsBetweenEpochs <= RoundsPerEpoch",
	}
}

func (World) Rule(prop string) string {
	return "knobs: rounds per epoch 5-30, min rounds between epochs 1-10 (<= rounds per epoch), genesis epoch 0-3, genesis round 0-40, first nonce 0 or >= 4; " +
		"30-160 steps of Update(round skip 0..k, nonce step)|Force(requested round = clock+delta with delta ahead / equal / behind / before the epoch start / far ahead / MaxUint64; " +
		"direct, via hardfork Trigger, via hardfork TriggerReceived message)|SetProcessed(epoch-start block or ordinary block)|SetFinality|Revert(to the parent of the last committed start block | to that start block, both also while the next epoch start is pending | unrelated header)|Restart(LoadState) " +
		"with per-run op weights; arms faultfree (no revert/restart) and history (reverts and restarts, close_reopen); " +
		"non-trivial = at least two epoch starts observed; distinct = hash of full plan; state fingerprint = (epoch, start round - clock, pending start, pending force) after each step"
}

func (World) Budget(prop, tier string) int {
	q := 20000
	if tier == "thorough" {
		return q * 30
	}
	return q
}

func (World) Generate(r *simkit.Rand, prop, tier string, race bool) *simkit.Plan {
	return genC34(r, tier)
}

func (World) Execute(c *simkit.Ctx) bool {
	if c.Plan.Property != "C34" {
		c.HarnessErr("unknown property %s", c.Plan.Property)
		return false
	}
	return execC34(c)
}

// Simplify proposes plans with plainer knobs.
func (World) Simplify(p *simkit.Plan) []*simkit.Plan {
	var out []*simkit.Plan
	try := func(name string, v int64) {
		if cur, ok := p.Knobs[name]; ok && cur != v {
			q := p.Clone()
			q.Knobs[name] = v
			out = append(out, q)
		}
	}
	try("epoch0", 0)
	try("round0", 0)
	try("nonce0", 4)
	// plain Force calls instead of the hardfork path
	for i := range p.Steps {
		if p.Steps[i].Op == "Force" && p.Steps[i].Int(1, 0) == 2 {
			q := p.Clone()
			q.Steps[i].I[1] = 0
			out = append(out, q)
		}
	}
	return out
}
