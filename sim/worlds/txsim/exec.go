package txsim

import (
	"bytes"
	"errors"
	"fmt"
	"math/big"

	"github.com/ElrondNetwork/elrond-go/config"
	"github.com/ElrondNetwork/elrond-go/core"
	"github.com/ElrondNetwork/elrond-go/core/pubkeyConverter"
	"github.com/ElrondNetwork/elrond-go/data"
	"github.com/ElrondNetwork/elrond-go/data/state"
	"github.com/ElrondNetwork/elrond-go/data/state/factory"
	"github.com/ElrondNetwork/elrond-go/data/state/storagePruningManager"
	"github.com/ElrondNetwork/elrond-go/data/state/storagePruningManager/evictionWaitingList"
	"github.com/ElrondNetwork/elrond-go/data/transaction"
	"github.com/ElrondNetwork/elrond-go/data/trie"
	"github.com/ElrondNetwork/elrond-go/data/trie/hashesHolder"
	"github.com/ElrondNetwork/elrond-go/hashing/blake2b"
	"github.com/ElrondNetwork/elrond-go/marshal"
	"github.com/ElrondNetwork/elrond-go/process"
	"github.com/ElrondNetwork/elrond-go/process/block/postprocess"
	"github.com/ElrondNetwork/elrond-go/process/coordinator"
	"github.com/ElrondNetwork/elrond-go/process/economics"
	"github.com/ElrondNetwork/elrond-go/process/mock"
	txproc "github.com/ElrondNetwork/elrond-go/process/transaction"
	"github.com/ElrondNetwork/elrond-go/storage/lrucache"
	"github.com/ElrondNetwork/elrond-go/storage/memorydb"
	"github.com/ElrondNetwork/elrond-go/storage/storageUnit"
	"github.com/ElrondNetwork/elrond-go/testscommon"
	vmcommon "github.com/ElrondNetwork/elrond-vm-common"
	"github.com/ElrondNetwork/elrond-vm-common/parsers"

	"verifsim/simkit"
)

// ---- boundary stubs -----------------------------------------------------------------------------------

// epochNotifier is the epoch notifier stub: it confirms the current epoch to a handler when it registers
// (as core/forking.genericEpochNotifier does) and to every handler when the driver changes the epoch.
type epochNotifier struct {
	cur      uint32
	handlers []core.EpochSubscriberHandler
}

func (e *epochNotifier) RegisterNotifyHandler(h core.EpochSubscriberHandler) {
	e.handlers = append(e.handlers, h)
	h.EpochConfirmed(e.cur, 0)
}
func (e *epochNotifier) CurrentEpoch() uint32          { return e.cur }
func (e *epochNotifier) CheckEpoch(data.HeaderHandler) {}
func (e *epochNotifier) IsInterfaceNil() bool          { return e == nil }
func (e *epochNotifier) set(epoch uint32) {
	e.cur = epoch
	for _, h := range e.handlers {
		h.EpochConfirmed(epoch, 0)
	}
}

// faultyAccounts is the simulator's seam between the transaction processor and the real AccountsDB: a pass-through
// that can make the n-th SaveAccount call of one ProcessTransaction fail (storage error) without applying it.
type faultyAccounts struct {
	state.AccountsAdapter
	c     *simkit.Ctx
	armed bool
	at    int
	calls int
}

func (f *faultyAccounts) SaveAccount(a vmcommon.AccountHandler) error {
	if f.armed {
		n := f.calls
		f.calls++
		if n == f.at {
			f.c.Fault("save_error")
			return simkit.ErrInjected
		}
	}
	return f.AccountsAdapter.SaveAccount(a)
}

func (f *faultyAccounts) IsInterfaceNil() bool { return f == nil }

// ---- reference model ----------------------------------------------------------------------------------

type acct struct {
	bal    *big.Int
	nonce  uint64
	exists bool
}

func (a acct) clone() acct {
	return acct{bal: new(big.Int).Set(a.bal), nonce: a.nonce, exists: a.exists}
}

type world struct {
	c      *simkit.Ctx
	disk   *simkit.SimDisk
	tsm    data.StorageManager
	adb    *state.AccountsDB
	facc   *faultyAccounts
	txp    process.TransactionProcessor
	econ   process.EconomicsDataHandler
	fees   process.TransactionFeeHandler
	en     *epochNotifier
	sc     *testscommon.SCProcessorMock
	scHits int

	marsh  marshal.Marshalizer
	level  uint
	cacheN int

	userAddr [][]byte
	fillAddr [][]byte
	users    []acct // the reference model: address -> balance, nonce
	fillers  []acct
	accFees  *big.Int // expected content of the fee accumulator (current block)
	closed   *big.Int // fees of the blocks already closed by commit
	total    *big.Int // sum of balances + all fees: constant

	nSuccess, nOther int

	txLog []loggedTx  // every transaction object built from a tx step, for re-execution after an abandoned block attempt
	hist  []histEntry // the executed (not rejected) transactions since the last commit/abandon, newest last

	stray map[string]*big.Int // per tx hash: fees booked by transactions that were aborted by a fault after the booking

	committedUsers []acct   // the model at the last commit (newBlockAttempt goes back to it)
	committedTotal *big.Int // the conserved total at the last commit
}

type loggedTx struct {
	tx       *transaction.Transaction
	snd, rcv int
}

// histEntry is the point just before an executed transaction: what dropping its miniblock has to restore.
type histEntry struct {
	journalLen int
	users      []acct
	accFees    *big.Int
	hash       []byte
	snd, rcv   int
}

func addrOf(mode int64, idx int, filler bool) []byte {
	a := bytes.Repeat([]byte{0x5a}, 32)
	v := byte(idx*17 + 3)
	if filler {
		v = byte(0x80 + idx*7)
	}
	switch mode {
	case 0:
		a[0] = v
	case 1:
		a[31] = v
	case 2:
		a[16] = v
		a[31] = v ^ 0x55
	default:
		// deep layout: users are 0-3, bystanders 4-15; bit b of the index picks the high nibble of byte b, so the
		// trie alternates branch and extension nodes and is deeper than maxTrieLevelInMemory
		n := idx
		if filler {
			n = 4 + idx%12
		}
		for b := 0; b < 4; b++ {
			a[b] = 0x20
			if n&(1<<uint(b)) != 0 {
				a[b] = 0x10
			}
		}
	}
	return a
}

// open builds storer -> trie storage manager -> trie -> AccountsDB over the disk (optionally from a root).
func (w *world) open(root []byte) error {
	w.disk.Reopen()
	cache, err := lrucache.NewCache(w.cacheN)
	if err != nil {
		return err
	}
	unit, err := storageUnit.NewStorageUnit(cache, w.disk)
	if err != nil {
		return err
	}
	hasher := blake2b.NewBlake2b()
	tsm, err := trie.NewTrieStorageManager(trie.NewTrieStorageManagerArgs{
		DB:                     unit,
		Marshalizer:            w.marsh,
		Hasher:                 hasher,
		SnapshotDbConfig:       config.DBConfig{FilePath: "/nonexistent/verif-txsim", Type: "MemoryDB"},
		GeneralConfig:          config.TrieStorageManagerConfig{PruningBufferLen: 1000, SnapshotsBufferLen: 10, MaxSnapshots: 2},
		CheckpointHashesHolder: hashesHolder.NewCheckpointHashesHolder(10000000, uint64(hasher.Size())),
	})
	if err != nil {
		return err
	}
	tr, err := trie.NewTrie(tsm, w.marsh, hasher, w.level)
	if err != nil {
		return err
	}
	ewl, err := evictionWaitingList.NewEvictionWaitingList(100, memorydb.New(), w.marsh)
	if err != nil {
		return err
	}
	spm, err := storagePruningManager.NewStoragePruningManager(ewl, 1000)
	if err != nil {
		return err
	}
	adb, err := state.NewAccountsDB(tr, hasher, w.marsh, factory.NewAccountCreator(), spm)
	if err != nil {
		return err
	}
	if root != nil {
		if err = adb.RecreateTrie(root); err != nil {
			return err
		}
	}
	w.tsm, w.adb = tsm, adb
	return nil
}

func (w *world) closeStack() {
	if w.adb != nil {
		_ = w.adb.Close()
	}
	if w.tsm != nil {
		_ = w.tsm.Close()
	}
}

func (w *world) newTxProcessor() error {
	p := w.c.Plan
	pkc, err := pubkeyConverter.NewBech32PubkeyConverter(32)
	if err != nil {
		return err
	}
	w.facc = &faultyAccounts{AccountsAdapter: w.adb, c: w.c}
	shardC := mock.NewOneShardCoordinatorMock()
	tth, err := coordinator.NewTxTypeHandler(coordinator.ArgNewTxTypeHandler{
		PubkeyConverter:        pkc,
		ShardCoordinator:       shardC,
		BuiltInFuncNames:       map[string]struct{}{},
		ArgumentParser:         parsers.NewCallArgsParser(),
		RelayedTxV2EnableEpoch: uint32(p.Knob("relayedV2Epoch", 0)),
		EpochNotifier:          w.en,
	})
	if err != nil {
		return err
	}
	w.txp, err = txproc.NewTxProcessor(txproc.ArgsNewTxProcessor{
		Accounts:                       w.facc,
		Hasher:                         blake2b.NewBlake2b(),
		PubkeyConv:                     pkc,
		Marshalizer:                    w.marsh,
		SignMarshalizer:                &marshal.JsonMarshalizer{}, // the node's [TxSignMarshalizer] Type = "json"; internal marshalizer is gogo protobuf
		ShardCoordinator:               shardC,
		ScProcessor:                    w.sc,
		TxFeeHandler:                   w.fees,
		TxTypeHandler:                  tth,
		EconomicsFee:                   w.econ,
		ReceiptForwarder:               &mock.IntermediateTransactionHandlerMock{},
		BadTxForwarder:                 &mock.IntermediateTransactionHandlerMock{},
		ArgsParser:                     &mock.ArgumentParserMock{},
		ScrForwarder:                   &mock.IntermediateTransactionHandlerMock{},
		RelayedTxEnableEpoch:           uint32(p.Knob("relayedEpoch", 0)),
		RelayedTxV2EnableEpoch:         uint32(p.Knob("relayedV2Epoch", 0)),
		PenalizedTooMuchGasEnableEpoch: uint32(p.Knob("penalizedEpoch", 0)),
		MetaProtectionEnableEpoch:      uint32(p.Knob("metaProtEpoch", 0)),
		EpochNotifier:                  w.en,
	})
	return err
}

func (w *world) newEconomics() error {
	p := w.c.Plan
	ed, err := economics.NewEconomicsData(economics.ArgsNewEconomicsData{
		Economics: &config.EconomicsConfig{
			GlobalSettings: config.GlobalSettings{
				GenesisTotalSupply: "2000000000000000000000",
				MinimumInflation:   0,
				YearSettings:       []*config.YearSetting{{Year: 0, MaximumInflation: 0.01}},
			},
			RewardsSettings: config.RewardsSettings{RewardsConfigByEpoch: []config.EpochRewardSettings{{
				LeaderPercentage: 0.1, DeveloperPercentage: 0.1, ProtocolSustainabilityPercentage: 0.1,
				ProtocolSustainabilityAddress: "erd1932eft30w753xyvme8d49qejgkjc09n5e49w4mwdjtm0neld797su0dlxp",
				TopUpGradientPoint:            "300000000000000000000", TopUpFactor: 0.25, EpochEnable: 0,
			}}},
			FeeSettings: config.FeeSettings{
				MaxGasLimitPerBlock:     fmt.Sprint(p.Knob("maxGasPerBlock", 1500000000)),
				MaxGasLimitPerMetaBlock: "15000000000",
				MinGasPrice:             fmt.Sprint(p.Knob("minGasPrice", 1000000000)),
				MinGasLimit:             fmt.Sprint(p.Knob("minGasLimit", 50000)),
				GasPerDataByte:          fmt.Sprint(p.Knob("gasPerByte", 1500)),
				GasPriceModifier:        float64(p.Knob("modifierPct", 1)) / 100,
			},
		},
		PenalizedTooMuchGasEnableEpoch: uint32(p.Knob("penalizedEpoch", 0)),
		GasPriceModifierEnableEpoch:    uint32(p.Knob("gasModEpoch", 0)),
		EpochNotifier:                  w.en,
		BuiltInFunctionsCostHandler:    &mock.BuiltInCostHandlerStub{},
	})
	if err != nil {
		return err
	}
	w.econ = ed
	return nil
}

// observe reads one account through the public AccountsDB API (no fault is armed while the oracle reads).
func (w *world) observe(addr []byte) (acct, error) {
	a, err := w.adb.GetExistingAccount(addr)
	if err == state.ErrAccNotFound {
		return acct{bal: big.NewInt(0)}, nil
	}
	if err != nil {
		return acct{}, err
	}
	ua, ok := a.(state.UserAccountHandler)
	if !ok {
		return acct{}, fmt.Errorf("not a user account")
	}
	return acct{bal: new(big.Int).Set(ua.GetBalance()), nonce: ua.GetNonce(), exists: true}, nil
}

func (w *world) observeAll() (users, fillers []acct, ok bool) {
	for _, ad := range w.userAddr {
		a, err := w.observe(ad)
		if err != nil {
			w.c.HarnessErr("oracle read of account %x failed without an armed fault: %v", ad, err)
			return nil, nil, false
		}
		users = append(users, a)
	}
	for _, ad := range w.fillAddr {
		a, err := w.observe(ad)
		if err != nil {
			w.c.HarnessErr("oracle read of account %x failed without an armed fault: %v", ad, err)
			return nil, nil, false
		}
		fillers = append(fillers, a)
	}
	return users, fillers, true
}

func sumAll(users, fillers []acct, extra ...*big.Int) *big.Int {
	s := big.NewInt(0)
	for _, a := range users {
		s.Add(s, a.bal)
	}
	for _, a := range fillers {
		s.Add(s, a.bal)
	}
	for _, e := range extra {
		s.Add(s, e)
	}
	return s
}

func parseAmount(s string) *big.Int {
	v, ok := new(big.Int).SetString(s, 10)
	if !ok || v.Sign() < 0 {
		return big.NewInt(0)
	}
	return v
}

var sentinels = []error{
	process.ErrFailedTransaction, process.ErrHigherNonceInTransaction, process.ErrLowerNonceInTransaction,
	process.ErrInsufficientFee, process.ErrInsufficientFunds, process.ErrInsufficientGasPriceInTx,
	process.ErrInsufficientGasLimitInTx, process.ErrMoreGasThanGasLimitPerBlock, process.ErrTxValueOutOfBounds,
	process.ErrTxValueTooBig, simkit.ErrInjected,
}

func errClass(err error) string {
	if err == nil {
		return "ok"
	}
	for _, s := range sentinels {
		if errors.Is(err, s) {
			return s.Error()
		}
	}
	return "other error"
}

func execC23(c *simkit.Ctx) bool {
	p := c.Plan
	w := &world{c: c, marsh: &marshal.GogoProtoMarshalizer{}, accFees: big.NewInt(0), closed: big.NewInt(0), total: big.NewInt(0)}
	w.level = uint(p.Knob("trieLevel", 5))
	if w.level < 1 {
		w.level = 1
	}
	w.cacheN = int(p.Knob("cacheSize", 10))
	if w.cacheN < 1 {
		w.cacheN = 1
	}
	w.disk = simkit.NewSimDisk("accounts", c)
	w.en = &epochNotifier{cur: uint32(p.Knob("startEpoch", 0))}
	w.sc = &testscommon.SCProcessorMock{
		ExecuteSmartContractTransactionCalled: func(data.TransactionHandler, state.UserAccountHandler, state.UserAccountHandler) (vmcommon.ReturnCode, error) {
			w.scHits++
			return vmcommon.UserError, errors.New("sc processor stub reached")
		},
		ExecuteBuiltInFunctionCalled: func(data.TransactionHandler, state.UserAccountHandler, state.UserAccountHandler) (vmcommon.ReturnCode, error) {
			w.scHits++
			return vmcommon.UserError, errors.New("sc processor stub reached")
		},
		DeploySmartContractCalled: func(data.TransactionHandler, state.UserAccountHandler) (vmcommon.ReturnCode, error) {
			w.scHits++
			return vmcommon.UserError, errors.New("sc processor stub reached")
		},
		ProcessIfErrorCalled: func(state.UserAccountHandler, []byte, data.TransactionHandler, string, []byte, int, uint64) error {
			w.scHits++
			return nil
		},
	}
	fa, err := postprocess.NewFeeAccumulator()
	if err != nil {
		c.HarnessErr("fee accumulator: %v", err)
		return false
	}
	w.fees = fa
	if err = w.newEconomics(); err != nil {
		c.HarnessErr("economics: %v", err)
		return false
	}
	if err = w.open(nil); err != nil {
		c.HarnessErr("accounts stack: %v", err)
		return false
	}
	defer func() { w.closeStack() }()

	// ---- genesis: every acct/fill step, wherever the shrinker left it ----
	nAcc := int(p.Knob("nAcc", 2))
	if nAcc < 1 {
		nAcc = 1
	}
	if nAcc > 4 {
		nAcc = 4
	}
	addrMode := p.Knob("addrMode", 0)
	for i := 0; i < nAcc; i++ {
		w.userAddr = append(w.userAddr, addrOf(addrMode, i, false))
		w.users = append(w.users, acct{bal: big.NewInt(0)})
	}
	mint := func(addr []byte, amount *big.Int) bool {
		a, err := w.adb.LoadAccount(addr)
		if err == nil {
			err = a.(state.UserAccountHandler).AddToBalance(amount)
		}
		if err == nil {
			err = w.adb.SaveAccount(a)
		}
		if err != nil {
			c.HarnessErr("genesis allocation: %v", err)
			return false
		}
		return true
	}
	fillSeen := map[int]int{}
	for si := range p.Steps {
		st := &p.Steps[si]
		switch st.Op {
		case "acct":
			if st.T < 0 || st.T >= nAcc {
				continue
			}
			v := parseAmount(st.Str(0))
			if !mint(w.userAddr[st.T], v) {
				return false
			}
			w.users[st.T].bal.Add(w.users[st.T].bal, v)
			w.users[st.T].exists = true
		case "fill":
			if st.T < 0 || st.T > 11 {
				continue
			}
			v := parseAmount(st.Str(0))
			ad := addrOf(addrMode, st.T, true)
			if !mint(ad, v) {
				return false
			}
			if k, ok := fillSeen[st.T]; ok {
				w.fillers[k].bal.Add(w.fillers[k].bal, v)
			} else {
				fillSeen[st.T] = len(w.fillers)
				w.fillAddr = append(w.fillAddr, ad)
				w.fillers = append(w.fillers, acct{bal: v, exists: true})
			}
		}
	}
	if _, err = w.adb.Commit(); err != nil {
		c.HarnessErr("genesis commit: %v", err)
		return false
	}
	w.total = sumAll(w.users, w.fillers)
	w.markCommitted()
	if err = w.newTxProcessor(); err != nil {
		c.HarnessErr("tx processor: %v", err)
		return false
	}
	c.Eventf("genesis users=%d fillers=%d total=%s epoch=%d", nAcc, len(w.fillers), w.total, w.en.cur)

	for si := range p.Steps {
		st := &p.Steps[si]
		c.CurStep = si
		switch st.Op {
		case "epoch":
			e := uint32(st.Int(0, 0))
			if e > 10 {
				e = 10
			}
			w.en.set(e)
			c.Eventf("epoch %d", e)
			c.StepsDone++
		case "commit":
			if !w.commit() {
				return false
			}
			c.StepsDone++
		case "restart":
			if !w.restart() {
				return false
			}
			c.StepsDone++
		case "tx":
			if !w.doTx(st) {
				return false
			}
			c.StepsDone++
		case "redo":
			if !w.redo(int(st.Int(0, 0))) {
				return false
			}
			c.StepsDone++
		case "newBlockAttempt":
			if !w.newBlockAttempt() {
				return false
			}
			c.StepsDone++
		case "dropLastMiniblock":
			if !w.dropLastMiniblock(int(st.Int(0, 1))) {
				return false
			}
			c.StepsDone++
		}
		if c.Failed("C23") {
			break
		}
	}
	if !c.Failed("C23") && c.Harness == "" {
		c.CurStep = len(p.Steps)
		w.sweep("end of run")
	}
	if w.scHits > 0 {
		c.HarnessErr("a generated transaction reached the smart contract processor stub (%d calls): not a pure move-balance", w.scHits)
	}
	return w.nSuccess > 0 && w.nOther > 0
}

// commit is the end of a block: full sweep of the state, persist the accounts, hand the collected fees over.
func (w *world) commit() bool {
	c := w.c
	if !w.sweep("end of block") {
		return false
	}
	if c.Failed("C23") {
		return true
	}
	root, err := w.adb.Commit()
	if err != nil {
		c.HarnessErr("commit failed without an armed fault: %v", err)
		return false
	}
	w.closed.Add(w.closed, w.fees.GetAccumulatedFees())
	w.fees.CreateBlockStarted()
	w.accFees = big.NewInt(0)
	w.markCommitted()
	c.Eventf("commit root=%x closedFees=%s", root[:4], w.closed)
	c.FPBytes(root)
	return true
}

// restart: commit, drop every component above the disk, rebuild them from the committed root. Nothing is read
// afterwards (the next transactions find a cold trie); the next sweep compares the whole state with the model.
func (w *world) restart() bool {
	c := w.c
	if !w.sweep("before restart") {
		return false
	}
	if c.Failed("C23") {
		return true
	}
	root, err := w.adb.Commit()
	if err != nil {
		c.HarnessErr("commit failed without an armed fault: %v", err)
		return false
	}
	w.closed.Add(w.closed, w.fees.GetAccumulatedFees())
	w.fees.CreateBlockStarted()
	w.accFees = big.NewInt(0)
	w.markCommitted()
	w.closeStack()
	if err = w.open(root); err != nil {
		c.HarnessErr("reopen from committed root %x: %v", root, err)
		return false
	}
	if err = w.newTxProcessor(); err != nil {
		c.HarnessErr("tx processor: %v", err)
		return false
	}
	c.Eventf("restart from root=%x", root[:4])
	c.Probe("restart_from_committed_root")
	return true
}

func (w *world) markCommitted() {
	w.hist = nil
	w.stray = nil // CreateBlockStarted forgot the per-hash entries; the amounts stay in the closed total
	w.committedUsers = make([]acct, len(w.users))
	for i := range w.users {
		w.committedUsers[i] = w.users[i].clone()
	}
	w.committedTotal = new(big.Int).Set(w.total)
}

// newBlockAttempt abandons everything since the last commit: accounts back to the committed root
// (RevertToSnapshot(0)), fee handler CreateBlockStarted (accumulated fees and the per-hash map start empty). The
// fees booked in the abandoned attempt vanish together with the debits that paid them: the total is the committed one.
func (w *world) newBlockAttempt() bool {
	c := w.c
	if err := w.adb.RevertToSnapshot(0); err != nil {
		c.HarnessErr("RevertToSnapshot(0) failed without an armed fault: %v", err)
		return false
	}
	w.fees.CreateBlockStarted()
	for i := range w.committedUsers {
		w.users[i] = w.committedUsers[i].clone()
	}
	w.accFees = big.NewInt(0)
	w.total = new(big.Int).Set(w.committedTotal)
	w.hist = nil
	w.stray = nil
	c.Eventf("newBlockAttempt: back to the last commit")
	c.Probe("block_attempt_abandoned")
	if got := w.fees.GetAccumulatedFees(); got.Sign() != 0 {
		c.Violate("C23", "fee-collector-after-new-block-attempt", "CreateBlockStarted", "accumulated fees = %s right after CreateBlockStarted, the attempt starts with 0", got)
	}
	return true // nothing is read here: the re-created trie stays cold, the next sweep compares every account
}

// dropLastMiniblock drops the k most recent executed transactions by hash, as the transaction coordinator does with
// a miniblock it cannot keep: accounts.RevertToSnapshot(snapshot before the first of them) + feeHandler.RevertFees(hashes).
func (w *world) dropLastMiniblock(k int) bool {
	c := w.c
	if k < 1 {
		k = 1
	}
	if k > 3 {
		k = 3
	}
	if k > len(w.hist) {
		k = len(w.hist)
	}
	if k == 0 {
		c.Eventf("skip dropLastMiniblock: nothing executed since the last commit")
		return true
	}
	group := w.hist[len(w.hist)-k:]
	first := group[0]
	hashes := make([][]byte, 0, k)
	touched := map[int]bool{}
	for _, h := range group {
		hashes = append(hashes, h.hash)
		touched[h.snd], touched[h.rcv] = true, true
	}
	if err := w.adb.RevertToSnapshot(first.journalLen); err != nil {
		c.HarnessErr("RevertToSnapshot(%d) failed without an armed fault: %v", first.journalLen, err)
		return false
	}
	w.fees.RevertFees(hashes)
	w.hist = w.hist[:len(w.hist)-k]
	c.Eventf("dropLastMiniblock: %d transactions, journal back to %d", k, first.journalLen)
	c.Probe("miniblock_dropped_by_hash")
	// model: balances, nonces and accumulated fees as they were just before the first dropped transaction
	for i := range w.users {
		w.users[i] = first.users[i].clone()
	}
	w.accFees = new(big.Int).Set(first.accFees)
	for _, h := range hashes {
		if s := w.stray[string(h)]; s != nil && s.Sign() > 0 {
			w.accFees.Sub(w.accFees, s)
			w.total.Sub(w.total, s)
			delete(w.stray, string(h))
			c.Probe("stray_fee_removed_with_dropped_hash")
		}
	}
	if got := w.fees.GetAccumulatedFees(); got.Cmp(w.accFees) != 0 {
		c.Violate("C23", "fee-collector-after-dropped-miniblock", "RevertFees", "accumulated fees = %s after dropping %d transactions by hash, the fees accounted before them were %s", got, k, w.accFees)
		return true
	}
	for i := 0; i < len(w.users); i++ {
		if !touched[i] {
			continue
		}
		a, err := w.observe(w.userAddr[i])
		if err != nil {
			c.HarnessErr("oracle read of account %d failed without an armed fault: %v", i, err)
			return false
		}
		if a.bal.Cmp(w.users[i].bal) != 0 || a.nonce != w.users[i].nonce {
			c.Violate("C23", "changed-outside-its-transactions", "dropLastMiniblock", "account %d is %s/%d after its transactions were dropped, before them it was %s/%d", i, a.bal, a.nonce, w.users[i].bal, w.users[i].nonce)
			return true
		}
	}
	return true
}

// redo re-submits an earlier transaction object unchanged (same fields, same hash), as a new block attempt does.
func (w *world) redo(back int) bool {
	if back < 0 || back >= len(w.txLog) {
		w.c.Eventf("skip redo: no such transaction")
		return true
	}
	l := w.txLog[len(w.txLog)-1-back]
	w.c.Probe("transaction_re_executed")
	return w.execTx(l.tx, l.snd, l.rcv, "", 0)
}

// sweep re-reads every account (users and bystanders) and compares it with the reference model, then checks the
// global clause. Per transaction only sender and receiver are read, so that the oracle does not keep the trie warm.
func (w *world) sweep(site string) bool {
	users, fillers, ok := w.observeAll()
	if !ok {
		return false
	}
	for i := range users {
		if users[i].bal.Cmp(w.users[i].bal) != 0 || users[i].nonce != w.users[i].nonce {
			w.c.Violate("C23", "changed-outside-its-transactions", site, "user account %d is %s/%d at %s, the transactions it took part in leave it at %s/%d",
				i, users[i].bal, users[i].nonce, site, w.users[i].bal, w.users[i].nonce)
			return true
		}
	}
	for i := range fillers {
		if fillers[i].bal.Cmp(w.fillers[i].bal) != 0 || fillers[i].nonce != w.fillers[i].nonce {
			w.c.Violate("C23", "changed-outside-its-transactions", site, "bystander account %d is %s/%d at %s, genesis gave it %s/%d and it never took part in a transaction",
				i, fillers[i].bal, fillers[i].nonce, site, w.fillers[i].bal, w.fillers[i].nonce)
			return true
		}
	}
	got := sumAll(users, fillers, w.closed, w.fees.GetAccumulatedFees())
	if got.Cmp(w.total) != 0 {
		w.c.Violate("C23", "conservation", site, "sum of balances + collected fees = %s at %s, was %s", got, site, w.total)
	}
	return true
}

func (w *world) doTx(st *simkit.Step) bool {
	c := w.c
	p := c.Plan
	nAcc := len(w.users)
	snd, rcv := int(st.Int(0, 0)), int(st.Int(1, 0))
	if snd < 0 || snd >= nAcc || rcv < 0 || rcv >= nAcc {
		c.Eventf("skip tx: no such account")
		return true
	}
	ms := w.users[snd]
	tx := &transaction.Transaction{SndAddr: w.userAddr[snd], RcvAddr: w.userAddr[rcv], Value: big.NewInt(0)}
	if n := st.Int(8, 0); n > 0 && n <= 64 {
		tx.Data = bytes.Repeat([]byte{'d'}, int(n))
	}
	// gas price
	minPrice := uint64(p.Knob("minGasPrice", 1))
	switch st.Int(4, 0) {
	case 1:
		tx.GasPrice = minPrice - 1
	case 2:
		tx.GasPrice = uint64(st.Int(5, 0))
	default:
		tx.GasPrice = minPrice + uint64(st.Int(5, 0))
	}
	// gas limit
	required := w.econ.ComputeGasLimit(tx)
	base := int64(required)
	if st.Int(6, 0) == 1 {
		base = p.Knob("maxGasPerBlock", 1500000000)
	}
	if gl := base + st.Int(7, 0); gl > 0 {
		tx.GasLimit = uint64(gl)
	}
	// nonce
	switch st.Int(9, 0) {
	case 1:
		tx.Nonce = ms.nonce
		if ms.nonce > 0 {
			tx.Nonce = ms.nonce - 1
		}
	case 2:
		tx.Nonce = ms.nonce + 1
	case 3:
		tx.Nonce = ms.nonce + 7
	default:
		tx.Nonce = ms.nonce
	}
	// the fees of this transaction, from the real economicsData (C23 is about conservation, not the fee formula)
	txFee := w.econ.ComputeTxFee(tx)
	moveFee := w.econ.ComputeMoveBalanceFee(tx)
	maxCost := core.SafeMul(tx.GasLimit, tx.GasPrice)
	// value
	delta := big.NewInt(st.Int(3, 0))
	switch st.Int(2, 0) {
	case vBalMinusTxFee:
		tx.Value = new(big.Int).Sub(ms.bal, txFee)
		tx.Value.Add(tx.Value, delta)
	case vBalMinusMaxCost:
		tx.Value = new(big.Int).Sub(ms.bal, maxCost)
		tx.Value.Add(tx.Value, delta)
	case vBalMinusMoveFee:
		tx.Value = new(big.Int).Sub(ms.bal, moveFee)
		tx.Value.Add(tx.Value, delta)
	case vBalPlus:
		tx.Value = new(big.Int).Add(ms.bal, delta)
	default:
		tx.Value = parseAmount(st.Str(0))
	}
	if tx.Value.Sign() < 0 {
		tx.Value = big.NewInt(0)
	}
	w.txLog = append(w.txLog, loggedTx{tx: tx, snd: snd, rcv: rcv})
	return w.execTx(tx, snd, rcv, st.Fault, st.FaultAt)
}

// execTx processes one transaction object the way the block processor does and checks the outcome.
func (w *world) execTx(tx *transaction.Transaction, snd, rcv int, fault string, faultAt int) bool {
	c := w.c
	nAcc := len(w.users)
	ms := w.users[snd]
	required := w.econ.ComputeGasLimit(tx)
	txFee := w.econ.ComputeTxFee(tx)
	moveFee := w.econ.ComputeMoveBalanceFee(tx)
	maxCost := core.SafeMul(tx.GasLimit, tx.GasPrice)
	// every transaction is identified by the coordinator's hash: hasher(internalMarshalizer.Marshal(tx))
	txHash, herr := core.CalculateHash(w.marsh, blake2b.NewBlake2b(), tx)
	if herr != nil {
		c.HarnessErr("tx hash: %v", herr)
		return false
	}
	before := histEntry{journalLen: 0, users: make([]acct, nAcc), accFees: new(big.Int).Set(w.accFees), hash: txHash, snd: snd, rcv: rcv}
	for i := range w.users {
		before.users[i] = w.users[i].clone()
	}

	// ---- prediction from the inputs: is this "a failure for insufficient funds"? ----
	// Asserted only where every reading of "fee" in the statement agrees: the nonce is the account nonce, the real
	// economicsData accepts gas price / gas limit / value, the balance covers the fee a failed transaction is charged
	// (ComputeTxFee, the one checkTxValues compares first) but not value + the smallest fee (ComputeMoveBalanceFee).
	// Balances between value+moveFee and value+gasLimit*gasPrice depend on which fee the epoch flags put into the
	// cost and are left unasserted; balance < fee, wrong nonce or invalid gas are plain rejections (nothing can be charged).
	minFee := moveFee
	if txFee.Cmp(minFee) < 0 {
		minFee = txFee
	}
	predictedInsufficientFunds := tx.Nonce == ms.nonce &&
		w.econ.CheckValidityTxValues(tx) == nil &&
		ms.bal.Cmp(txFee) >= 0 &&
		ms.bal.Cmp(new(big.Int).Add(tx.Value, minFee)) < 0

	// ---- what the block processor does around one transaction ----
	snapshot := w.adb.JournalLen()
	before.journalLen = snapshot
	// the unchanged code takes the success path for sure when the balance covers value + gasLimit*gasPrice
	sureSuccess := tx.Nonce == ms.nonce && w.econ.CheckValidityTxValues(tx) == nil &&
		ms.bal.Cmp(new(big.Int).Add(tx.Value, maxCost)) >= 0
	firedBefore := c.Faults["get_error"] + c.Faults["save_error"]
	getsBefore := w.disk.Gets
	switch fault {
	case "get_error":
		w.disk.Arm("get_error", faultAt)
	case "save_error":
		// only where the path through the processor is determined (charged failure or sure success), so that the
		// one tolerated effect of a failed save (see below) is attributed to the right path
		if predictedInsufficientFunds || sureSuccess {
			w.facc.armed, w.facc.at, w.facc.calls = true, faultAt, 0
		}
	}
	_, err := w.txp.ProcessTransaction(tx)
	w.disk.Disarm()
	w.facc.armed = false
	fired := c.Faults["get_error"]+c.Faults["save_error"] > firedBefore
	if w.disk.Gets > getsBefore {
		c.Probe("tx_with_disk_reads")
	}
	class := "success"
	switch {
	case err == nil:
	case errors.Is(err, process.ErrFailedTransaction):
		class = "charged"
	default:
		class = "rejected"
		if w.adb.JournalLen() > snapshot {
			c.Probe("rejection_left_journal_entries_for_the_revert")
		}
		if rerr := w.adb.RevertToSnapshot(snapshot); rerr != nil {
			c.HarnessErr("RevertToSnapshot(%d) failed without an armed fault: %v", snapshot, rerr)
			return false
		}
		if fired {
			c.Probe("revert_after_fault")
		}
	}
	c.Eventf("tx %d->%d value=%s price=%d limit=%d(required %d) data=%d nonce=%d(account %d) fault=%v => %s (%s)",
		snd, rcv, tx.Value, tx.GasPrice, tx.GasLimit, required, len(tx.Data), tx.Nonce, ms.nonce, fired, class, errClass(err))

	if predictedInsufficientFunds {
		c.Probe("predicted_insufficient_funds")
		if snd == rcv {
			c.Probe("predicted_insufficient_funds_self_transfer")
		}
		// under a fired read fault the transaction may also be rejected as a whole (then nothing may change: checked below)
		if class != "charged" && !(fired && class == "rejected") {
			c.Violate("C23", "insufficient-funds-not-charged", class,
				"sender %d (receiver %d) has the transaction's nonce %d, valid gas settings, balance %s >= fee %s but < value %s + fee %s: the statement demands a failure that charges only the fee and advances the nonce, the outcome was %s (%s)",
				snd, rcv, tx.Nonce, ms.bal, txFee, tx.Value, minFee, class, errClass(err))
			return true
		}
	}

	// ---- expected state from the reference model ----
	exp := make([]acct, nAcc)
	for i := range w.users {
		exp[i] = w.users[i].clone()
	}
	expFees := new(big.Int).Set(w.accFees)
	switch class {
	case "success":
		exp[snd].bal.Sub(exp[snd].bal, tx.Value)
		exp[snd].bal.Sub(exp[snd].bal, moveFee)
		exp[snd].nonce++
		exp[rcv].bal.Add(exp[rcv].bal, tx.Value)
		expFees.Add(expFees, moveFee)
	case "charged":
		// executingFailedTransaction charges ComputeTxFee(tx)
		exp[snd].bal.Sub(exp[snd].bal, txFee)
		exp[snd].nonce++
		expFees.Add(expFees, txFee)
		// "a failure for insufficient funds": the sender really could not pay value + fee under the most
		// demanding reading of the cost (gasLimit*gasPrice); otherwise this is "any other rejection" and nothing may be charged
		if need := new(big.Int).Add(tx.Value, maxCost); ms.bal.Cmp(need) >= 0 {
			c.Violate("C23", "charged-failure-with-sufficient-funds", "ProcessTransaction",
				"transaction failed and was charged although balance %s >= value %s + gasLimit*gasPrice %s", ms.bal, tx.Value, maxCost)
			return true
		}
	}

	// only sender and receiver are read here (a full sweep happens at the end of every block and of the run)
	users := make([]acct, nAcc)
	for i := range w.users {
		users[i] = w.users[i].clone()
	}
	for _, i := range []int{snd, rcv} {
		a, oerr := w.observe(w.userAddr[i])
		if oerr != nil {
			c.HarnessErr("oracle read of account %d failed without an armed fault: %v", i, oerr)
			return false
		}
		users[i] = a
	}
	fillers := w.fillers
	obsFees := w.fees.GetAccumulatedFees()

	// narrow relaxation under a fired fault: the aborted transaction may already have handed its fee to the
	// accumulator (ProcessTransactionFee precedes SaveAccount in executingFailedTransaction); accounts are never relaxed
	// (this is how the UNCHANGED executingFailedTransaction behaves when its SaveAccount fails; the success path books
	// the fee only after the last save, so nothing is tolerated when the transaction was a sure success)
	if fired && class == "rejected" && !sureSuccess && obsFees.Cmp(expFees) != 0 {
		d := new(big.Int).Sub(obsFees, expFees)
		if d.Cmp(txFee) == 0 {
			c.Probe("fee_accounted_before_faulted_abort")
			expFees.Set(obsFees)
			w.total.Add(w.total, d)
			w.hist = nil // that stray booking is not tied to a kept transaction: no miniblock drop across it
			// ... but the fee handler keyed it by the transaction's hash: dropping a later execution of the same
			// transaction object by hash removes the stray booking together with the real one
			if w.stray == nil {
				w.stray = map[string]*big.Int{}
			}
			if w.stray[string(txHash)] == nil {
				w.stray[string(txHash)] = big.NewInt(0)
			}
			w.stray[string(txHash)].Add(w.stray[string(txHash)], d)
		}
	}

	for i := range users {
		if users[i].bal.Cmp(exp[i].bal) != 0 {
			kind := "rejected-changed-balance"
			switch {
			case class == "success" && i == snd:
				kind = "success-sender-delta"
			case class == "success" && i == rcv:
				kind = "success-receiver-delta"
			case class == "charged" && i == snd:
				kind = "insufficient-funds-charge"
			case class != "rejected":
				kind = "bystander-balance-changed"
			}
			c.Violate("C23", kind, class, "account %d (sender %d, receiver %d): balance %s -> %s, the statement demands %s (value %s, move-balance fee %s, tx fee %s, outcome %s/%s)",
				i, snd, rcv, w.users[i].bal, users[i].bal, exp[i].bal, tx.Value, moveFee, txFee, class, errClass(err))
			return true
		}
		if users[i].nonce != exp[i].nonce {
			c.Violate("C23", "nonce-not-exactly-once", class, "account %d (sender %d): nonce %d -> %d, the statement demands %d (outcome %s/%s)",
				i, snd, w.users[i].nonce, users[i].nonce, exp[i].nonce, class, errClass(err))
			return true
		}
	}
	if class != "rejected" && obsFees.Cmp(expFees) != 0 {
		c.Violate("C23", "fee-not-accounted", class, "fee accumulator %s -> %s, the statement demands %s (outcome %s)", w.accFees, obsFees, expFees, class)
		return true
	}
	if got := sumAll(users, fillers, w.closed, obsFees); got.Cmp(w.total) != 0 {
		c.Violate("C23", "conservation", class, "sum of balances + collected fees = %s, was %s (outcome %s/%s)", got, w.total, class, errClass(err))
		return true
	}

	// ---- probes ----
	c.Probe("outcome:" + class)
	if class == "rejected" {
		c.Probe("rejected:" + errClass(err))
	}
	switch {
	case class == "charged":
		c.Probe("insufficient_funds_fee_only")
	case errors.Is(err, process.ErrHigherNonceInTransaction):
		c.Probe("higher_nonce")
	case errors.Is(err, process.ErrLowerNonceInTransaction):
		c.Probe("lower_nonce")
	}
	if class == "success" {
		w.nSuccess++
		if snd == rcv {
			c.Probe("sender_is_receiver_success")
		}
		if !w.users[rcv].exists && users[rcv].exists {
			c.Probe("new_account_created")
		}
		if tx.GasLimit > required {
			c.Probe("success_with_excess_gas")
		}
	} else {
		w.nOther++
	}
	if fired && class != "rejected" {
		c.Probe("fault_fired_but_tx_not_rejected")
	}
	c.FP(class, errClass(err), snd == rcv, users[snd].bal.Sign(), len(tx.Data) > 0, tx.GasLimit > required, w.en.cur)
	w.users, w.accFees = users, expFees
	if class != "rejected" {
		w.hist = append(w.hist, before)
		if len(w.hist) > 8 {
			w.hist = w.hist[len(w.hist)-8:]
		}
	}
	return true
}
