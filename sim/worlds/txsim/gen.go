package txsim

import (
	"math/big"

	"verifsim/simkit"
)

// Step encodings. Accounts are small indexes; amounts that depend on the state are given RELATIVE to the
// sender's current balance / nonce and resolved at execution from the reference model and the real
// economicsData, so a step keeps aiming at the same threshold when the shrinker deletes other steps.
//
//	acct     T=idx S=[balance]        genesis allocation of user account idx (all acct/fill steps are applied first, then committed)
//	fill     T=k   S=[balance]        genesis allocation of a bystander account (never sends or receives)
//	epoch    I=[e]                    epoch notifier confirms epoch e (toggles the enable-epoch flags)
//	tx       I=[snd, rcv, valueMode, valueDelta, priceMode, priceArg, limitMode, limitArg, dataLen, nonceMode] S=[absValue]
//	           valueMode  0 abs(S[0]) | 1 bal-ComputeTxFee+delta | 2 bal-gasLimit*gasPrice+delta | 3 bal-ComputeMoveBalanceFee+delta | 4 bal+delta
//	           priceMode  0 minGasPrice+arg | 1 minGasPrice-1 | 2 abs arg
//	           limitMode  0 requiredMoveGas+arg | 1 maxGasLimitPerBlock+arg
//	           nonceMode  0 equal | 1 lower | 2 +1 | 3 +7
//	           Fault=get_error, FaultAt=n: the n-th disk read inside ProcessTransaction fails
//	           Fault=save_error, FaultAt=n: the n-th AccountsAdapter.SaveAccount call inside ProcessTransaction fails (0 sender, 1 receiver)
//	redo     I=[back]                 re-submit the back-th most recent transaction OBJECT built by a tx step, unchanged (same hash)
//	newBlockAttempt                   abandon everything since the last commit: RevertToSnapshot(0) + fee handler CreateBlockStarted
//	dropLastMiniblock I=[k]           drop the k (1-3) most recent executed transactions: RevertToSnapshot(before them) + RevertFees(their hashes)
//	commit   -                        AccountsDB.Commit + fee accumulator CreateBlockStarted (end of block)
//	restart  -                        Commit, then rebuild storer/trie/AccountsDB/txProcessor over the same disk from the committed root
const (
	vAbs = iota
	vBalMinusTxFee
	vBalMinusMaxCost
	vBalMinusMoveFee
	vBalPlus
)

func genC23(r *simkit.Rand, tier string) *simkit.Plan {
	p := &simkit.Plan{Arm: "faultfree", Knobs: map[string]int64{}}
	switch x := r.Float64(); {
	case x < 0.35:
		p.Arm = "get_error"
		p.Faults = []string{"get_error"}
	case x < 0.5:
		p.Arm = "save_error"
		p.Faults = []string{"save_error"}
	}
	pick := func(v ...int64) int64 { return v[r.Intn(len(v))] }
	minGasPrice := pick(1, 10, 1000000000)
	minGasLimit := pick(1, 500, 50000)
	gasPerByte := pick(0, 1, 1500)
	p.Knobs["minGasPrice"] = minGasPrice
	p.Knobs["minGasLimit"] = minGasLimit
	p.Knobs["gasPerByte"] = gasPerByte
	p.Knobs["modifierPct"] = pick(1, 50, 100)
	p.Knobs["maxGasPerBlock"] = pick(minGasLimit+200000, 1500000000)
	if r.Chance(0.6) {
		for _, k := range []string{"penalizedEpoch", "gasModEpoch", "metaProtEpoch", "relayedEpoch", "relayedV2Epoch"} {
			p.Knobs[k] = int64(r.Range(0, 3))
		}
		if r.Chance(0.5) { // the node's configuration order: penalized-too-much-gas before gas-price-modifier
			if p.Knobs["gasModEpoch"] < p.Knobs["penalizedEpoch"] {
				p.Knobs["gasModEpoch"], p.Knobs["penalizedEpoch"] = p.Knobs["penalizedEpoch"], p.Knobs["gasModEpoch"]
			}
		}
	}
	p.Knobs["startEpoch"] = int64(r.Range(0, 3))
	p.Knobs["trieLevel"] = int64(r.Range(1, 5))
	p.Knobs["cacheSize"] = pick(1, 1, 2, 4, 100)
	p.Knobs["addrMode"] = pick(0, 1, 2, 3, 3, 3)
	nAcc := r.Range(2, 4)
	p.Knobs["nAcc"] = int64(nAcc)

	unit := new(big.Int).Mul(big.NewInt(minGasLimit), big.NewInt(minGasPrice))
	amount := func(a int64, b int64) string {
		v := new(big.Int).Mul(unit, big.NewInt(a))
		v.Add(v, big.NewInt(b))
		if v.Sign() < 0 {
			v.SetInt64(0)
		}
		return v.String()
	}
	huge := "1000000000000000000000"
	balance := func() string {
		switch r.Intn(12) {
		case 0:
			return "0"
		case 1:
			return amount(1, pick(-1, 0, 1))
		case 2:
			return amount(pick(2, 3), pick(-1, 0, 1, 7))
		case 3:
			return amount(pick(10, 100), int64(r.Intn(1000)))
		case 4, 5:
			return huge
		case 6, 7, 8:
			return amount(pick(1000, 100000, 10000000), int64(r.Intn(100000)))
		default:
			return amount(int64(r.Range(1, 400)), int64(r.Intn(50)))
		}
	}
	missing := -1
	if r.Chance(0.5) {
		missing = r.Intn(nAcc)
	}
	for i := 0; i < nAcc; i++ {
		if i == missing {
			continue
		}
		p.Steps = append(p.Steps, simkit.Step{Op: "acct", T: i, S: []string{balance()}})
	}
	for k, n := 0, r.Intn(13); k < n; k++ { // bystanders: at most 12
		p.Steps = append(p.Steps, simkit.Step{Op: "fill", T: k, S: []string{balance()}})
	}

	// swarm weights of this run
	wValue := []int{r.Range(4, 10), r.Range(0, 3), r.Range(0, 2), r.Range(0, 2), r.Range(0, 1)}
	wNonce := []int{r.Range(6, 14), r.Range(0, 2), r.Range(0, 2), r.Range(0, 1)}
	wPrice := []int{r.Range(8, 14), r.Range(0, 1), r.Range(0, 1)}
	wLimit := []int{r.Range(8, 14), r.Range(0, 1)}
	pSelf := r.Float64() * 0.3
	pShortfall := r.Float64() * 0.25
	pData := r.Float64() * 0.5
	pFault := 0.0
	if p.Arm != "faultfree" {
		pFault = 0.1 + r.Float64()*0.4
	}
	pCommit, pRestart, pEpoch := r.Float64()*0.2, r.Float64()*0.12, r.Float64()*0.1
	if p.Arm == "get_error" && r.Chance(0.7) {
		// cold reads are what the fault needs: end blocks and restart more often, keep less of the trie in memory
		pCommit, pRestart = 0.1+r.Float64()*0.4, 0.05+r.Float64()*0.35
		p.Knobs["trieLevel"] = int64(r.Range(1, 3))
		p.Knobs["cacheSize"] = pick(1, 1, 2)
	}

	pDrop, pAbandon := 0.0, 0.0
	if r.Chance(0.6) {
		pDrop, pAbandon = r.Float64()*0.2, r.Float64()*0.15
	}
	nLogged := 0

	nTx := r.Range(5, 40)
	for i := 0; i < nTx; i++ {
		if r.Chance(pEpoch) {
			p.Steps = append(p.Steps, simkit.Step{Op: "epoch", I: []int64{int64(r.Range(0, 4))}})
		}
		snd := r.Intn(nAcc)
		rcv := r.Intn(nAcc)
		if r.Chance(pSelf) {
			rcv = snd
		}
		st := simkit.Step{Op: "tx"}
		vm := int64(r.Weighted(wValue))
		vd := pick(-1, 0, 0, 1, -2, 5)
		abs := "0"
		if vm == vAbs {
			switch r.Intn(14) {
			case 0:
				abs = "0"
			case 1:
				abs = "1"
			case 2:
				abs = amount(1, 0)
			case 3:
				abs = "2000000000000000000001" // above the genesis total supply
			case 4:
				abs = "100000000000000000000000000" // more bytes than the genesis total supply
			default:
				abs = amount(int64(r.Range(0, 30)), int64(r.Intn(100)))
			}
		}
		pm := int64(r.Weighted(wPrice))
		pa := pick(0, 0, 0, 0, 1, 7)
		if pm == 2 {
			pa = pick(0, minGasPrice*3, 1000000000000)
		}
		lm := int64(r.Weighted(wLimit))
		la := pick(0, 0, 0, 0, 0, 1, 10, 1000, 50000, -1)
		if lm == 1 {
			la = pick(-1, 0, 5)
		}
		dataLen := int64(0)
		if r.Chance(pData) {
			dataLen = int64(r.Range(1, 12))
		}
		nm := int64(r.Weighted(wNonce))
		if r.Chance(pShortfall) {
			// aim at the insufficient-funds window: correct nonce, valid gas, balance >= fee but < value + fee,
			// half of the time as a self transfer
			vm, vd = pick(vBalMinusMoveFee, vBalMinusMoveFee, vBalMinusTxFee, vBalPlus), pick(1, 1, 2, 5, 1000)
			pm, pa, lm, la, nm = 0, pick(0, 0, 1), 0, pick(0, 0, 1, 10, 1000), 0
			if r.Chance(0.5) {
				rcv = snd
			}
		}
		st.I = []int64{int64(snd), int64(rcv), vm, vd, pm, pa, lm, la, dataLen, nm}
		st.S = []string{abs}
		if r.Chance(pFault) {
			st.Fault = p.Arm
			st.FaultAt = r.Intn(4)
			if p.Arm == "save_error" {
				st.FaultAt = r.Intn(2) // sender's save / receiver's save
			}
		}
		p.Steps = append(p.Steps, st)
		nLogged++
		if st.Fault == "save_error" && r.Chance(0.7) {
			p.Steps = append(p.Steps, simkit.Step{Op: "redo", I: []int64{0}}) // the rejected transaction is retried
		}
		if r.Chance(pDrop) {
			// the coordinator cannot keep the last miniblock: drop its 1-3 transactions by hash, maybe run them again
			k := r.Range(1, 3)
			p.Steps = append(p.Steps, simkit.Step{Op: "dropLastMiniblock", I: []int64{int64(k)}})
			if r.Chance(0.5) {
				for b := minInt(k, nLogged) - 1; b >= 0; b-- {
					p.Steps = append(p.Steps, simkit.Step{Op: "redo", I: []int64{int64(b)}})
				}
			}
		}
		if r.Chance(pAbandon) {
			// the block attempt is abandoned; the next attempt executes (some of) the same transactions again
			p.Steps = append(p.Steps, simkit.Step{Op: "newBlockAttempt"})
			for b := minInt(r.Range(1, 4), nLogged) - 1; b >= 0; b-- {
				if r.Chance(0.85) {
					p.Steps = append(p.Steps, simkit.Step{Op: "redo", I: []int64{int64(b)}})
				}
			}
			if r.Chance(0.5) {
				p.Steps = append(p.Steps, simkit.Step{Op: "dropLastMiniblock", I: []int64{int64(r.Range(1, 3))}})
			}
		}
		if r.Chance(pRestart) {
			p.Steps = append(p.Steps, simkit.Step{Op: "restart"})
		} else if r.Chance(pCommit) {
			p.Steps = append(p.Steps, simkit.Step{Op: "commit"})
		}
	}
	return p
}

func minInt(a, b int) int {
	if a < b {
		return a
	}
	return b
}
