// Package txsim is world W7: the shard transaction processor on move-balance transactions (C23) over a real
// AccountsDB / trie / storage unit on a simulated disk, with the real economics data and fee accumulator,
// driven the way the block processor drives it (journal snapshot, revert on error, commit, restart).
package txsim

import (
	"runtime/debug"

	logger "github.com/ElrondNetwork/elrond-go-logger"

	"verifsim/simkit"
)

func init() {
	_ = logger.SetLogLevel("*:NONE")
	// every run builds and drops a whole storage/trie/accounts stack: with the default GC target the tiny live heap
	// makes the collector run every few runs on all Ps; a higher target only trades a few MB for wall time
	debug.SetGCPercent(2000)
}

// World implements simkit.World.
type World struct{}

func (World) Name() string         { return "txsim" }
func (World) Properties() []string { return []string{"C23"} }

func (World) Real(string) []string {
	return []string{
		"process/transaction.txProcessor + baseTxProcessor (ProcessTransaction, checkTxValues, processTxFee, processMoveBalance, executingFailedTransaction)",
		"process/economics.economicsData (CheckValidityTxValues, ComputeTxFee, ComputeMoveBalanceFee, ComputeGasLimit, enable-epoch flags)",
		"process/block/postprocess.feeHandler (NewFeeAccumulator, ProcessTransactionFee, RevertFees, CreateBlockStarted, GetAccumulatedFees)",
		"process/coordinator.txTypeHandler with elrond-vm-common/parsers.CallArgsParser",
		"data/state.AccountsDB, userAccount, journal entries, account factory, storagePruningManager + evictionWaitingList",
		"data/trie.patriciaMerkleTrie + trieStorageManager, storage/storageUnit.Unit + lrucache, GogoProtoMarshalizer (internal), JsonMarshalizer (tx signing), blake2b",
		"core/pubkeyConverter.bech32PubkeyConverter, data/transaction.Transaction",
	}
}

func (World) Stub(string) []string {
	return []string{
		"disk: simkit.SimDisk under the storage unit (get_error injection; survives restart)",
		"accounts seam: pass-through wrapper around the real AccountsDB given to the tx processor (save_error injection on SaveAccount); the driver and the oracle use the AccountsDB directly",
		"smart contract processor: testscommon.SCProcessorMock (IsPayable=true; any execution call is counted and reported as harness error)",
		"receipt / bad-tx / scr forwarders: process/mock.IntermediateTransactionHandlerMock; args parser: process/mock.ArgumentParserMock",
		"shard coordinator: process/mock.oneShardCoordinatorMock (one shard)",
		"epoch notifier: confirms the current epoch on registration and on 'epoch' steps",
		"built-in function cost handler: process/mock.BuiltInCostHandlerStub",
		"block processor: the driver (JournalLen before, RevertToSnapshot on every error except ErrFailedTransaction as preprocess/transactions.go does, Commit + CreateBlockStarted, restart from the committed root) and the transaction coordinator's miniblock drop (RevertToSnapshot + RevertFees by hash) and abandoned block attempt (RevertToSnapshot(0) + CreateBlockStarted)",
		"snapshot DBs of the trie storage manager: MemoryDB (never used)",
	}
}

func (World) Assumptions(string) []string {
	return []string{
		"the property is about conservation, not the fee formula: the fee amounts come from the real economicsData of the run (success: ComputeMoveBalanceFee(tx), which processTxFee charges for an intra-shard move-balance; insufficient funds: ComputeTxFee(tx), which executingFailedTransaction charges)",
		"outcome classes are read from ProcessTransaction's result as the block processor reads them: nil = success, ErrFailedTransaction = failed-but-charged (kept in the block, no revert), any other error = rejected (reverted to the journal snapshot)",
		"whether a transaction is 'a failure for insufficient funds' is PREDICTED from the inputs, not read off the returned error: nonce equal to the account nonce, real economicsData.CheckValidityTxValues accepts it, balance >= ComputeTxFee(tx) and balance < value + min(ComputeMoveBalanceFee, ComputeTxFee); then the outcome must be the charged failure (fee only, nonce +1, receiver unchanged), for sender != receiver and sender == receiver; under a fired get_error a plain rejection is also accepted",
		"left unasserted because the statement does not say which fee enters 'value plus fee': balances in [value+ComputeMoveBalanceFee, value+gasLimit*gasPrice), where the unchanged code succeeds or fails depending on the penalized-too-much-gas / gas-price-modifier flags; balance < ComputeTxFee, wrong nonce and invalid gas are not predicted either (nothing can be charged there; whatever is returned is checked for 'no change')",
		"a failed-but-charged outcome counts as 'failure for insufficient funds' only if balance < value + gasLimit*gasPrice (the most demanding cost reading); otherwise it is reported as charged-failure-with-sufficient-funds",
		"a non-existing account is read as balance 0 / nonce 0",
		"marshalizers as in the node: internal = gogo protobuf, transaction signing = JSON ([TxSignMarshalizer] Type = json); every transaction is identified by the coordinator's hash blake2b(internalMarshalizer.Marshal(tx))",
		"newBlockAttempt mirrors an abandoned block attempt: AccountsDB.RevertToSnapshot(0) + TransactionFeeHandler.CreateBlockStarted; the unchanged CreateBlockStarted empties the totals and the per-hash map, so the model goes back to the committed balances/nonces with zero fees for the attempt (the fees of the abandoned attempt vanish together with the debits that paid them, the conserved total is the committed one)",
		"dropLastMiniblock mirrors transactionCoordinator dropping a miniblock: RevertToSnapshot(journal length before the first of the 1-3 most recent executed transactions) + RevertFees(their hashes); the model goes back to that point: balances, nonces and GetAccumulatedFees() must equal their values before those transactions (kind fee-collector-after-dropped-miniblock / changed-outside-its-transactions)",
		"redo re-submits an earlier transaction object unchanged (same hash), as the next block attempt does; it is judged like any transaction against the current model",
		"commit+restart also closes the block for the fee handler (fees handed over, CreateBlockStarted), otherwise an abandon after the restart would erase fees whose debits are already committed",
		"fee collector = fees of closed blocks (read at commit, then CreateBlockStarted) + current accumulator",
		"save_error arm: a fault-injecting pass-through around AccountsDB (the seam between txProcessor and the accounts adapter) fails the n-th SaveAccount call of one ProcessTransaction (0 = sender, 1 = receiver) without applying it; the driver reverts to its journal snapshot as for any rejection and usually retries the same transaction object; it is armed only where the path through the processor is determined from the inputs: predicted insufficient-funds failure, or sure success (nonce and gas valid, balance >= value + gasLimit*gasPrice)",
		"the ONLY tolerated effect of a fired fault: a rejected transaction that was not a sure success may leave exactly ComputeTxFee(tx) in the fee accumulator. This is what the UNCHANGED executingFailedTransaction does when its SaveAccount fails (ProcessTransactionFee precedes SaveAccount there; the caller reverts the accounts but nobody calls RevertFees for a rejected tx). The model then carries that stray amount (total and collector) keyed by the transaction hash, and expects RevertFees of that hash to remove it with the real booking. A sure-success transaction tolerates nothing: processMoveBalance books the fee only after the last save",
		"get_error arm: a read error fires only inside ProcessTransaction; accounts must be unchanged after the revert exactly as for any rejection; only the fee accumulator is relaxed as described above, never under the fault-free arm; revert, commit and oracle reads run without faults",
		"restart happens only right after Commit (no dirty crash); nothing is read right after a restart, the next sweep compares every account with the model (kind changed-outside-its-transactions) and the total (kind conservation)",
		"whether a rejection left journal entries behind (work for the caller's RevertToSnapshot) is only a probe: the statement is read at the level of the block processor protocol, which always reverts a rejected transaction",
	}
}

func (World) Rule(string) string {
	return "2-4 user accounts (one may not exist yet) plus 0-12 bystander accounts in a committed genesis, balances around multiples of minGasLimit*minGasPrice (0, exactly one fee, +-1, huge); economics drawn per run (min gas price 1/10/1e9, min gas limit 1/500/50000, gas per byte 0/1/1500, modifier 0.01/0.5/1, max gas per block), enable epochs of penalized-too-much-gas / gas-price-modifier / meta-protection / relayed drawn 0-3 and a start epoch, trie level in memory 1-5, storer cache 1-100, four address layouts (one deep: alternating branch/extension nodes so that commits collapse nodes and transactions read the disk); " +
		"5-40 transactions: value absolute (0, 1, fee-sized, above total supply, too many bytes) or relative to the sender balance (balance - fee +-k for three fee readings, balance + k), gas price min+k / below min / absolute, gas limit required+k / required-1 / at the block limit, data 0-12 bytes, nonce equal / lower / +1 / +7, sender==receiver; up to 25% of the transactions of a run aim at the insufficient-funds window (correct nonce, valid gas, value = balance - fee + k), half of them as self transfers; epoch changes, commit (end of block), commit+restart from the root; in 60% of the runs also dropLastMiniblock (1-3 most recent transactions reverted by snapshot and by hash, half of the time re-executed) and newBlockAttempt (everything since the last commit abandoned, the last 1-4 transaction objects executed again, sometimes dropped again); " +
		"arm save_error fails the sender's or the receiver's SaveAccount inside ProcessTransaction on 10-50% of the transactions and retries 70% of them; arm get_error fails the n-th (0-3) disk read inside ProcessTransaction on 10-50% of the transactions (that arm commits and restarts more often and keeps 1-3 trie levels in memory, so reads are cold); after every transaction the oracle reads sender and receiver only, every account is swept at the end of each block, before each restart and at the end of the run; " +
		"non-trivial = at least one successful transfer and at least one charged failure or rejection; distinct = hash of full plan"
}

func (World) Budget(prop, tier string) int {
	q := 16000
	if tier == "thorough" {
		return q * 30
	}
	return q
}

func (World) Generate(r *simkit.Rand, prop, tier string, race bool) *simkit.Plan {
	return genC23(r, tier)
}

func (World) Execute(c *simkit.Ctx) bool {
	if c.Plan.Property != "C23" {
		c.HarnessErr("unknown property %s", c.Plan.Property)
		return false
	}
	return execC23(c)
}
