#!/usr/bin/env python3
"""Confirm one seeded defect delivered by an independent sub-agent and run the checks against it.

usage: seedcheck.py <property> <delivery dir> <name> [extra property ...]

Steps (all in a fresh scratch worktree of /repo's HEAD, removed afterwards):
  1. the demonstration passes on the unchanged tree
  2. the patch applies, `go build ./...` succeeds
  3. the existing tests of the touched packages pass with the patch (demo file absent)
  4. the demonstration fails with the patch
  5. ./check <property> quick (and extra properties) with VERIF_REPO=<worktree>: caught (exit 1) or missed
The result is stored as /verif/seeded/<name>/{patch.diff, demo file, meta.json}.
"""
import json, os, shutil, subprocess, sys, time

ENV = dict(os.environ, GOFLAGS="-mod=mod", GOPROXY="off", GOSUMDB="off")


def run(cmd, cwd, timeout=3600, env=ENV):
    t = time.time()
    p = subprocess.run(cmd, shell=True, cwd=cwd, env=env, stdout=subprocess.PIPE, stderr=subprocess.STDOUT, text=True, errors="replace", timeout=timeout)
    return p.returncode, p.stdout, time.time() - t


def tail(s, n=12):
    return "\n".join(s.strip().splitlines()[-n:])


def main():
    prop, src, name = sys.argv[1], sys.argv[2].rstrip("/"), sys.argv[3]
    extra = sys.argv[4:]
    meta = json.load(open(os.path.join(src, "meta.json")))
    wt = f"/tmp/sc-{name}"
    out = f"/verif/seeded/{name}"
    res = {"property": prop, "name": name, "ran": [], "ok": False}
    subprocess.run(f"git -C /repo worktree remove --force {wt}", shell=True, stderr=subprocess.DEVNULL)
    rc, o, _ = run(f"git -C /repo worktree add -q {wt} HEAD", "/repo")
    if rc != 0:
        print("cannot create worktree", o)
        return 2
    try:
        demo_src = os.path.join(src, meta["demo_file"])
        demo_dst = os.path.join(wt, meta["demo_dest"])
        if os.path.isdir(demo_dst) or meta["demo_dest"].endswith("/"):
            demo_dst = os.path.join(demo_dst, meta["demo_file"])
        os.makedirs(os.path.dirname(demo_dst), exist_ok=True)
        shutil.copy(demo_src, demo_dst)
        rc, o, dt = run(meta["demo_cmd"], wt)
        res["ran"].append({"step": "demo on unchanged tree", "cmd": meta["demo_cmd"], "exit": rc, "s": round(dt, 1), "tail": tail(o, 4)})
        if rc != 0:
            res["reject"] = "demonstration does not pass on the unchanged tree"
            return finish(res, src, out, meta, wt)
        os.remove(demo_dst)
        rc, o, _ = run(f"git apply {src}/patch.diff", wt)
        if rc != 0:
            res["reject"] = "patch does not apply: " + tail(o, 3)
            return finish(res, src, out, meta, wt)
        rc, o, dt = run("go build ./...", wt)
        res["ran"].append({"step": "go build ./... with the change", "exit": rc, "s": round(dt, 1), "tail": tail(o, 4)})
        if rc != 0:
            res["reject"] = "does not compile"
            return finish(res, src, out, meta, wt)
        attempts = 0
        while True:  # data/trie has timing-sensitive tests that fail now and then on the unchanged tree under load
            attempts += 1
            rc, o, dt = run(meta["pkg_tests_cmd"], wt, timeout=5400)
            fails = [l for l in o.splitlines() if l.startswith("--- FAIL")]
            res["ran"].append({"step": f"existing tests of the touched packages with the change (attempt {attempts})", "cmd": meta["pkg_tests_cmd"], "exit": rc, "s": round(dt, 1),
                               "failed_tests": fails[:5], "tail": tail(o, 6)})
            if rc == 0 or attempts >= 3:
                break
        if rc != 0:
            res["reject"] = "existing tests of the touched packages fail with the change"
            return finish(res, src, out, meta, wt)
        shutil.copy(demo_src, demo_dst)
        rc, o, dt = run(meta["demo_cmd"], wt)
        res["ran"].append({"step": "demo with the change", "cmd": meta["demo_cmd"], "exit": rc, "s": round(dt, 1), "tail": tail(o, 8)})
        os.remove(demo_dst)
        if rc == 0:
            res["reject"] = "demonstration does not fail with the change"
            return finish(res, src, out, meta, wt)
        res["ok"] = True
        res["checks"] = {}
        for p in [prop] + extra:
            rc, o, dt = run(f"./check {p} quick", "/verif", env=dict(ENV, VERIF_REPO=wt))
            lines = [l for l in o.splitlines() if l.startswith(("VIOLATION", "  kind=", "KNOWN-FINDING", "OK ", "HARNESS", "runs="))]
            res["checks"][p] = {"exit": rc, "caught": rc == 1, "s": round(dt, 1), "lines": [l[:400] for l in lines[:8]]}
        return finish(res, src, out, meta, wt)
    finally:
        subprocess.run(f"git -C /repo worktree remove --force {wt}", shell=True)
        sfx = subprocess.run(f"echo {wt} | cksum | cut -d' ' -f1", shell=True, stdout=subprocess.PIPE, text=True).stdout.strip()
        subprocess.run(f"rm -f /verif/.build/*.{sfx}.* /verif/.build/go.{sfx}.*", shell=True)


def finish(res, src, out, meta, wt):
    os.makedirs(out, exist_ok=True)
    shutil.copy(os.path.join(src, "patch.diff"), out)
    shutil.copy(os.path.join(src, meta["demo_file"]), out)
    m = {"breaks_property": res["property"], "summary": meta.get("summary"), "needs_to_manifest": meta.get("needs_to_manifest"),
         "files_changed": meta.get("files_changed"), "demo_file": meta["demo_file"], "demo_dest": meta["demo_dest"], "demo_cmd": meta["demo_cmd"],
         "origin": "independent sub-agent given only the property text and a scratch worktree", "confirmed_by_me": res["ran"], "accepted": res["ok"],
         "reject_reason": res.get("reject"), "checks": res.get("checks")}
    try:  # keep the hand-written history note of an earlier confirmation
        old = json.load(open(os.path.join(out, "meta.json")))
        if old.get("history"):
            m["history"] = old["history"]
    except (OSError, ValueError):
        pass
    json.dump(m, open(os.path.join(out, "meta.json"), "w"), indent=1)
    status = "REJECTED: " + res.get("reject", "") if not res["ok"] else " ".join(f"{p}:{'CAUGHT' if c['caught'] else 'MISSED(exit %d)' % c['exit']}" for p, c in res["checks"].items())
    print(f"{res['name']}: {status}")
    return 0


if __name__ == "__main__":
    sys.exit(main())
