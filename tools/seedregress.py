#!/usr/bin/env python3
"""Re-run `./check <id> quick` against every accepted seeded change (patch only, no demo / package tests).

usage: seedregress.py <stream index> <number of streams>
Each stream uses one scratch worktree of /repo's HEAD (/tmp/rg-<k>, removed at the end), applies one patch at a time and
undoes it. Results are merged into /verif/seeded/regress-<k>.json: name -> {result, kinds, verif_commit, repo_commit}.
"""
import glob, json, os, subprocess, sys

ENV = dict(os.environ, GOFLAGS="-mod=mod", GOPROXY="off", GOSUMDB="off", GOTOOLCHAIN="local")


def sh(cmd, cwd="/verif", env=ENV):
    p = subprocess.run(cmd, shell=True, cwd=cwd, env=env, stdout=subprocess.PIPE, stderr=subprocess.STDOUT, text=True, errors="replace")
    return p.returncode, p.stdout


def main():
    k, n = int(sys.argv[1]), int(sys.argv[2])
    names = sorted(os.path.basename(os.path.dirname(f)) for f in glob.glob("/verif/seeded/*/meta.json"))
    if os.environ.get("SEED_ONLY"):  # JSON list of names to restrict the run to
        only = set(json.load(open(os.environ["SEED_ONLY"])))
        names = [x for x in names if x in only]
    names = [x for i, x in enumerate(names) if i % n == k]
    wt = f"/tmp/rg-{k}"
    sh(f"git -C /repo worktree remove --force {wt}")
    rc, o = sh(f"git -C /repo worktree add -q {wt} HEAD")
    if rc != 0:
        print(o)
        return 2
    vc = sh("git rev-parse --short HEAD")[1].strip()
    rcmt = sh("git -C /repo rev-parse --short HEAD")[1].strip()
    out = {}
    try:
        for name in names:
            m = json.load(open(f"/verif/seeded/{name}/meta.json"))
            if not m.get("accepted"):
                continue
            prop = m["breaks_property"]
            rc, o = sh(f"git apply /verif/seeded/{name}/patch.diff", wt)
            if rc != 0:
                out[name] = {"result": "patch does not apply on the current HEAD", "verif_commit": vc, "repo_commit": rcmt}
                print(name, out[name]["result"], flush=True)
                continue
            rc, o = sh(f"./check {prop} quick", env=dict(ENV, VERIF_REPO=wt))
            kinds = sorted(set(l.strip().split(" ")[0].replace("kind=", "") for l in o.splitlines() if l.strip().startswith("kind=")))
            res = {1: "caught", 0: "MISSED"}.get(rc, f"exit {rc}")
            out[name] = {"result": res, "kinds": kinds, "verif_commit": vc, "repo_commit": rcmt}
            print(name, res, kinds, flush=True)
            sh("git checkout -q -- . && git clean -fdq", wt)
            json.dump(out, open(f"/verif/seeded/regress-{k}.json", "w"), indent=1)
    finally:
        sh(f"git -C /repo worktree remove --force {wt}")
        sfx = sh(f"echo {wt} | cksum | cut -d' ' -f1")[1].strip()
        sh(f"rm -f /verif/.build/*.{sfx}.* /verif/.build/go.{sfx}.*")
    return 0


if __name__ == "__main__":
    sys.exit(main())
