#!/usr/bin/env python3
"""Prints the markdown table of DESIGN.md §12 from /verif/seeded/*/meta.json."""
import glob, json, os

rows = []
for f in sorted(glob.glob("/verif/seeded/*/meta.json")):
    m = json.load(open(f))
    name = os.path.basename(os.path.dirname(f))
    if not m.get("accepted"):
        rows.append((name, m.get("breaks_property"), "rejected: " + str(m.get("reject_reason")), "-", (m.get("summary") or "")[:110]))
        continue
    res = []
    for p, c in (m.get("checks") or {}).items():
        kinds = [l.strip().split(" ")[0].replace("kind=", "") for l in c.get("lines", []) if l.strip().startswith("kind=")]
        res.append(f"{p}: {'caught' if c['caught'] else 'MISSED'}" + (f" ({', '.join(sorted(set(kinds)))})" if kinds else ""))
    hist = m.get("history", "")
    rows.append((name, m.get("breaks_property"), "; ".join(res), hist, (m.get("summary") or "").replace("|", "/")[:140]))

print("| seeded change | property | result of `./check <id> quick` | note | what was changed |")
print("|---|---|---|---|---|")
for r in rows:
    print("| " + " | ".join(str(x) for x in r) + " |")
